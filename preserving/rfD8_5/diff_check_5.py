"""Differential check for refactor5.diff (generate_curves_pst_file)

Observation lines and their count produced in one pass, with the
per-group format made once.  Generates control files (and, as these
live in the same module, all the other PEST files) for the sample
databases -- with and without fitted offsets, i.e. with NULL
observations -- and for synthetic databases (no observations at all,
only one group, a single row, integer-valued, integer, text, NULL and
huge values, ties in zeta_mm) with several precisions, incl. bad ones.
Compares text written / exception / connection state exactly.

"""

import os
import sys

sys.path.insert(0, os.path.dirname(os.path.abspath(__file__)))
import dc_common  # noqa: E402
import dc_pest  # noqa: E402


class OddPrecision:
    """A precision that is not a number"""

    def __format__(self, spec):
        return '6'

    def __str__(self):
        return '7'


def worker(rec):
    import io
    import yaml
    import spowtd.pestfiles as pestfiles_mod
    import spowtd.test.conftest as conftest

    texts = {}
    for kind in ('peatclsm', 'spline'):
        with open(conftest.get_parameter_file_path(kind), 'rt') as f:
            texts[kind] = f.read()
    spline = yaml.safe_load(texts['spline'])
    texts['spline 0 knots'] = yaml.safe_dump({
        'specific_yield': {
            'type': 'spline', 'zeta_knots_mm': [], 'sy_knots': []},
        'transmissivity': {
            'type': 'spline', 'zeta_knots_mm': [], 'K_knots_km_d': [],
            'minimum_transmissivity_m2_d': 1}})
    texts['spline 12/11 knots'] = yaml.safe_dump({
        'specific_yield': {
            'type': 'spline', 'zeta_knots_mm': list(range(12)),
            'sy_knots': [0.1] * 12},
        'transmissivity': {
            'type': 'spline', 'zeta_knots_mm': list(range(11)),
            'K_knots_km_d': [2.0] * 11,
            'minimum_transmissivity_m2_d': 1}})
    texts['unknown type'] = yaml.safe_dump({
        'specific_yield': {'type': 'cubic'},
        'transmissivity': {'type': 'spline'}})
    texts['sy spline, T peatclsm'] = yaml.safe_dump({
        'specific_yield': spline['specific_yield'],
        'transmissivity': {'type': 'peatclsm', 'Ksmacz0': 7.3, 'alpha': 3,
                           'zeta_max_cm': 1.0}})
    texts['sy_knots missing'] = yaml.safe_dump({
        'specific_yield': {'type': 'spline', 'zeta_knots_mm': [1, 2]},
        'transmissivity': spline['transmissivity']})
    texts['empty'] = ''

    databases = [
        ('sample 1', dc_common.sample_connection(1)),
        ('sample 2', dc_common.sample_connection(2)),
        # offsets not fitted: observations are NULL
        ('sample 1 no offsets', dc_common.sample_connection(
            1, rise=False, recession=False)),
        ('sample 2 rise only', dc_common.sample_connection(
            2, recession=False)),
        ('sample 2 recession only', dc_common.sample_connection(
            2, rise=False)),
        ('no observations', dc_pest.synthetic_connection([], [])),
        ('storage only', dc_pest.synthetic_connection(
            [(1.0, 0.25), (2.0, 0.5)], [])),
        ('time only', dc_pest.synthetic_connection(
            [], [(1.0, 86400.0), (2.0, 43200.0)])),
        ('one each', dc_pest.synthetic_connection([(0, 1.5)], [(0, 3600)])),
        ('counts differ from rows', dc_pest.synthetic_connection(
            [(i, 0.5 * i) for i in range(5)],
            [(i, 600 * i) for i in range(7)],
            n_rise_zeta=3, n_recession_zeta=9)),
        ('many rows', dc_pest.synthetic_connection(
            [(0.5 * i, 1e-3 * i * i) for i in range(1234)],
            [(0.5 * i, 86400.0 / (i + 1)) for i in range(1001)])),
        ('integer-valued floats', dc_pest.synthetic_connection(
            [(-2.0, 0.0), (-1.0, 10.0), (0.0, -0.0), (1.0, 1e22)],
            [(-2.0, 0.0), (-1.0, 86400.0), (0.0, 172800.0)])),
        ('integers', dc_pest.synthetic_connection(
            [(-2, 0), (-1, 10), (0, 2 ** 62), (1, -7)],
            [(-2, 0), (-1, 86400), (0, 86401), (1, -1)])),
        ('ties and unsorted', dc_pest.synthetic_connection(
            [(3.0, 0.3), (1.0, 0.1), (3.0, 0.31), (2.0, 0.2), (1.0, 0.11)],
            [(3.0, 30.0), (1.0, 10.0), (3.0, 31.0), (2.0, 20.0),
             (1.0, 11.0)])),
        ('null zeta', dc_pest.synthetic_connection(
            [(None, 0.3), (1.0, 0.1)], [(1.0, 30.0), (None, 10.0)])),
        ('null storage in the middle', dc_pest.synthetic_connection(
            [(1.0, 0.1), (2.0, None), (3.0, 0.3)], [(1.0, 30.0)])),
        ('null time at the end', dc_pest.synthetic_connection(
            [(1.0, 0.1)], [(1.0, None), (2.0, 30.0)])),
        ('null in both', dc_pest.synthetic_connection(
            [(1.0, None)], [(1.0, None)])),
        ('text storage', dc_pest.synthetic_connection(
            [(1.0, 'abc')], [(1.0, 30.0)])),
        ('text time', dc_pest.synthetic_connection(
            [(1.0, 0.5)], [(1.0, 'abc'), (2.0, '86400')])),
        ('blob', dc_pest.synthetic_connection(
            [(1.0, b'x')], [(1.0, 30.0)])),
        ('extreme values', dc_pest.synthetic_connection(
            [(1.0, 1e308), (2.0, 5e-324), (3.0, float('inf')),
             (4.0, 0.1 + 0.2)],
            [(1.0, 1e308), (2.0, 5e-324), (3.0, float('-inf')),
             (4.0, 1 / 3)])),
    ]
    precisions = [
        {},
        {'precision': 17},
        {'precision': 6},
        {'precision': 1},
        {'precision': 0},
        {'precision': 30},
        {'precision': '4'},
        {'precision': -1},
        {'precision': 2.5},
        {'precision': None},
        {'precision': 'x'},
        {'precision': '{}'},
        {'precision': '3}{'},
        {'precision': True},
    ]
    for dlabel, connection in databases:
        before = dc_common.dump_database(connection)
        for tlabel, text in texts.items():
            if not dlabel.startswith('sample') or tlabel in (
                'peatclsm', 'spline'
            ):
                for kwargs in precisions:
                    if kwargs and dlabel in ('sample 2', 'many rows'):
                        continue
                    dc_pest.run_pestfiles(
                        rec,
                        '{} / {}'.format(dlabel, tlabel),
                        connection,
                        text,
                        kinds=('curves',),
                        outfile_types=('pst',),
                        **kwargs
                    )
        # the other generators, once per database
        for tlabel in ('peatclsm', 'spline'):
            dc_pest.run_pestfiles(
                rec, '{} / {} (all)'.format(dlabel, tlabel), connection,
                texts[tlabel],
            )
        # direct call, precision object that is not a number
        outfile = io.StringIO()
        rec.call(
            '{} / direct, odd precision'.format(dlabel),
            pestfiles_mod.generate_curves_pst_file,
            connection=connection,
            parameters=yaml.safe_load(texts['spline']),
            configuration={},
            outfile=outfile,
            precision=OddPrecision(),
        )
        rec.add('  written', outfile.getvalue())
        assert dc_common.dump_database(connection) == before
        # The connection is still fully usable (no statement left open)
        rec.call(
            '{} / schema change afterwards'.format(dlabel),
            lambda: connection.executescript(
                'CREATE TABLE dc_probe (a); DROP TABLE dc_probe; VACUUM;'
            ) and None,
        )

    # A closed connection, and something that is not a connection
    closed = dc_pest.synthetic_connection([(1.0, 0.5)], [(1.0, 60.0)])
    closed.close()
    dc_pest.run_pestfiles(
        rec, 'closed connection', closed, texts['spline'],
        kinds=('curves',), outfile_types=('pst',),
    )
    rec.call(
        'no connection',
        pestfiles_mod.generate_curves_pestfiles,
        None,
        parameter_file=io.StringIO(texts['spline']),
        outfile_type='pst',
        configuration_file=None,
        outfile=io.StringIO(),
    )

    # Missing relation: storage present, recession view absent
    import sqlite3

    partial = sqlite3.connect(':memory:')
    partial.executescript(
        """
    CREATE TABLE average_rising_depth (zeta_mm, mean_crossing_depth_mm);
    INSERT INTO average_rising_depth VALUES (1.0, 'abc');
    """
    )
    dc_pest.run_pestfiles(
        rec, 'recession view missing', partial, texts['spline'],
        kinds=('curves',), outfile_types=('pst',),
    )


if __name__ == '__main__':
    dc_common.main(5, worker, os.path.abspath(__file__))
