"""Differential check for refactor4.diff (spowtd/load.py: populate_water_level)

Usage:  /venv/bin/python /tmp/rf_B/diff_check_4.py

Builds two copies of the package in a temporary directory (HEAD, and
HEAD + refactor4.diff), runs the scenarios below in a subprocess against
each copy, and asserts that the pickled, canonicalised results are equal
(floats compared by their bytes / repr, exceptions by type and message).
"""

import os
import pickle
import subprocess
import sys
import tempfile

ROOT = os.path.dirname(os.path.abspath(__file__))
PATCH = os.environ.get('RF_PATCH', os.path.join(ROOT, 'refactor4.diff'))


# ---------------------------------------------------------------- harness
def build_trees(tmp):
    trees = {}
    archive = subprocess.run(
        ['git', '-C', ROOT, 'archive', 'HEAD', 'spowtd'],
        check=True,
        stdout=subprocess.PIPE,
    ).stdout
    for name in ('orig', 'new'):
        tree = os.path.join(tmp, name)
        os.makedirs(tree)
        subprocess.run(['tar', '-x', '-C', tree], input=archive, check=True)
        trees[name] = tree
    subprocess.run(
        ['patch', '-s', '-p1', '-i', PATCH], cwd=trees['new'], check=True
    )
    return trees


def canon(obj):
    """Canonical, picklable, exactly comparable form of a result"""
    import numpy as np

    if isinstance(obj, np.ndarray):
        return ('ndarray', obj.dtype.str, obj.shape, obj.tobytes())
    if isinstance(obj, np.generic):
        return ('npscalar', obj.dtype.str, obj.tobytes())
    if isinstance(obj, float):
        return ('float', obj.hex())
    if isinstance(obj, (bool, int, str, bytes, type(None))):
        return (type(obj).__name__, obj)
    if isinstance(obj, (list, tuple)):
        return (type(obj).__name__, [canon(item) for item in obj])
    if isinstance(obj, dict):
        # order is observable: keep it
        return (
            type(obj).__name__,
            [(canon(key), canon(value)) for key, value in obj.items()],
        )
    if isinstance(obj, (set, frozenset)):
        return (type(obj).__name__, sorted(canon(item) for item in obj))
    raise TypeError('cannot canonicalise {!r}'.format(type(obj)))


def attempt(function, *args, **kwargs):
    """Result of a call, or the exception it raised"""
    import warnings

    try:
        with warnings.catch_warnings(record=True) as caught:
            warnings.simplefilter('always')
            value = function(*args, **kwargs)
        return (
            'ok',
            canon(value),
            [(w.category.__name__, str(w.message)) for w in caught],
        )
    except BaseException as exc:  # pylint: disable=broad-except
        return ('raised', type(exc).__name__, str(exc))


def main():
    with tempfile.TemporaryDirectory(prefix='rfB_check_') as tmp:
        trees = build_trees(tmp)
        results = {}
        for name, tree in trees.items():
            out = os.path.join(tmp, name + '.pkl')
            env = dict(os.environ, PYTHONPATH=tree)
            subprocess.run(
                [sys.executable, os.path.abspath(__file__), '--worker', out],
                check=True,
                env=env,
                cwd=tree,
            )
            with open(out, 'rb') as stream:
                results[name] = pickle.load(stream)
        orig, new = results['orig'], results['new']
        assert orig['__source__'] != new['__source__'], 'patch not applied'
        del orig['__source__'], new['__source__']
        assert list(orig) == list(new)
        n_ok = 0
        for key in orig:
            assert orig[key] == new[key], 'MISMATCH in scenario {}'.format(key)
            n_ok += orig[key][0] == 'ok'
        print(
            'diff_check_4: {} scenarios identical ({} returned, {} raised)'
            .format(len(orig), n_ok, len(orig) - n_ok)
        )


# ---------------------------------------------------------------- worker
LOOSE_SCHEMA = """
CREATE TABLE water_level_staging (epoch integer, zeta_mm double precision);
CREATE TABLE grid_time (epoch integer NOT NULL PRIMARY KEY,
                        data_interval integer NULL);
CREATE TABLE water_level (epoch integer NOT NULL PRIMARY KEY,
                          zeta_mm double precision NOT NULL);
"""


def worker(out_path):
    import io
    import sqlite3
    import numpy as np
    import spowtd.load as load_mod

    assert load_mod.__file__.startswith(os.environ['PYTHONPATH'])
    results = {}
    with open(load_mod.__file__, 'rt') as stream:
        results['__source__'] = stream.read()
    with open(load_mod.SCHEMA_PATH, 'rt') as stream:
        real_schema = stream.read()

    def run(zeta_rows, time_grid, schema=None, grid_rows=None, fk=True):
        """populate_water_level on a fresh database; returns its contents"""
        connection = sqlite3.connect(':memory:')
        cursor = connection.cursor()
        cursor.executescript(real_schema if schema is None else schema)
        cursor.execute(
            'PRAGMA foreign_keys = {}'.format(1 if fk else 0)
        )
        cursor.executemany(
            'INSERT INTO water_level_staging (epoch, zeta_mm) VALUES (?, ?)',
            zeta_rows,
        )
        if grid_rows is None:
            grid_rows = sorted(set(np.asarray(time_grid).ravel().tolist()))
        cursor.executemany(
            'INSERT INTO grid_time (epoch) VALUES (?)',
            [(int(epoch),) for epoch in grid_rows],
        )
        grid_before = canon(time_grid)
        try:
            value = load_mod.populate_water_level(cursor, time_grid)
            outcome = ('returned', value)
        except Exception as exc:  # pylint: disable=broad-except
            outcome = ('raised', type(exc).__name__, str(exc))
        contents = dump_database(connection)
        unchanged = grid_before == canon(time_grid)
        connection.close()
        return (outcome, contents, unchanged)

    def zeta(epochs):
        return [
            (int(epoch), 100.0 * np.sin(0.37 * k) - 0.125 * k)
            for k, epoch in enumerate(epochs)
        ]

    def without(epochs, *dropped):
        return [epoch for epoch in epochs if epoch not in set(dropped)]

    base = list(range(0, 6000, 300))  # 20 samples, step 300
    grid600 = list(range(0, 6001, 600))
    cases = {
        'no_gaps': (zeta(base), grid600),
        'no_gaps_same_grid': (zeta(base), base),
        'one_gap': (zeta(without(base, 1500, 1800, 2100)), grid600),
        'gap_of_one_sample': (zeta(without(base, 1800)), grid600),
        'gap_of_one_sample_off_grid': (zeta(without(base, 1500)), grid600),
        'two_gaps': (
            zeta(without(base, 900, 1200, 3300, 3600, 3900)),
            grid600,
        ),
        'isolated_sample_between_gaps': (
            zeta(without(base, 1500, 1800, 2400, 2700)),
            list(range(0, 6001, 300)),
        ),
        'isolated_sample_off_grid': (
            zeta(without(base, 1200, 1500, 2100, 2400)),
            grid600,
        ),
        'gap_at_start': (zeta(without(base, 300, 600)), grid600),
        'gap_at_end': (zeta(without(base, 5100, 5400)), grid600),
        'grid_starts_in_gap': (
            zeta(without(base, 600, 900, 1200, 1500)),
            list(range(900, 6001, 300)),
        ),
        'grid_starts_after_first_gap': (
            zeta(without(base, 600, 900, 3000, 3300)),
            list(range(1800, 6001, 300)),
        ),
        'grid_starts_after_all_gaps': (
            zeta(without(base, 600, 900, 1800)),
            list(range(3000, 6001, 300)),
        ),
        'grid_ends_before_gaps': (
            zeta(without(base, 3600, 3900, 4800)),
            list(range(0, 3001, 300)),
        ),
        'grid_ends_in_gap': (
            zeta(without(base, 3600, 3900, 4200)),
            list(range(0, 3901, 300)),
        ),
        'grid_ends_on_gap_start': (
            zeta(without(base, 3600, 3900, 4200)),
            list(range(0, 3301, 300)),
        ),
        'grid_beyond_data': (
            zeta(without(base, 1500, 1800)),
            list(range(-1200, 9000, 300)),
        ),
        'grid_finer_than_data': (
            zeta(without(base, 1500, 1800, 2100, 4500)),
            list(range(0, 5701, 60)),
        ),
        'grid_offset_from_data': (
            zeta(without(base, 1500, 1800, 2100, 4500)),
            list(range(7, 5701, 150)),
        ),
        'single_grid_time': (zeta(without(base, 1500)), [1200]),
        'single_grid_time_in_gap': (zeta(without(base, 1500)), [1500]),
        'two_grid_times': (zeta(without(base, 1500)), [1200, 1800]),
        'two_samples': (zeta([0, 300]), [0, 300]),
        'three_samples_one_gap': (zeta([0, 300, 900]), [0, 300, 600, 900]),
        'one_sample': (zeta([0]), [0, 300]),
        'no_samples': ([], [0, 300]),
        'empty_grid_list': (zeta(base), []),
        'empty_integer_grid': (zeta(base), np.array([], dtype='int64')),
        'float_grid': (zeta(base), [0.0, 600.0]),
        'negative_epochs': (
            zeta(without(list(range(-3000, 3000, 300)), -300, 0, 900)),
            list(range(-3000, 3001, 600)),
        ),
        'large_epochs': (
            zeta(
                without(
                    list(range(1600000000, 1600006000, 300)),
                    1600001500,
                    1600001800,
                )
            ),
            list(range(1600000000, 1600006001, 600)),
        ),
        'integer_valued_zeta': (
            [(epoch, float(epoch // 300)) for epoch in without(base, 1500)],
            grid600,
        ),
        'integer_zeta': (
            [(epoch, epoch // 300) for epoch in without(base, 1500)],
            grid600,
        ),
    }
    for name, (zeta_rows, time_grid) in cases.items():
        results['list/' + name] = attempt(run, zeta_rows, time_grid)
        for dtype in ('int64', 'int32'):
            if len(time_grid) and isinstance(time_grid[0], int):
                results['{}/{}'.format(dtype, name)] = attempt(
                    run, zeta_rows, np.array(time_grid, dtype=dtype)
                )
        results['tuple/' + name] = attempt(run, zeta_rows, tuple(time_grid))

    # grid_time rows missing: updates touch nothing, foreign key fails
    zeta_rows, time_grid = cases['one_gap']
    results['missing_grid_rows/fk_on'] = attempt(
        run, zeta_rows, time_grid, grid_rows=time_grid[::2]
    )
    results['missing_grid_rows/fk_off'] = attempt(
        run, zeta_rows, time_grid, grid_rows=time_grid[::2], fk=False
    )
    # unsorted grid
    results['unsorted_grid'] = attempt(
        run, zeta_rows, [3000, 0, 600, 5400, 1800, 1200, 6000, 2400]
    )
    results['repeated_grid_times'] = attempt(
        run, zeta_rows, [0, 600, 600, 1200, 1800, 1800, 2400], fk=False
    )

    # A staging table without a primary key returns rows in insertion
    # order: unsorted and repeated sample times, hence overlapping,
    # empty or inverted intervals
    loose = {
        'descending': zeta(base[::-1]),
        'descending_with_gap': zeta(without(base, 1500, 1800)[::-1]),
        'swapped_pair': zeta([0, 300, 900, 600, 1200, 1500, 1800]),
        'two_runs': zeta([3000, 3300, 3600, 3900, 0, 300, 600, 900]),
        'overlapping_runs': zeta(
            [0, 300, 600, 900, 1200, 1500, 600, 900, 1200, 1500, 1800, 2100]
        ),
        'repeated_times': zeta([0, 300, 300, 600, 900, 900, 1200]),
        'zero_steps_only': zeta([300, 300, 300]),
        'sawtooth': zeta([0, 600, 300, 900, 600, 1200, 900, 1500]),
    }
    rng = np.random.default_rng(11)
    for i in range(12):
        epochs = (300 * rng.integers(0, 12, size=int(rng.integers(2, 14))))
        loose['random_{}'.format(i)] = zeta(epochs.tolist())
    for name, zeta_rows in loose.items():
        for grid_name, time_grid in (
            ('grid300', list(range(0, 3601, 300))),
            ('grid_inner', list(range(450, 1651, 150))),
        ):
            results['loose/{}/{}'.format(name, grid_name)] = attempt(
                run, zeta_rows, time_grid, schema=LOOSE_SCHEMA
            )

    # Random gaps in sorted data, through the real schema
    for i in range(40):
        step = int(rng.choice([60, 300, 900]))
        n = int(rng.integers(3, 60))
        epochs = step * np.arange(n) + int(rng.integers(-5, 5)) * step
        keep = rng.uniform(size=n) > rng.choice([0.0, 0.1, 0.3, 0.6])
        keep[[0, -1]] = True
        epochs = epochs[keep]
        grid_step = int(rng.choice([step, 2 * step, step // 2, step // 3]))
        first = int(epochs[0] + rng.integers(-3, 6) * grid_step)
        last = int(epochs[-1] + rng.integers(-6, 3) * grid_step)
        time_grid = list(range(first, max(last, first) + 1, grid_step))
        results['random/{}'.format(i)] = attempt(
            run, zeta(epochs.tolist()), time_grid
        )
        results['random_array/{}'.format(i)] = attempt(
            run, zeta(epochs.tolist()), np.array(time_grid)
        )

    # Whole load step on synthetic files with gaps in the water level
    def synthetic_load(dropped_hours, tz_name='Africa/Lagos'):
        import datetime

        start = datetime.datetime(2020, 3, 1, 0, 0, 0)
        stamps = [
            (start + datetime.timedelta(hours=k)).strftime('%Y-%m-%d %H:%M:%S')
            for k in range(72)
        ]
        precip = 'Datetime,P\n' + ''.join(
            '{},{}\n'.format(stamp, (k % 7) * 0.5)
            for k, stamp in enumerate(stamps)
        )
        et = 'Datetime,ET\n' + ''.join(
            '{},{}\n'.format(stamp, 0.1 + (k % 5) * 0.01)
            for k, stamp in enumerate(stamps)
        )
        level = 'Datetime,WL\n' + ''.join(
            '{},{}\n'.format(stamp, -100.0 + 0.3 * k)
            for k, stamp in enumerate(stamps)
            if 4 <= k <= 64 and k not in dropped_hours
        )
        connection = sqlite3.connect(':memory:')
        try:
            load_mod.load_data(
                connection,
                io.StringIO(precip),
                io.StringIO(et),
                io.StringIO(level),
                tz_name,
            )
            outcome = 'loaded'
        except Exception as exc:  # pylint: disable=broad-except
            outcome = ('raised', type(exc).__name__, str(exc))
        contents = dump_database(connection)
        connection.close()
        return (outcome, contents)

    for name, dropped in {
        'none': (),
        'one_gap': (10, 11, 12),
        'two_gaps': (10, 11, 12, 40),
        'isolated': (10, 11, 13, 14),
        'at_ends': (4, 5, 63, 64),
        'second_and_second_last': (5, 63),
    }.items():
        results['load/' + name] = attempt(synthetic_load, set(dropped))

    # The sample data, through the callers (repeated calls in one process)
    results.update(sample_data_results())
    with open(out_path, 'wb') as stream:
        pickle.dump(results, stream)


def dump_database(connection):
    """Every table and view, rows in natural order, floats exact"""
    cursor = connection.cursor()
    names = [
        name
        for name, in cursor.execute(
            "SELECT name FROM sqlite_master "
            "WHERE type IN ('table', 'view') ORDER BY name"
        ).fetchall()
    ]
    return [
        (name, cursor.execute('SELECT * FROM "{}"'.format(name)).fetchall())
        for name in names
    ]


def sample_path(kind, sample):
    return os.path.join(
        os.environ['PYTHONPATH'],
        'spowtd',
        'test',
        'sample_data',
        '{}_{}.txt'.format(kind, sample),
    )


def load_sample(connection, sample, time_zone_name='Africa/Lagos'):
    """Load one of the sample data sets, as the test fixtures do"""
    import spowtd.load as load_mod

    files = [
        open(sample_path(kind, sample), 'rt', encoding='utf-8-sig')
        for kind in ('precipitation', 'evapotranspiration', 'water_level')
    ]
    try:
        load_mod.load_data(connection, *files, time_zone_name=time_zone_name)
    finally:
        for stream in files:
            stream.close()


def sample_data_results():
    """Run the CLI steps load .. rise on both sample data sets"""
    import sqlite3
    import spowtd.classify as classify_mod
    import spowtd.recession as recession_mod
    import spowtd.rise as rise_mod
    import spowtd.zeta_grid as zeta_grid_mod

    results = {}
    for sample in (1, 2):
        connection = sqlite3.connect(':memory:')
        load_sample(connection, sample)
        results['sample_{}/loaded'.format(sample)] = (
            'ok',
            canon(dump_database(connection)),
            [],
        )
        classify_mod.classify_intervals(
            connection,
            storm_rain_threshold_mm_h=8.0,
            rising_jump_threshold_mm_h=5.0,
        )
        zeta_grid_mod.populate_zeta_grid(connection, grid_interval_mm=1.0)
        recession_mod.find_recession_offsets(connection)
        rise_mod.find_rise_offsets(connection)
        results['sample_{}/dump'.format(sample)] = (
            'ok',
            canon(dump_database(connection)),
            [],
        )
        connection.close()
    return results


if __name__ == '__main__':
    if len(sys.argv) == 3 and sys.argv[1] == '--worker':
        # import the package from PYTHONPATH, not from the script's directory
        sys.path[:] = [
            entry
            for entry in sys.path
            if os.path.abspath(entry or os.curdir) != ROOT
        ]
        worker(sys.argv[2])
    else:
        main()
