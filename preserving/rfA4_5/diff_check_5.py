"""Differential check for refactor5.diff (find_stable_matching moves to the new
module spowtd/stable_matching.py; the two closures inside
disambiguate_matching become the top-level functions rank_jumps_by_duration
and score_storms_by_offset of that module; classify imports all three).

Shared scenario set, pristine package against patched copy.  Relevant here:
disambiguate_matching on 400 random many-to-many relations between storms and
jumps (ties in duration and in offset, repeated pairs, int and np.int64
starts), on empty, unequal-length and malformed input; find_stable_matching
(reached as spowtd.classify.find_stable_matching in both trees) on 400 random
preference structures with storms without candidates, ties, and a missing
preference (KeyError) -- the mutated argument dicts are compared as well as
the returned dict, including key order; match_storms on 900 random series and
the whole classification on both samples.
"""
import dc_common

orig, new = dc_common.main(5)
n_multi = sum(
    1
    for key, value in orig.items()
    if key.startswith("disambiguate/") and value[0] == "ok" and len(value[1][1][0][1]) > 1
)
assert n_multi > 100, n_multi
print("disambiguations with more than one match:", n_multi)
