"""Shared driver for the differential checks diff_check_K.py

main(K, worker) materialises two copies of the package in a temporary
directory (HEAD, and HEAD + refactorK.diff), runs `worker()` in a fresh
interpreter against each copy, and asserts that the two canonicalised
result lists are exactly equal (floats and arrays compared bit for
bit, exceptions by type and message).

"""

import os
import pickle
import re
import struct
import subprocess
import sys
import tempfile
import warnings

HERE = os.path.dirname(os.path.abspath(__file__))


def canon(value):
    """Canonical, exactly comparable form of a result"""
    import numpy as np

    if isinstance(value, BaseException):
        return ('EXC', type(value).__name__, str(value))
    if isinstance(value, np.ndarray):
        if value.dtype == object:
            return (
                'ndarray-object',
                value.shape,
                [canon(v) for v in value.ravel().tolist()],
            )
        return (
            'ndarray',
            type(value).__name__,
            str(value.dtype),
            value.shape,
            np.ascontiguousarray(value).tobytes(),
        )
    if isinstance(value, np.generic):
        return ('npscalar', str(value.dtype), value.tobytes())
    if isinstance(value, bool) or value is None:
        return ('py', repr(value))
    if isinstance(value, float):
        return ('float', struct.pack('<d', value))
    if isinstance(value, int):
        return ('int', value)
    if isinstance(value, str):
        return ('str', value)
    if isinstance(value, bytes):
        return ('bytes', value)
    if isinstance(value, (list, tuple)):
        return (type(value).__name__, [canon(v) for v in value])
    if isinstance(value, dict):
        return ('dict', [(canon(k), canon(v)) for k, v in value.items()])
    return (
        'other',
        type(value).__name__,
        re.sub(r' at 0x[0-9a-f]+', '', repr(value)),
    )


class Recorder:
    """Collects labelled results, exceptions and warnings"""

    def __init__(self, record_warnings=True):
        self.items = []
        # With record_warnings=False warnings go to stderr under the
        # interpreter's default filters; main() then compares the set
        # of distinct warning messages printed by the two runs.
        self.record_warnings = record_warnings

    def call(self, label, func, *args, **kwargs):
        """Record func(*args) or the exception it raises, plus warnings"""
        if not self.record_warnings:
            try:
                result = func(*args, **kwargs)
            except Exception as exc:  # pylint: disable=broad-except
                result = exc
            self.items.append((label, canon(result)))
            return result
        with warnings.catch_warnings(record=True) as caught:
            warnings.simplefilter('always')
            try:
                result = func(*args, **kwargs)
            except Exception as exc:  # pylint: disable=broad-except
                result = exc
        self.items.append((label, canon(result)))
        self.items.append(
            (
                label + ' [warning categories]',
                sorted({w.category.__name__ for w in caught}),
            )
        )
        return result

    def add(self, label, value):
        self.items.append((label, canon(value)))


def sample_connection(sample, rise=True, recession=True):
    """In-memory database with sample data loaded, classified, fitted"""
    import sqlite3
    import spowtd.classify as classify_mod
    import spowtd.load as load_mod
    import spowtd.recession as recession_mod
    import spowtd.rise as rise_mod
    import spowtd.zeta_grid as zeta_grid_mod
    import spowtd.test.conftest as conftest

    connection = sqlite3.connect(':memory:')
    with open(
        conftest.get_sample_file_path('precipitation', sample),
        'rt',
        encoding='utf-8-sig',
    ) as precip_f, open(
        conftest.get_sample_file_path('evapotranspiration', sample),
        'rt',
        encoding='utf-8-sig',
    ) as et_f, open(
        conftest.get_sample_file_path('water_level', sample),
        'rt',
        encoding='utf-8-sig',
    ) as zeta_f:
        load_mod.load_data(
            connection=connection,
            precipitation_data_file=precip_f,
            evapotranspiration_data_file=et_f,
            water_level_data_file=zeta_f,
            time_zone_name='Africa/Lagos',
        )
    classify_mod.classify_intervals(
        connection,
        storm_rain_threshold_mm_h=8.0,
        rising_jump_threshold_mm_h=5.0,
    )
    zeta_grid_mod.populate_zeta_grid(connection, grid_interval_mm=1.0)
    if rise:
        rise_mod.find_rise_offsets(connection)
    if recession:
        recession_mod.find_recession_offsets(connection)
    return connection


def dump_database(connection):
    """Full logical dump of a database (to show it was not modified)"""
    return '\n'.join(connection.iterdump())


def _build_trees(tmp, k):
    roots = {}
    archive = subprocess.run(
        ['git', '-C', HERE, 'archive', 'HEAD', 'spowtd'],
        check=True,
        stdout=subprocess.PIPE,
    ).stdout
    for name in ('orig', 'new'):
        root = os.path.join(tmp, name)
        os.makedirs(root)
        subprocess.run(['tar', '-x', '-C', root], input=archive, check=True)
        roots[name] = root
    subprocess.run(
        [
            'patch',
            '-p1',
            '-s',
            '-d',
            roots['new'],
            '-i',
            os.path.join(HERE, 'refactor{}.diff'.format(k)),
        ],
        check=True,
    )
    return roots


def main(k, worker, script, record_warnings=True):
    """Entry point for diff_check_K.py"""
    if len(sys.argv) == 4 and sys.argv[1] == '--worker':
        root, out_path = sys.argv[2:]
        sys.path.insert(0, root)
        import spowtd

        assert os.path.dirname(os.path.dirname(spowtd.__file__)) == root, (
            spowtd.__file__,
            root,
        )
        recorder = Recorder(record_warnings=record_warnings)
        worker(recorder)
        with open(out_path, 'wb') as out:
            pickle.dump(recorder.items, out)
        return
    with tempfile.TemporaryDirectory(
        prefix='_dc{}_'.format(k), dir=HERE
    ) as tmp:
        roots = _build_trees(tmp, k)
        results = {}
        stderr = {}
        for name, root in roots.items():
            out_path = os.path.join(tmp, name + '.pkl')
            env = dict(os.environ)
            env['PYTHONPATH'] = root
            env['PYTHONDONTWRITEBYTECODE'] = '1'
            env.pop('PYTHONWARNINGS', None)
            completed = subprocess.run(
                [sys.executable, script, '--worker', root, out_path],
                check=False,
                env=env,
                cwd=tmp,
                stderr=subprocess.PIPE,
                encoding='utf-8',
            )
            if completed.returncode != 0:
                sys.stderr.write(completed.stderr)
                raise SystemExit('worker failed on ' + name)
            stderr[name] = sorted(
                set(re.findall(r'\b\w+Warning: .*', completed.stderr))
            )
            with open(out_path, 'rb') as inp:
                results[name] = pickle.load(inp)
    orig, new = results['orig'], results['new']
    assert [label for label, _ in orig] == [label for label, _ in new]
    n_bad = 0
    for (label, a), (_, b) in zip(orig, new):
        if a != b:
            n_bad += 1
            print('MISMATCH', label, repr(a)[:300], repr(b)[:300])
    assert n_bad == 0, '{} mismatches'.format(n_bad)
    assert stderr['orig'] == stderr['new'], stderr
    n_exc = sum(
        1 for _, a in orig if isinstance(a, tuple) and a and a[0] == 'EXC'
    )
    print(
        'diff_check_{}: OK, {} recorded items identical '
        '({} of them exceptions); {} distinct warnings on stderr, '
        'identical'.format(k, len(orig), n_exc, len(stderr['orig']))
    )

