"""Differential check for refactor3.diff (SplineTransmissivity)

Knot extremes cached in __init__, array path filling a preallocated
float array.  Compares construction (incl. bad knots), scalar and array
calls on every kind of container and element dtype, every kind of
minimum transmissivity value, conductivity(), and the CLI paths
(simulate recession, dump transmissivity) on the sample data.

"""

import os
import sys

sys.path.insert(0, os.path.dirname(os.path.abspath(__file__)))
import dc_common  # noqa: E402


def worker(rec):
    import decimal
    import fractions
    import io
    import numpy as np
    import yaml
    import spowtd.transmissivity as t_mod
    import spowtd.plot_transmissivity as plot_t_mod
    import spowtd.set_curvature as set_curvature_mod
    import spowtd.simulate_recession as simulate_recession_mod
    import spowtd.test.conftest as conftest

    with open(conftest.get_parameter_file_path('spline'), 'rt') as f:
        sample_pars = yaml.safe_load(f)['transmissivity']

    def make(**overrides):
        pars = dict(sample_pars)
        pars.update(overrides)
        return t_mod.create_transmissivity_function(pars)

    def describe(transmissivity):
        return [
            type(transmissivity).__name__,
            transmissivity.zeta_knots_mm,
            transmissivity.K_knots_km_d,
            transmissivity.minimum_transmissivity_m2_d,
        ]

    def typed(func, *args):
        result = func(*args)
        return [type(result).__name__, result]

    knots = sample_pars['zeta_knots_mm']  # -291.7, -5.167, 168.3, 1000
    levels = [
        ('float array', np.array([-500.0, -291.7, -291.6, -100.0, -5.167,
                                  0.0, 168.3, 500.0, 999.999])),
        ('float array all below', np.array([-500.0, -291.7, -1e9])),
        ('float array incl. max knot', np.array([-400.0, 0.0, 1000.0])),
        ('float array above max knot', np.array([-400.0, 1000.5, 0.0])),
        ('float array nan', np.array([-400.0, np.nan, 0.0])),
        ('float array inf', np.array([-np.inf, 0.0, np.inf])),
        ('float array empty', np.array([], dtype=float)),
        ('float array strided', np.linspace(-400.0, 900.0, 27)[::-2]),
        ('float array 2d column', np.array([[-400.0], [0.0], [10.0]])),
        ('float array 2d row', np.array([[-400.0, 0.0, 10.0]])),
        ('float array 2d', np.array([[-400.0, 0.0], [10.0, 20.0]])),
        ('float 0-d', np.array(12.5)),
        ('float32 array', np.array([-400, -291.7, 0.5, 10], dtype=np.float32)),
        ('int64 array', np.arange(-400, 1000, 100)),
        ('int64 array all below', np.array([-400, -292])),
        ('int64 empty', np.array([], dtype=np.int64)),
        ('int16 array', np.arange(-400, 1000, 175, dtype=np.int16)),
        ('uint8 array', np.array([0, 5, 255], dtype=np.uint8)),
        ('bool array', np.array([False, True])),
        ('object array', np.array([-400, 0.5, fractions.Fraction(7, 2)],
                                  dtype=object)),
        ('object array none', np.array([-400, None], dtype=object)),
        ('str array', np.array(['1.0', '2.0'])),
        ('masked array', np.ma.masked_array([-400.0, 0.0, 10.0],
                                            mask=[False, True, False])),
        ('matrix', np.matrix([[-400.0, 0.0, 10.0]])),
        ('list floats', [-400.0, -291.7, 0.0, 10.0, 999.0]),
        ('list ints', [-400, -292, -291, 0, 10, 999]),
        ('list mixed', [-400, 0.5, True, np.float32(3.5), np.int8(4)]),
        ('list empty', []),
        ('list with none', [-400.0, None, 1.0]),
        ('list with str', [0.0, 'a']),
        ('list with nan', [0.0, float('nan'), 1.0]),
        ('list above max first', [2000.0, 'a']),
        ('list with array', [np.array([1.0]), 2.0]),
        ('list nested', [[-400.0], [1.0]]),
        ('list nested ragged', [[-400.0, 2.0], [1.0]]),
        ('tuple', (-400.0, 0, 10.5)),
        ('tuple empty', ()),
        ('range', range(-400, 400, 150)),
        ('generator', None),
        ('set', {10.0}),
        ('dict', {10.0: 1}),
        ('iterator', None),
        ('py float', 10.5),
        ('py float below', -1000.0),
        ('py float at min', -291.7),
        ('py float at max', 1000.0),
        ('py float above max', 1000.1),
        ('py float nan', float('nan')),
        ('py int', 10),
        ('py int below', -400),
        ('py bool', True),
        ('py str', 'abc'),
        ('py none', None),
        ('py complex', 1 + 0j),
        ('np.float64', np.float64(10.5)),
        ('np.float32', np.float32(10.5)),
        ('np.int64', np.int64(-10)),
        ('fraction', fractions.Fraction(21, 2)),
        ('decimal', decimal.Decimal('10.5')),
    ]

    def get_levels(name, value):
        if name == 'generator':
            return (v for v in [-400.0, 0.0, 10.0])
        if name == 'iterator':
            return iter([-400.0, 0.0, 10.0])
        return value

    minimum_values = [
        ('sample', sample_pars['minimum_transmissivity_m2_d']),
        ('float 0', 0.0),
        ('int', 7),
        ('bool', True),
        ('np.float64', np.float64(7.442)),
        ('np.float32', np.float32(7.442)),
        ('np.int64', np.int64(7)),
        ('nan', float('nan')),
        ('huge int', 10 ** 400),
        ('none', None),
        ('num str', '1.0'),
        ('bad str', 'abc'),
        ('complex', 7.442 + 0j),
        ('fraction', fractions.Fraction(7, 2)),
        ('decimal', decimal.Decimal('7.442')),
        ('array1', np.array([7.442])),
        ('array0d', np.array(7.442)),
        ('list', [7.442]),
    ]
    for mname, minimum in minimum_values:
        transmissivity = rec.call(
            'construct min={}'.format(mname),
            make,
            minimum_transmissivity_m2_d=minimum,
        )
        rec.call('  describe', describe, transmissivity)
        for lname, value in levels:
            if mname not in ('sample', 'int') and lname.startswith('py '):
                continue
            for repeat in range(2 if mname == 'sample' else 1):
                rec.call(
                    'min={} T({}) #{}'.format(mname, lname, repeat),
                    typed,
                    transmissivity,
                    get_levels(lname, value),
                )
                rec.call(
                    'min={} call_scalar({}) #{}'.format(mname, lname, repeat),
                    typed,
                    transmissivity.call_scalar,
                    get_levels(lname, value),
                )
        for level in (-300.0, -291.7, -291, 0.0, 999.9999, 1000.0, 1e9,
                      float('nan'), np.array([1.0, 2.0]), 'a', None):
            rec.call(
                'min={} conductivity({!r})'.format(mname, level),
                typed,
                transmissivity.conductivity,
                level,
            )

    # Construction: knot containers, dtypes and bad knots
    constructions = [
        ('lists', knots, sample_pars['K_knots_km_d']),
        ('tuples', tuple(knots), tuple(sample_pars['K_knots_km_d'])),
        ('arrays', np.array(knots), np.array(sample_pars['K_knots_km_d'])),
        ('int knots', [-300, -5, 168, 1000], [1, 2, 3, 4]),
        ('int arrays', np.array([-300, -5, 168, 1000]), np.array([1, 2, 3, 4])),
        ('two knots', [0.0, 10.0], [1.0, 1.0]),
        ('one knot', [0.0], [1.0]),
        ('no knots', [], []),
        ('no knots arrays', np.array([]), np.array([])),
        ('decreasing', [10.0, 0.0, -5.0], [1.0, 2.0, 3.0]),
        ('repeated', [0.0, 0.0, 5.0], [1.0, 2.0, 3.0]),
        ('unsorted', [0.0, 10.0, 5.0], [1.0, 2.0, 3.0]),
        ('nan knot', [0.0, float('nan'), 5.0], [1.0, 2.0, 3.0]),
        ('inf knot', [0.0, 5.0, float('inf')], [1.0, 2.0, 3.0]),
        ('zero K', [0.0, 5.0, 9.0], [1.0, 0.0, 3.0]),
        ('negative K', [0.0, 5.0, 9.0], [1.0, -2.0, 3.0]),
        ('more zeta than K', [0.0, 5.0, 9.0], [1.0, 2.0]),
        ('more K than zeta', [0.0, 5.0], [1.0, 2.0, 3.0]),
        ('2d knots', [[0.0, 1.0], [2.0, 3.0]], [1.0, 2.0]),
        ('str knots', ['a', 'b'], [1.0, 2.0]),
        ('numeric str knots', ['0.0', '5.0'], [1.0, 2.0]),
        ('none knots', None, [1.0, 2.0]),
        ('scalar knots', 1.0, 2.0),
        ('generator knots', None, [1.0, 2.0, 3.0]),
    ]
    probe = np.array([-1e3, -2.5, 0.0, 1.0, 4.999, 7.5])
    for cname, zeta_knots, K_knots in constructions:
        if cname == 'generator knots':
            zeta_knots = (v for v in [0.0, 5.0, 9.0])
        transmissivity = rec.call(
            'construct {}'.format(cname),
            t_mod.SplineTransmissivity,
            zeta_knots,
            K_knots,
            1.5,
        )
        if isinstance(transmissivity, Exception):
            continue
        rec.call('  describe', describe, transmissivity)
        rec.call('  T(probe)', typed, transmissivity, probe)
        rec.call('  T(list(probe))', typed, transmissivity, probe.tolist())
        rec.call('  T(1)', typed, transmissivity, 1)
    rec.call(
        'missing type', t_mod.create_transmissivity_function, {'a': 1}
    )
    rec.call(
        'peatclsm',
        lambda: t_mod.create_transmissivity_function(
            {'type': 'peatclsm', 'Ksmacz0': 7.3, 'alpha': 3,
             'zeta_max_cm': 1.0}
        )(np.array([-100.0, 0.0, 5.0])),
    )

    # CLI paths on the sample data
    for kind in ('spline', 'peatclsm'):
        outfile = io.StringIO()
        with open(conftest.get_parameter_file_path(kind), 'rt') as pfile:
            rec.call(
                'dump_transmissivity {}'.format(kind),
                plot_t_mod.dump_transmissivity,
                pfile,
                -40.0,
                0.5,
                23,
                outfile,
            )
        rec.add('  output', outfile.getvalue())
    for sample_no in (1, 2):
        connection = dc_common.sample_connection(sample_no, rise=False)
        set_curvature_mod.set_curvature(connection, curvature_m_km2=2.36)
        for observations_only in (False, True):
            outfile = io.StringIO()
            with open(
                conftest.get_parameter_file_path('spline'), 'rt'
            ) as pfile:
                rec.call(
                    'simulate recession sample {} obs={}'.format(
                        sample_no, observations_only
                    ),
                    simulate_recession_mod.dump_simulated_recession,
                    connection=connection,
                    parameter_file=pfile,
                    outfile=outfile,
                    observations_only=observations_only,
                )
            rec.add('  output', outfile.getvalue())
        connection.close()


if __name__ == '__main__':
    dc_common.main(3, worker, os.path.abspath(__file__))
