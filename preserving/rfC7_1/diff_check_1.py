"""Differential check for refactor1.diff (round 7)

rise.compute_rise_offsets: the storm / zeta_interval_storm / zeta_interval
row query (now a CTE + comma join) and the total-depth lookup (view
storm_total_rain_depth inlined, positional parameter).

Runs rise.find_rise_offsets with the original package and with the patched
package (two extracted copies, separate processes) on the sample data (library
and CLI), on synthetic classified databases and on databases that make the
touched statements fail or return nothing; compares the series handed to
get_series_time_offsets (the rows and total depths read by the two statements,
bit for bit), the exception, the transaction state and a dump of every table
and view.

Run: cd /tmp/rf_C && PYTHONPATH=/tmp/rf_C /venv/bin/python diff_check_1.py
"""

import sys

import _dc_common as common


def scenarios():
    return common.step_scenarios(
        'rise', 'find_rise_offsets', 'rising_interval_zeta', 'rising_interval'
    )


if __name__ == '__main__':
    if '--worker' in sys.argv:
        common.worker_main(scenarios)
    else:
        common.drive(__file__, 1)
