"""Differential check for refactor5.diff

regrid.regrid and fit_offsets.build_head_mapping
"""

import warnings

import numpy as np

import dc_harness as H
from diff_check_4 import pipeline, synthetic_recessions, _series_case


def _regrid_case(x, y, y_step, take=None, **kwargs):
    import spowtd.regrid as regrid_mod

    def call():
        produced = []
        with warnings.catch_warnings(record=True) as caught:
            warnings.simplefilter('always')
            try:
                generator = regrid_mod.regrid(x, y, y_step, **kwargs)
                for i, pair in enumerate(generator):
                    produced.append(pair)
                    if take is not None and i + 1 >= take:
                        break
            except BaseException as exc:  # pylint: disable=broad-except
                produced.append(('raised', type(exc).__name__, str(exc)))
        produced.append(
            ('warnings', [(w.category.__name__, str(w.message)) for w in caught])
        )
        return produced

    return H.capture(call)


def _mapping_case(series, *args):
    import spowtd.fit_offsets as fit_offsets_mod

    return H.capture(fit_offsets_mod.build_head_mapping, series, *args)


def scenarios():
    import spowtd.fit_offsets as fit_offsets_mod
    import spowtd.regrid as regrid_mod

    H.assert_tree(fit_offsets_mod)
    H.assert_tree(regrid_mod)
    out = {}
    for sample in (1, 2):
        out['pipeline sample {}'.format(sample)] = pipeline(sample)

    x5 = list(range(5))
    y5 = np.array([2.0, 5.2, -1.3, -1.2, 10.0])
    for kind in ('linear', 'nearest', 'zero', 'slinear', 'quadratic', 'cubic'):
        out['module example ' + kind] = _regrid_case(
            x5, y5, 1.0, interpolant=kind
        )
    out['default interpolant'] = _regrid_case(x5, y5, 1.0)
    out['x as ndarray'] = _regrid_case(np.arange(5.0), y5, 1.0)
    out['x as tuple'] = _regrid_case(tuple(x5), y5, 1.0)
    out['step 0.5'] = _regrid_case(x5, y5, 0.5)
    out['step 2.5'] = _regrid_case(x5, y5, 2.5)
    out['negative step'] = _regrid_case(x5, y5, -1.0)
    out['integer step'] = _regrid_case(x5, y5, 2)
    out['increasing'] = _regrid_case(
        np.arange(6.0), np.array([-3.5, -1.25, 0.0, 0.75, 4.0, 4.5]), 1.0
    )
    out['decreasing'] = _regrid_case(
        np.arange(6.0) * 1800 + 1.3e9,
        np.array([4.5, 4.0, 0.75, 0.0, -1.25, -3.5]),
        1.0,
    )
    out['integer knots'] = _regrid_case(
        np.arange(6.0), np.array([0.0, 1.0, 3.0, 3.0, 1.0, -2.0]), 1.0
    )
    out['flat'] = _regrid_case(np.arange(4.0), np.array([1.5, 1.5, 1.5, 1.5]), 1.0)
    out['flat on integer'] = _regrid_case(
        np.arange(4.0), np.array([2.0, 2.0, 2.0, 2.0]), 1.0
    )
    out['integer dtype y'] = _regrid_case(
        np.arange(4.0), np.array([1, 4, 2, 7]), 1.0
    )
    out['integer dtype y, step 3'] = _regrid_case(
        np.arange(4.0), np.array([1, 4, 2, 7]), 3
    )
    out['float32 y'] = _regrid_case(
        np.arange(4.0), np.array([1.5, 4.25, 2.0, 7.75], dtype='float32'), 1.0
    )
    out['two points'] = _regrid_case([0.0, 10.0], np.array([-2.5, 3.5]), 1.0)
    out['two points descending'] = _regrid_case(
        [0.0, 10.0], np.array([3.5, -2.5]), 1.0
    )
    out['one point'] = _regrid_case([0.0], np.array([1.5]), 1.0)
    out['empty'] = _regrid_case([], np.array([]), 1.0)
    out['empty lists'] = _regrid_case([], [], 1.0)
    out['length mismatch'] = _regrid_case([0, 1, 2], np.array([1.0, 2.0]), 1.0)
    out['length mismatch, empty x'] = _regrid_case([], np.array([1.0]), 1.0)
    out['nan in y'] = _regrid_case(
        [0, 1, 2], np.array([1.0, np.nan, 3.0]), 1.0
    )
    out['inf in y'] = _regrid_case(
        [0, 1, 2], np.array([1.0, np.inf, 3.0]), 1.0
    )
    out['y as list'] = _regrid_case([0, 1, 2], [1.0, 2.5, 3.0], 1.0)
    out['zero step'] = _regrid_case([0, 1, 2], np.array([1.0, 2.5, 3.0]), 0.0)
    out['zero step mixed sign'] = _regrid_case(
        [0, 1, 2], np.array([-1.0, 2.5, 0.0]), 0.0
    )
    out['unsorted x'] = _regrid_case(
        [0.0, 2.0, 1.0, 3.0], np.array([0.5, 3.5, 1.5, -2.5]), 1.0
    )
    out['duplicate x'] = _regrid_case(
        [0.0, 1.0, 1.0, 2.0], np.array([0.5, 3.5, 1.5, -2.5]), 1.0
    )
    out['bad interpolant'] = _regrid_case(x5, y5, 1.0, interpolant='bogus')
    out['cubic too few points'] = _regrid_case(
        [0.0, 1.0], np.array([0.5, 3.5]), 1.0, interpolant='cubic'
    )
    out['partial consumption'] = _regrid_case(x5, y5, 1.0, take=3)
    out['2-d y'] = _regrid_case(
        [0, 1], np.array([[1.0, 2.5], [3.0, 0.5]]), 1.0
    )
    rng = np.random.RandomState(5)
    for trial in range(12):
        n = int(rng.randint(2, 40))
        x = np.cumsum(rng.uniform(0.1, 5.0, n)) + rng.uniform(-1e3, 1e9)
        y = np.cumsum(rng.normal(0, 2.0, n)) + rng.uniform(-400, 50)
        if trial % 3 == 0:
            y = np.round(y)  # many knots exactly on targets
        step = float(rng.choice([0.25, 1.0, 1.0, 3.0]))
        kind = ['linear', 'linear', 'slinear', 'nearest'][trial % 4]
        out['random regrid {}'.format(trial)] = _regrid_case(
            x, y, step, interpolant=kind
        )

    # build_head_mapping
    out['mapping empty'] = _mapping_case([])
    out['mapping default step'] = _mapping_case(
        [(np.arange(5.0), y5), (np.arange(3.0), np.array([0.5, 3.5, -4.0]))]
    )
    out['mapping step 0.5'] = _mapping_case(
        [(np.arange(5.0), y5), (np.arange(3.0), np.array([0.5, 3.5, -4.0]))],
        0.5,
    )
    out['mapping repeated crossings'] = _mapping_case(
        [
            (np.arange(7.0), np.array([0.5, 2.5, 0.5, 2.5, 0.5, 2.5, -1.5])),
            (np.arange(2.0) + 0.1, np.array([3.2, -0.7])),
            (np.arange(0.0), np.arange(0.0)),
            (np.arange(3.0), np.array([1.2, 1.4, 1.6])),
        ],
        1.0,
    )
    out['mapping bad series'] = _mapping_case(
        [(np.arange(3.0), np.array([1.0, 2.0]))], 1.0
    )
    out['mapping nan'] = _mapping_case(
        [(np.arange(3.0), np.array([0.5, 1.5, 2.5])),
         (np.arange(2.0), np.array([1.0, np.nan]))],
        1.0,
    )
    out['mapping triple'] = _mapping_case(
        [(np.arange(3.0), np.array([0.5, 1.5, 2.5]), 1)], 1.0
    )
    rng = np.random.RandomState(55)
    for trial, (n_series, noise, step) in enumerate(
        [(2, 0.0, 1.0), (5, 0.3, 1.0), (9, 1.5, 0.5), (4, 3.0, 2.0)]
    ):
        series = synthetic_recessions(rng, n_series, noise)
        out['mapping random {}'.format(trial)] = _mapping_case(series, step)
        out['offsets random {}'.format(trial)] = _series_case(series, step)
    return out


if __name__ == '__main__':
    H.main(5, scenarios)
