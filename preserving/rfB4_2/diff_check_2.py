"""Differential check for refactor2.diff (load.stage_csv, spowtd.timestamps)"""

import sqlite3

import diffcheck_harness as H


class ShiftingZone:
    """Stand-in for a pytz zone whose localize() adds a fixed timedelta"""

    def __init__(self, microseconds=0, naive=False):
        self.microseconds = microseconds
        self.naive = naive

    def localize(self, naive_datetime):
        import datetime

        shifted = naive_datetime + datetime.timedelta(
            microseconds=self.microseconds
        )
        if self.naive:
            return shifted
        return shifted.replace(tzinfo=datetime.timezone.utc)


def timestamped(rows, tz):
    """Exhaust load.generate_timestamped_rows, keeping rows before an error"""
    import pytz
    import spowtd.load as load_mod

    if isinstance(tz, str):
        tz = pytz.timezone(tz)
    out = []

    def run():
        for row in load_mod.generate_timestamped_rows(rows, tz):
            out.append(row)
        return out

    outcome = H.capture(run)
    return (outcome, H.norm(out))


def load_twice():
    precip, et, zeta = H.synthetic_series(seed=3, n=30)
    connection = sqlite3.connect(':memory:')
    texts = [
        H.csv_text(header, rows)
        for header, rows in zip(H.HEADERS, (precip, et, zeta))
    ]
    first = H.load_texts(*texts, connection=connection)
    second = H.load_texts(*texts, connection=connection)
    return (first, second)


def scenarios():
    yield 'sample 1', lambda: H.load_sample(1)
    yield 'sample 2', lambda: H.load_sample(2)
    yield 'sample 1 other zone', lambda: H.load_sample(1, tz='America/Lima')
    precip, et, zeta = H.synthetic_series(seed=2)
    yield 'synthetic', lambda: H.load_rows(precip, et, zeta, tz='Asia/Jakarta')
    yield 'load twice', load_twice
    yield 'bad zone name', lambda: H.load_rows(precip, et, zeta, tz='Nowhere/X')
    # Header problems, in each of the three files
    for position, name in enumerate(('precip', 'et', 'zeta')):
        headers = [list(h) for h in H.HEADERS]
        headers[position] = ['time', 'value']
        yield name + ' bad header', lambda headers=headers: H.load_rows(
            precip, et, zeta, headers=headers
        )
        texts = [
            H.csv_text(header, rows)
            for header, rows in zip(H.HEADERS, (precip, et, zeta))
        ]
        empty = list(texts)
        empty[position] = ''
        yield name + ' empty file', lambda empty=empty: H.load_texts(*empty)
        blank = list(texts)
        blank[position] = '\n' + texts[position]
        yield name + ' blank first line', lambda blank=blank: H.load_texts(
            *blank
        )
        bad_row = list(texts)
        lines = texts[position].splitlines()
        lines[7] = '2020-09-14 07:00:00.5,1.0'
        bad_row[position] = '\n'.join(lines) + '\n'
        yield name + ' fractional s', lambda bad_row=bad_row: H.load_texts(
            *bad_row
        )
        short = list(texts)
        lines = texts[position].splitlines()
        lines[9] = lines[9].split(',')[0]
        short[position] = '\n'.join(lines) + '\n'
        yield name + ' short row', lambda short=short: H.load_texts(*short)
        wide = list(texts)
        lines = texts[position].splitlines()
        lines[9] = lines[9] + ',extra'
        wide[position] = '\n'.join(lines) + '\n'
        yield name + ' wide row', lambda wide=wide: H.load_texts(*wide)
        dup = list(texts)
        lines = texts[position].splitlines()
        lines.insert(5, lines[4])
        dup[position] = '\n'.join(lines) + '\n'
        yield name + ' duplicate time', lambda dup=dup: H.load_texts(*dup)
    # The row generator by itself
    rows = [
        ['2021-03-28 01:30:00', '1.5', 'x'],
        ['2021-03-28 02:30:00', '2.5'],  # does not exist in Europe/Berlin
        ['2021-10-31 02:30:00'],  # ambiguous in Europe/Berlin
        ['1901-01-01 00:00:00', ''],
    ]
    for zone in ('Europe/Berlin', 'UTC', 'Asia/Kolkata', 'Europe/Amsterdam'):
        yield 'rows ' + zone, lambda zone=zone: timestamped(rows, zone)
    yield 'rows with empty row', lambda: timestamped(rows[:2] + [[]], 'UTC')
    yield 'rows with tuple', lambda: timestamped(
        rows[:1] + [('2021-01-01 00:00:00', '1')], 'UTC'
    )
    yield 'rows bad text', lambda: timestamped(
        rows[:1] + [['2021-01-01T00:00:00', '1']], 'UTC'
    )
    yield 'rows non-text', lambda: timestamped(rows[:1] + [[5, '1']], 'UTC')
    yield 'rows fractional epoch', lambda: timestamped(
        rows, ShiftingZone(microseconds=250000)
    )
    yield 'rows whole shift', lambda: timestamped(
        rows, ShiftingZone(microseconds=2000000)
    )
    yield 'rows naive zone', lambda: timestamped(rows, ShiftingZone(naive=True))
    yield 'rows not iterable', lambda: timestamped(None, 'UTC')

    def constant():
        import spowtd.load as load_mod

        return load_mod.ISO_8601_FORMAT

    yield 'format constant', lambda: H.capture(constant)


if __name__ == '__main__':
    H.main(__file__, 'refactor2.diff', scenarios)
