"""Differential check for refactor4.diff
(simulate_recession.compute_recession_curve: cell loop and mean shift)

Run as:  cd /tmp/rf_C && /venv/bin/python diff_check_4.py

"""

import io
import os
import sys
import warnings

sys.path.insert(0, os.path.dirname(os.path.abspath(__file__)))
import dc_common as dc  # noqa: E402


def parameter_text(tree, kind):
    path = os.path.join(
        tree,
        'spowtd',
        'test',
        'sample_data',
        '{}_parameters.yml'.format(kind),
    )
    with open(path, 'rt') as f:
        return f.read()


def scenarios(tree):
    import numpy as np
    import yaml

    import spowtd.recession as recession_mod
    import spowtd.set_curvature as set_curvature_mod
    import spowtd.simulate_recession as simulate_recession_mod
    import spowtd.specific_yield as specific_yield_mod
    import spowtd.transmissivity as transmissivity_mod

    warnings.simplefilter('ignore')
    results = {}

    functions = {}
    for kind in ('spline', 'peatclsm'):
        parameters = yaml.safe_load(parameter_text(tree, kind))
        specific_yield = specific_yield_mod.create_specific_yield_function(
            parameters['specific_yield']
        )
        transmissivity = transmissivity_mod.create_transmissivity_function(
            parameters['transmissivity']
        )
        functions[kind] = (specific_yield, transmissivity)
        if kind == 'peatclsm':
            # As in simulate_recession
            functions['peatclsm-per-day'] = (
                specific_yield,
                lambda zeta_mm, t=transmissivity: t(zeta_mm) * 24 * 3600,
            )

    random = np.random.RandomState(20260927)
    grids = {
        'test-suite': np.linspace(0, -400, 10),
        'increasing': np.linspace(-400, 0, 10),
        'fine': np.linspace(-291.7, 5.0, 300),
        'irregular': np.sort(random.uniform(-290, 8, 37)),
        'irregular-down': np.sort(random.uniform(-290, 8, 37))[::-1],
        'unsorted': random.uniform(-290, 8, 12),
        'repeated': np.array([-100.0, -100.0, -50.0, -50.0, -50.0, 0.0]),
        'strided': np.linspace(-300, 0, 40)[::3],
        'integers': np.arange(-200, 1, 25),
        'two': np.array([-20.0, -10.0]),
        'one': np.array([-20.0]),
        'empty': np.array([], dtype=float),
        'zero-dimensional': np.array(-20.0),
        'one-row-matrix': np.array([[-30.0, -20.0, -10.0]]),
        'two-row-matrix': np.array([[-30.0, -20.0], [-10.0, 0.0]]),
        'a-list': [-30.0, -20.0, -10.0],
        'with-nan': np.array([-30.0, np.nan, -10.0]),
        'with-inf': np.array([-30.0, -np.inf, -10.0]),
        'above-surface': np.linspace(-10, 160, 9),
    }
    means = {
        'test-suite': 19.0,
        'zero': 0.0,
        'negative-zero': -0.0,
        'negative': -3.25,
        'integer': 3,
        'np-float64': np.float64(7.125),
        'np-mean': np.mean(np.array([0.1, 0.2, 0.7, 11.0])),
        'huge': 1e300,
        'nan': float('nan'),
        'inf': float('inf'),
    }
    settings = {
        'test-suite': (2.36e-3, 4.15),
        'no-curvature': (0.0, 4.15),
        'no-et': (2.36e-3, 0.0),
        'neither': (0.0, 0.0),
        'integer-et': (1.0e-3, 4),
        'negative-et': (2.36e-3, -1.0),
        'negative-curvature': (-1e-3, 1.0),
    }

    def run(kind, grid_name, mean_name, setting_name):
        (specific_yield, transmissivity) = functions[kind]
        (curvature_km, et_mm_d) = settings[setting_name]
        grid = grids[grid_name]
        if isinstance(grid, np.ndarray):
            grid = grid.copy() if grid_name != 'strided' else grid
            before = dc.norm(grid)
        result = dc.outcome(
            simulate_recession_mod.compute_recession_curve,
            specific_yield=specific_yield,
            transmissivity_m2_d=transmissivity,
            zeta_grid_mm=grid,
            mean_elapsed_time_d=means[mean_name],
            curvature_km=curvature_km,
            et_mm_d=et_mm_d,
        )
        if isinstance(grid, np.ndarray):
            # The grid is not modified
            assert dc.norm(grid) == before
        results[
            'curve-{}-{}-{}-{}'.format(kind, grid_name, mean_name, setting_name)
        ] = result

    for kind in functions:
        for grid_name in grids:
            run(kind, grid_name, 'test-suite', 'test-suite')
            run(kind, grid_name, 'zero', 'test-suite')
        for mean_name in means:
            run(kind, 'test-suite', mean_name, 'test-suite')
            run(kind, 'irregular', mean_name, 'no-curvature')
            run(kind, 'one', mean_name, 'test-suite')
        for setting_name in settings:
            run(kind, 'test-suite', 'test-suite', setting_name)
            run(kind, 'fine', 'zero', setting_name)
            run(kind, 'above-surface', 'negative', setting_name)

    # A requested mean that is (nearly or exactly) the mean of the
    # unshifted curve, so that the shift is (nearly or exactly) zero:
    # with a requested mean of 0.0 the first element of the result is
    # minus the mean of the unshifted curve
    (specific_yield, transmissivity) = functions['spline']
    for grid_name in ('test-suite', 'irregular', 'two', 'one'):
        centered = simulate_recession_mod.compute_recession_curve(
            specific_yield, transmissivity, grids[grid_name], 0.0, 2e-3, 4.0
        )
        for factor in (1.0, -1.0):
            results[
                'same-mean-{}-{}'.format(grid_name, factor)
            ] = dc.outcome(
                simulate_recession_mod.compute_recession_curve,
                specific_yield,
                transmissivity,
                grids[grid_name],
                -factor * centered[0],
                2e-3,
                4.0,
            )

    # Through simulate_recession / dump_simulated_recession, on a
    # subset of the sample data
    for sample in (1, 2):
        for grid in (1.0, 2.5):
            connection = dc.gridded_subset(
                tree, sample, grid, keep=60, offset=40
            )
            recession_mod.find_recession_offsets(connection)
            for curvature in (None, 2.36, 0.0):
                if curvature is not None:
                    connection.execute('DELETE FROM curvature')
                    set_curvature_mod.set_curvature(connection, curvature)
                for kind in ('spline', 'peatclsm'):
                    key = 'sample{}-grid{}-curvature{}-{}'.format(
                        sample, grid, curvature, kind
                    )
                    results[key] = dc.outcome(
                        simulate_recession_mod.simulate_recession,
                        connection,
                        io.StringIO(parameter_text(tree, kind)),
                    )
                    for observations_only in (False, True):
                        outfile = io.StringIO()
                        result = dc.outcome(
                            simulate_recession_mod.dump_simulated_recession,
                            connection,
                            io.StringIO(parameter_text(tree, kind)),
                            outfile,
                            observations_only,
                        )
                        results[
                            '{}-dump-{}'.format(key, observations_only)
                        ] = (result, ('str', outfile.getvalue()))
            connection.close()
    return results


if __name__ == '__main__':
    if len(sys.argv) > 1 and sys.argv[1] == '--child':
        dc.child_main(scenarios)
    else:
        dc.run_driver(
            os.path.abspath(__file__),
            'refactor4.diff',
            'spowtd/simulate_recession.py',
        )
