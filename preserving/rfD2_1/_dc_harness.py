"""Shared harness for the differential checks diff_check_K.py

Each check defines worker() -> picklable result.  The harness exports the
unmodified package (git HEAD) into two scratch directories, applies
refactorK.diff to one of them, runs the worker once against each copy in a
fresh interpreter (PYTHONPATH pointing at that copy), and asserts that the two
results are exactly equal (floats and arrays compared bit for bit).
"""

import os
import pickle
import shutil
import struct
import subprocess
import sys
import tempfile

import numpy as np

WORKTREE = os.path.dirname(os.path.abspath(__file__))


def capture(func, *args, **kwargs):
    """Call func; return ('ok', value) or ('exc', type name, message)"""
    try:
        return ('ok', func(*args, **kwargs))
    except BaseException as exc:  # pylint: disable=broad-except
        return ('exc', type(exc).__name__, str(exc))


def exact_equal(a, b, path='result'):
    """Deep, bit-exact comparison; raises AssertionError on a difference"""
    if isinstance(a, np.ndarray) or isinstance(b, np.ndarray):
        assert isinstance(a, np.ndarray) and isinstance(b, np.ndarray), path
        assert a.dtype == b.dtype, (path, a.dtype, b.dtype)
        assert a.shape == b.shape, (path, a.shape, b.shape)
        if a.dtype == object:
            exact_equal(a.tolist(), b.tolist(), path)
        else:
            assert a.tobytes() == b.tobytes(), (path, a, b)
        return
    assert type(a) is type(b), (path, type(a), type(b))
    if isinstance(a, float):  # includes np.float64
        assert struct.pack('<d', a) == struct.pack('<d', b), (path, a, b)
    elif isinstance(a, dict):
        assert list(a.keys()) == list(b.keys()), (path, a.keys(), b.keys())
        for key in a:
            exact_equal(a[key], b[key], '{}[{!r}]'.format(path, key))
    elif isinstance(a, (list, tuple)):
        assert len(a) == len(b), (path, len(a), len(b))
        for i, (x, y) in enumerate(zip(a, b)):
            exact_equal(x, y, '{}[{}]'.format(path, i))
    else:
        assert a == b, (path, a, b)


def count_leaves(obj):
    """Number of scalar leaves in a result (for reporting)"""
    if isinstance(obj, np.ndarray):
        return obj.size
    if isinstance(obj, dict):
        return sum(count_leaves(v) for v in obj.values())
    if isinstance(obj, (list, tuple)):
        return sum(count_leaves(v) for v in obj)
    return 1


def main(check_file, patch_name, worker):
    """Entry point used by every diff_check_K.py"""
    if '--worker' in sys.argv:
        tree = os.environ['RF_TREE']
        # The script directory (the worktree) is sys.path[0]; make sure the
        # package is imported from the scratch copy instead.
        sys.path.insert(0, tree)
        import spowtd  # pylint: disable=import-outside-toplevel

        assert os.path.abspath(spowtd.__file__).startswith(tree), (
            spowtd.__file__,
            tree,
        )
        out = sys.argv[sys.argv.index('--worker') + 1]
        with open(out, 'wb') as f:
            pickle.dump(worker(), f)
        return
    patch = os.path.join(WORKTREE, patch_name)
    tmp = tempfile.mkdtemp(prefix='rfD_dc_')
    try:
        results = {}
        for name in ('orig', 'new'):
            tree = os.path.join(tmp, name)
            os.makedirs(tree)
            archive = subprocess.run(
                ['git', '-C', WORKTREE, 'archive', 'HEAD', 'spowtd'],
                check=True,
                stdout=subprocess.PIPE,
            ).stdout
            subprocess.run(
                ['tar', '-x', '-C', tree], input=archive, check=True
            )
            if name == 'new':
                subprocess.run(
                    ['patch', '-p1', '-s', '-d', tree, '-i', patch],
                    check=True,
                )
            out = os.path.join(tmp, name + '.pkl')
            env = dict(os.environ)
            env['PYTHONPATH'] = tree
            env['RF_TREE'] = tree
            subprocess.run(
                [sys.executable, os.path.abspath(check_file), '--worker', out],
                check=True,
                env=env,
                cwd=tree,
            )
            with open(out, 'rb') as f:
                results[name] = pickle.load(f)
        exact_equal(results['orig'], results['new'])
        print(
            '{}: OK, original and refactored ({}) agree exactly on {} values'.format(
                os.path.basename(check_file),
                patch_name,
                count_leaves(results['orig']),
            )
        )
    finally:
        shutil.rmtree(tmp, ignore_errors=True)


def build_database(sample, curvature_m_km2=2.36, stage='all'):
    """In-memory database built from sample data set `sample` (1 or 2)

    Runs load, classify, zeta grid and (stage='all') rise / recession offsets
    and set-curvature with whichever copy of spowtd is importable.
    """
    # pylint: disable=import-outside-toplevel
    import sqlite3

    import spowtd.classify as classify_mod
    import spowtd.load as load_mod
    import spowtd.recession as recession_mod
    import spowtd.rise as rise_mod
    import spowtd.set_curvature as set_curvature_mod
    import spowtd.zeta_grid as zeta_grid_mod
    from spowtd.test import conftest

    connection = sqlite3.connect(':memory:')
    with open(
        conftest.get_sample_file_path('precipitation', sample),
        'rt',
        encoding='utf-8-sig',
    ) as precip_f, open(
        conftest.get_sample_file_path('evapotranspiration', sample),
        'rt',
        encoding='utf-8-sig',
    ) as et_f, open(
        conftest.get_sample_file_path('water_level', sample),
        'rt',
        encoding='utf-8-sig',
    ) as zeta_f:
        load_mod.load_data(
            connection=connection,
            precipitation_data_file=precip_f,
            evapotranspiration_data_file=et_f,
            water_level_data_file=zeta_f,
            time_zone_name='Africa/Lagos',
        )
    if stage == 'loaded':
        return connection
    classify_mod.classify_intervals(
        connection,
        storm_rain_threshold_mm_h=8.0,
        rising_jump_threshold_mm_h=5.0,
    )
    zeta_grid_mod.populate_zeta_grid(connection, grid_interval_mm=1.0)
    if stage == 'classified':
        return connection
    rise_mod.find_rise_offsets(connection)
    recession_mod.find_recession_offsets(connection)
    if curvature_m_km2 is not None:
        set_curvature_mod.set_curvature(
            connection, curvature_m_km2=curvature_m_km2
        )
    return connection
