"""Differential check for refactor1.diff (specific_yield.py, PEATCLSM class)

Runs PeatclsmSpecificYield construction / evaluation / integration and
get_Sy_soil directly, on the sample parameters and on synthetic inputs, with
the original and the refactored package, and asserts bit-exact equality.
"""

import warnings

import _dc_harness


def worker():
    import numpy as np
    import yaml

    import spowtd.specific_yield as sy_mod
    from spowtd.test import conftest

    warnings.simplefilter('ignore')
    np.seterr(all='ignore')
    results = {}

    with open(conftest.get_parameter_file_path('peatclsm'), 'rt') as f:
        sample = yaml.safe_load(f)['specific_yield']
    parameter_sets = [
        dict(sample),
        {'type': 'peatclsm', 'sd': 0.05, 'theta_s': 0.95, 'b': 3.2,
         'psi_s': -0.1},
        {'type': 'peatclsm', 'sd': 1.3, 'theta_s': 0.5, 'b': 19.0,
         'psi_s': -0.011},
        # integer-valued parameters
        {'type': 'peatclsm', 'sd': 1, 'theta_s': 1, 'b': 2, 'psi_s': -1},
        # bad input: non-finite specific yield -> ValueError in the spline
        {'type': 'peatclsm', 'sd': 0.162, 'theta_s': 0.88, 'b': 7.4,
         'psi_s': 0.024},
        {'type': 'peatclsm', 'sd': 0.0, 'theta_s': 0.88, 'b': 7.4,
         'psi_s': -0.024},
        {'type': 'peatclsm', 'sd': 0.162, 'theta_s': 0.88, 'b': 0,
         'psi_s': -0.024},
        # bad input: wrong keyword
        {'type': 'peatclsm', 'sd': 0.162, 'theta_s': 0.88, 'b': 7.4},
    ]
    probe_mm = np.concatenate(
        [np.linspace(-1500, 1500, 301), np.array([-1000.0, 1000.0, 0.0])]
    )

    def build_and_probe(parameters):
        sy = sy_mod.create_specific_yield_function(dict(parameters))
        return {
            'class': type(sy).__name__,
            'attrs': (sy.sd, sy.theta_s, sy.b, sy.psi_s),
            'zeta_knots_mm': sy.zeta_knots_mm,
            'sy_knots': sy.sy_knots,
            'tck': [np.asarray(sy._spline._tck[0]),
                    np.asarray(sy._spline._tck[1]), sy._spline._tck[2]],
            'call_array': sy(probe_mm),
            'call_scalars': [sy(float(v)) for v in probe_mm[::25]],
            'integrals': [
                sy.integrate(float(a), float(b))
                for a, b in [(-1200, -900), (-500, 20), (30, -40), (7, 7),
                             (900, 1300), (-2000, 2000)]
            ],
        }

    for i, parameters in enumerate(parameter_sets):
        results['construct_{}'.format(i)] = _dc_harness.capture(
            build_and_probe, parameters
        )

    # get_Sy_soil called directly on small synthetic layerings
    sy = sy_mod.PeatclsmSpecificYield(sd=0.2, theta_s=0.9, b=5.0, psi_s=-0.03)

    def soil(n_out, zl_, zu_):
        out = np.full((n_out,), -7.0)
        outcome = _dc_harness.capture(sy.get_Sy_soil, out, zl_, zu_)
        return (outcome, out)

    rng = np.random.default_rng(20240926)
    edges = np.sort(rng.uniform(-0.7, 0.6, size=9))
    results['soil_uniform'] = soil(
        5, np.linspace(-0.2, 0.2, 5), np.linspace(-0.1, 0.3, 5)
    )
    results['soil_irregular'] = soil(8, edges[:-1], edges[1:])
    results['soil_single'] = soil(1, np.array([-0.3]), np.array([-0.1]))
    results['soil_empty'] = soil(0, np.array([]), np.array([]))
    # fewer output slots than layers: IndexError after partial fill
    results['soil_short_out'] = soil(3, edges[:-1], edges[1:])
    # more output slots than layers: IndexError in the inner loop
    results['soil_long_out'] = soil(12, edges[:-1], edges[1:])
    # broadcasting upper bound: IndexError at the second layer
    results['soil_broadcast'] = soil(3, edges[:3], np.array([0.9]))
    # lists instead of arrays: TypeError
    results['soil_lists'] = soil(2, [-0.2, -0.1], [-0.1, 0.0])
    # zero-thickness layer: division by zero -> inf/nan
    results['soil_zero_dz'] = soil(
        3, np.array([-0.2, -0.1, 0.0]), np.array([-0.1, -0.1, 0.1])
    )
    return results


if __name__ == '__main__':
    _dc_harness.main(__file__, 'refactor1.diff', worker)
