"""Differential check for refactor5.diff (spowtd/pestfiles.py)

Compares, between the original and the refactored package, the text
written by generate_rise_pestfiles and generate_curves_pestfiles for
every file type (tpl, ins, pst), both parameterizations, with and
without a configuration file, default and explicit precision, on the
two sample data sets and on synthetic data sets, on a database without
assembled curves, and for bad input (unknown file type, unknown or
missing parameterization types, missing sections, bad precision);
exceptions are compared by type and message.  Also the output files of
the CLI "spowtd pestfiles".

"""

import gc
import io
import os
import sqlite3
import tempfile

import dc_harness as h


BAD_PARAMETERS = [
    'specific_yield:\n  type: cubic\ntransmissivity:\n  type: spline\n',
    'specific_yield:\n  type: spline\ntransmissivity:\n  type: cubic\n',
    'specific_yield:\n  type: spline\n',
    'transmissivity:\n  type: spline\n',
    'specific_yield:\n  type: spline\ntransmissivity:\n  type: spline\n',
    'specific_yield:\n  type: peatclsm\ntransmissivity:\n  type: peatclsm\n',
    (
        'specific_yield:\n  type: spline\n  zeta_knots_mm: [1, 2]\n'
        'transmissivity:\n  type: peatclsm\n  Ksmacz0: 1\n  alpha: 2\n'
    ),
    (
        'specific_yield:\n  type: peatclsm\n'
        'transmissivity:\n  type: spline\n  zeta_knots_mm: [1, 2]\n'
        '  K_knots_km_d: [3, 4, 5]\n  minimum_transmissivity_m2_d: 0.5\n'
    ),
    (
        'specific_yield:\n  type: spline\n  zeta_knots_mm: []\n  sy_knots: []\n'
        'transmissivity:\n  type: spline\n  zeta_knots_mm: [1, 2]\n'
        '  K_knots_km_d: [3, 4, 5]\n  minimum_transmissivity_m2_d: 0.5\n'
    ),
    '[1, 2]\n',
]


def worker():
    import spowtd.pestfiles as pestfiles_mod
    import spowtd.user_interface as cli_mod

    cases = []
    generators = [
        ('rise', pestfiles_mod.generate_rise_pestfiles),
        ('curves', pestfiles_mod.generate_curves_pestfiles),
    ]

    def generate(connection, generator, parameter_text, outfile_type, **kwargs):
        outfile = io.StringIO()
        configuration_text = kwargs.pop('configuration_text', None)
        result = h.outcome(
            generator,
            connection,
            io.StringIO(parameter_text),
            outfile_type,
            (
                None
                if configuration_text is None
                else io.StringIO(configuration_text)
            ),
            outfile,
            **kwargs
        )
        cases.append((result, outfile.getvalue()))
        return (result, len(outfile.getvalue()))

    datasets = [
        ('sample 1', h.sample_files(1), {}),
        ('sample 2', h.sample_files(2), {}),
        ('synthetic 0', h.synthetic_files(0), {}),
        ('synthetic 1', h.synthetic_files(1), {'grid_interval_mm': 2.5}),
    ]
    for name, files, kwargs in datasets:
        connection = h.make_curves_connection(files, **kwargs)
        for label, generator in generators:
            for parameterization in ('spline', 'peatclsm'):
                text = h.parameter_text(parameterization)
                for outfile_type in ('tpl', 'ins', 'pst'):
                    summary = [
                        generate(connection, generator, text, outfile_type),
                        generate(
                            connection,
                            generator,
                            text,
                            outfile_type,
                            precision=5,
                            configuration_text='a: 1\nb: [2, 3]\n',
                        ),
                        generate(
                            connection,
                            generator,
                            text,
                            outfile_type,
                            precision=None,
                        ),
                        generate(
                            connection,
                            generator,
                            text,
                            outfile_type,
                            precision='{',
                        ),
                    ]
                    print(
                        '  ',
                        name,
                        label,
                        parameterization,
                        outfile_type,
                        summary,
                        flush=True,
                    )
            if name == 'synthetic 1':
                for outfile_type in ('tpl', 'ins', 'pst', 'xyz', None):
                    for text in BAD_PARAMETERS:
                        generate(connection, generator, text, outfile_type)
                    generate(
                        connection,
                        generator,
                        h.parameter_text('spline'),
                        outfile_type,
                        configuration_text=': :\n  - [',
                    )
        if name == 'synthetic 1':
            # CLI
            with tempfile.TemporaryDirectory() as tmpdir:
                db_path = os.path.join(tmpdir, 'db.sqlite3')
                # (backup blocks while a transaction is open)
                connection.commit()
                with sqlite3.connect(db_path) as disk_connection:
                    connection.backup(disk_connection)
                disk_connection.close()
                for label, _ in generators:
                    for parameterization in ('spline', 'peatclsm'):
                        for outfile_type in ('tpl', 'ins', 'pst'):
                            par_path = os.path.join(tmpdir, 'par.yml')
                            out_path = os.path.join(tmpdir, 'out.txt')
                            with open(par_path, 'wt') as par_file:
                                par_file.write(
                                    h.parameter_text(parameterization)
                                )
                            status = h.outcome(
                                cli_mod.main,
                                ['pestfiles', label, db_path, par_path]
                                + [outfile_type, '-o', out_path],
                            )
                            gc.collect()
                            with open(out_path, 'rb') as out_file:
                                text = out_file.read()
                            cases.append((status, text))
                print('   CLI cases done', flush=True)
        connection.close()
    # Curves not assembled
    connection = h.make_connection(h.synthetic_files(3, n_days=10))
    for label, generator in generators:
        for parameterization in ('spline', 'peatclsm'):
            for outfile_type in ('tpl', 'ins', 'pst'):
                print(
                    '   no curves',
                    label,
                    parameterization,
                    outfile_type,
                    generate(
                        connection,
                        generator,
                        h.parameter_text(parameterization),
                        outfile_type,
                    ),
                    flush=True,
                )
    # Database not loaded at all
    connection = sqlite3.connect(':memory:')
    for label, generator in generators:
        for outfile_type in ('tpl', 'ins', 'pst'):
            generate(
                connection, generator, h.parameter_text('spline'), outfile_type
            )
    print('  total cases', len(cases), flush=True)
    return cases


if __name__ == '__main__':
    h.run(5, __file__)
