"""Differential check for refactor1.diff: Spline.__call__ / Spline.integrate"""

import sys

sys.path.insert(0, '/tmp/rf_D')
import dc_common  # noqa: E402  (removes /tmp/rf_D from sys.path again)


def worker():
    import itertools

    import numpy as np
    import yaml

    import spowtd.spline as spline_mod
    import spowtd.specific_yield as sy_mod
    from spowtd.test import conftest

    canon, attempt = dc_common.canon, dc_common.attempt
    results = {}
    rng = np.random.default_rng(20240927)
    splines = {}
    xs = np.array([-3.0, -1.5, 0.0, 0.25, 2.0, 7.5])
    ys = np.array([0.3, -1.2, 4.0, 4.0, 0.125, 9.0])
    for order in (1, 2, 3):
        splines['o{}'.format(order)] = spline_mod.Spline.from_points(
            zip(xs, ys), order=order
        )
    splines['smooth'] = spline_mod.Spline.from_points(
        zip(np.arange(12.0), rng.normal(size=12)), s=0.5, order=3
    )
    splines['two'] = spline_mod.Spline.from_points(
        [(1, 2), (3, 5)], order=1
    )
    with open(conftest.get_parameter_file_path('spline'), 'rt') as f:
        sy_pars = yaml.safe_load(f)['specific_yield']
    sy = sy_mod.create_specific_yield_function(dict(sy_pars))
    splines['sample_sy'] = sy._spline  # pylint: disable=protected-access

    for name, spline in splines.items():
        lo, hi = spline.domain()
        span = hi - lo
        pts = [
            lo - 2.5 * span,
            lo - 1.0,
            np.nextafter(lo, -np.inf),
            lo,
            np.nextafter(lo, np.inf),
            lo + 0.3 * span,
            0.5 * (lo + hi),
            np.nextafter(hi, -np.inf),
            hi,
            np.nextafter(hi, np.inf),
            hi + 1.0,
            hi + 3.0 * span,
            float('nan'),
            float('inf'),
            float('-inf'),
        ]
        pts += [float(p) for p in pts[:3]] + [int(np.floor(lo)) - 1, int(hi)]
        res = []
        for a, b in itertools.product(pts, pts):
            res.append(attempt(spline.integrate, a, b))
        results[name + ':integrate'] = res
        calls = []
        arr = np.array([p for p in pts if isinstance(p, float)])
        for der in (0, 1):
            for x in pts:
                calls.append(attempt(spline, x, der))
                calls.append(attempt(spline, x, der=der))
            calls.append(attempt(spline, arr, der))
            calls.append(attempt(spline, list(arr), der=der))
            calls.append(attempt(spline, arr.reshape(3, -1), der))
            calls.append(attempt(spline, rng.uniform(lo - span, hi + span, 50), der))
        calls.append(attempt(spline, np.array([], dtype=float)))
        calls.append(attempt(spline, 'abc'))
        calls.append(attempt(spline, None))
        results[name + ':call'] = calls
        results[name + ':badint'] = [
            attempt(spline.integrate, np.array([0.0, 1.0]), 2.0),
            attempt(spline.integrate, None, 2.0),
            attempt(spline.integrate, 'a', 'b'),
            attempt(spline.integrate, np.array([lo - 1]), np.array([hi + 1])),
        ]
    # Through the SpecificYield wrapper on the sample parameters
    grid = np.linspace(-1500, 500, 41)
    results['sy.integrate'] = [
        attempt(sy.integrate, a, b) for a in grid for b in grid[::5]
    ]
    results['sy.call'] = attempt(sy, grid)
    return results


if __name__ == '__main__':
    dc_common.run(1, __file__)
