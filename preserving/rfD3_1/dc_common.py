"""Shared harness for the diff_check_K.py scripts.

Each diff_check_K.py defines ``worker()`` returning a picklable result built
with ``canon``; ``run(K, __file__)`` builds two package trees under a
temporary directory (pristine HEAD, and HEAD + refactorK.diff), runs the
worker in a fresh interpreter against each, and asserts the canonical results
are identical.
"""

import os
import pickle
import shutil
import subprocess
import sys
import tempfile

ROOT = '/tmp/rf_D'
PY = '/venv/bin/python'

# The scripts live in ROOT, which also holds a (possibly modified) copy of
# the package: make sure only PYTHONPATH decides which spowtd is imported.
sys.path[:] = [
    p for p in sys.path if os.path.realpath(p or os.getcwd()) != ROOT
]


def canon(obj):
    """Canonical, exactly comparable form (types + bit patterns)"""
    import numpy as np

    if isinstance(obj, np.ndarray):
        return (
            'ndarray',
            str(obj.dtype),
            obj.shape,
            np.ascontiguousarray(obj).tobytes(),
        )
    if isinstance(obj, np.generic):
        return ('npscalar', type(obj).__name__, obj.tobytes())
    if isinstance(obj, float):
        return ('float', obj.hex())
    if isinstance(obj, (bool, int, str, bytes, type(None))):
        return (type(obj).__name__, obj)
    if isinstance(obj, (list, tuple)):
        return (type(obj).__name__, tuple(canon(x) for x in obj))
    if isinstance(obj, dict):
        return ('dict', tuple((canon(k), canon(v)) for k, v in obj.items()))
    if isinstance(obj, BaseException):
        return ('exc', type(obj).__name__, str(obj))
    raise TypeError('cannot canonicalize {!r}'.format(type(obj)))


def attempt(func, *args, **kwargs):
    """Call func; return canon(result) or canon(exception)"""
    import warnings

    with warnings.catch_warnings(record=True) as caught:
        warnings.simplefilter('always')
        try:
            result = ('ok', canon(func(*args, **kwargs)))
        except SystemExit as exc:
            result = ('exit', canon(exc.code))
        except BaseException as exc:  # pylint: disable=broad-except
            result = ('raised', canon(exc))
    return (
        result,
        tuple(
            (w.category.__name__, str(w.message))
            for w in caught
            # ResourceWarnings mention the (per-tree) paths of files left
            # open by argparse.FileType; they are not behaviour of interest
            if not issubclass(w.category, ResourceWarning)
        ),
    )


def _tally(obj, counts):
    """Count attempt() outcomes in a nested result"""
    if isinstance(obj, dict):
        for value in obj.values():
            _tally(value, counts)
    elif isinstance(obj, (list, tuple)):
        if (
            len(obj) == 2
            and isinstance(obj[0], str)
            and obj[0] in counts
            and isinstance(obj[1], tuple)
        ):
            counts[obj[0]] += 1
        else:
            for value in obj:
                _tally(value, counts)


def run(k, script):
    """Run script's worker against original and refactored trees"""
    if len(sys.argv) == 3 and sys.argv[1] == '--worker':
        mod = sys.modules['__main__']
        import spowtd

        assert os.path.dirname(spowtd.__file__).startswith(
            os.environ['PYTHONPATH']
        ), spowtd.__file__
        with open(sys.argv[2], 'wb') as f:
            pickle.dump(mod.worker(), f)
        return
    tmp = tempfile.mkdtemp(prefix='rfD_dc{}_'.format(k))
    try:
        outs = []
        for name in ('orig', 'new'):
            tree = os.path.join(tmp, name)
            os.makedirs(tree)
            subprocess.check_call(
                'git -C {} archive HEAD spowtd | tar -x -C {}'.format(
                    ROOT, tree
                ),
                shell=True,
            )
            if name == 'new':
                subprocess.check_call(
                    [
                        'git',
                        'apply',
                        os.path.join(ROOT, 'refactor{}.diff'.format(k)),
                    ],
                    cwd=tree,
                )
            out = os.path.join(tmp, name + '.pkl')
            env = dict(os.environ)
            env['PYTHONPATH'] = tree
            env['MPLBACKEND'] = 'Agg'
            env['PYTHONHASHSEED'] = '0'
            subprocess.check_call(
                [PY, script, '--worker', out], env=env, cwd=tmp
            )
            with open(out, 'rb') as f:
                outs.append(pickle.load(f))
        orig, new = outs
        assert type(orig) is type(new)
        if isinstance(orig, dict):
            assert list(orig) == list(new), (list(orig), list(new))
            bad = [key for key in orig if orig[key] != new[key]]
            assert not bad, 'MISMATCH in {}'.format(bad)
            n = len(orig)
        else:
            assert orig == new, 'MISMATCH'
            n = 1
        counts = {'ok': 0, 'raised': 0, 'exit': 0}
        _tally(orig, counts)
        print(
            'diff_check_{}: OK ({} result groups identical; outcomes {})'.format(
                k, n, counts
            )
        )
    finally:
        if not os.environ.get("DC_KEEP"): shutil.rmtree(tmp, ignore_errors=True)
        else: print(tmp)


def build_sample_db(connection, sample, rise=True, recession=True):
    """Run the library pipeline on sample data set `sample` (1 or 2)"""
    import spowtd.classify as classify_mod
    import spowtd.load as load_mod
    import spowtd.recession as recession_mod
    import spowtd.rise as rise_mod
    import spowtd.zeta_grid as zeta_grid_mod
    from spowtd.test import conftest

    files = [
        open(
            conftest.get_sample_file_path(kind, sample),
            'rt',
            encoding='utf-8-sig',
        )
        for kind in ('precipitation', 'evapotranspiration', 'water_level')
    ]
    try:
        load_mod.load_data(
            connection=connection,
            precipitation_data_file=files[0],
            evapotranspiration_data_file=files[1],
            water_level_data_file=files[2],
            time_zone_name='Africa/Lagos',
        )
    finally:
        for f in files:
            f.close()
    classify_mod.classify_intervals(
        connection,
        storm_rain_threshold_mm_h=8.0,
        rising_jump_threshold_mm_h=5.0,
    )
    zeta_grid_mod.populate_zeta_grid(connection, grid_interval_mm=1.0)
    if rise:
        rise_mod.find_rise_offsets(connection)
    if recession:
        recession_mod.find_recession_offsets(connection)
    connection.commit()


def dump_db(connection):
    """Full SQL dump of a database as a list of strings"""
    return list(connection.iterdump())
