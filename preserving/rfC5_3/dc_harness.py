"""Shared harness for the diff_check_K.py scripts.

Builds two copies of the package under a temporary directory -- the
unmodified tree (git HEAD) and the tree with refactorK.diff applied --
runs the calling script as a worker once against each copy (separate
processes, PYTHONPATH pointing at the copy), pickles the scenario
results, and asserts exact (bit-identical) equality.

"""

import hashlib
import io
import math
import os
import pickle
import shutil
import sqlite3
import subprocess
import sys
import tempfile

ROOT = os.path.dirname(os.path.abspath(__file__))
if len(sys.argv) > 3 and sys.argv[1] == '--worker':
    # The script directory (the worktree) precedes PYTHONPATH on
    # sys.path; make sure the tree under test wins.
    sys.path.insert(0, sys.argv[3])
PYTHON = '/venv/bin/python'


# ---------------------------------------------------------------------
# Driver side
# ---------------------------------------------------------------------
def _export_tree(dest):
    os.makedirs(dest)
    archive = subprocess.run(
        ['git', '-C', ROOT, 'archive', 'HEAD', 'spowtd'],
        check=True,
        stdout=subprocess.PIPE,
    ).stdout
    subprocess.run(['tar', '-x', '-C', dest], input=archive, check=True)


def run_both(script, patch_number):
    """Run script as worker against original and patched trees"""
    patch = os.path.join(ROOT, 'refactor{}.diff'.format(patch_number))
    assert os.path.getsize(patch) > 0, 'empty patch'
    tmp = tempfile.mkdtemp(prefix='dc_', dir=ROOT)
    try:
        results = {}
        for label in ('orig', 'new'):
            tree = os.path.join(tmp, label)
            _export_tree(tree)
            if label == 'new':
                subprocess.run(
                    ['patch', '-p1', '-s', '-i', patch], cwd=tree, check=True
                )
            out = os.path.join(tmp, label + '.pkl')
            env = dict(os.environ)
            env['PYTHONPATH'] = tree + os.pathsep + ROOT
            env['PYTHONDONTWRITEBYTECODE'] = '1'
            subprocess.run(
                [PYTHON, script, '--worker', out, tree],
                check=True,
                env=env,
                cwd=tmp,
            )
            with open(out, 'rb') as f:
                results[label] = pickle.load(f)
        orig, new = results['orig'], results['new']
        assert list(orig) == list(new), (list(orig), list(new))
        n_err = 0
        for name in orig:
            a = pickle.dumps(orig[name])
            b = pickle.dumps(new[name])
            if a != b:
                print('MISMATCH in scenario', name)
                print('  orig:', repr(orig[name])[:600])
                print('  new: ', repr(new[name])[:600])
                n_err += 1
        if os.environ.get('DC_VERBOSE'):
            for name, value in orig.items():
                if value[0] == 'exc':
                    print('  {}: {} {!r}'.format(name, value[1], value[2][:90]))
                else:
                    print('  {}: ok'.format(name))
        kinds = {}
        for name, value in orig.items():
            kind = value[0]
            kinds[kind] = kinds.get(kind, 0) + 1
        print(
            '{} scenarios compared ({}), {} mismatches'.format(
                len(orig),
                ', '.join(
                    '{} {}'.format(v, k) for k, v in sorted(kinds.items())
                ),
                n_err,
            )
        )
        assert n_err == 0
        print('diff_check_{}: OK'.format(patch_number))
    finally:
        shutil.rmtree(tmp, ignore_errors=True)


# ---------------------------------------------------------------------
# Worker side
# ---------------------------------------------------------------------
def canon(value):
    """Canonical, exactly comparable representation of a result"""
    import numpy as np

    if isinstance(value, np.ndarray):
        return ('ndarray', str(value.dtype), value.shape, value.tobytes())
    if isinstance(value, np.generic):
        return ('npscalar', str(value.dtype), value.tobytes())
    if isinstance(value, float):
        return ('float', value.hex() if math.isfinite(value) else repr(value))
    if isinstance(value, (list, tuple)):
        return (type(value).__name__, [canon(v) for v in value])
    if isinstance(value, dict):
        return ('dict', [(canon(k), canon(v)) for k, v in value.items()])
    return value


def dump_db(connection):
    """Full contents of every table and view, in stored / view order"""
    cursor = connection.cursor()
    names = [
        row[0]
        for row in cursor.execute(
            "SELECT name FROM sqlite_master "
            "WHERE type IN ('table', 'view') ORDER BY name"
        )
    ]
    out = []
    for name in names:
        rows = cursor.execute('SELECT * FROM {}'.format(name)).fetchall()
        if len(rows) > 5000:
            # Large (input) tables: exact digest; repr() of a float
            # round-trips, and distinguishes 1 from 1.0
            out.append(
                (
                    name,
                    'sha256',
                    len(rows),
                    hashlib.sha256(repr(rows).encode('utf-8')).hexdigest(),
                )
            )
        else:
            out.append((name, canon([tuple(r) for r in rows])))
    cursor.close()
    return out


def scenario(results, name, func):
    """Run func, record ('ok', canon(result)) or ('exc', type, message)"""
    try:
        results[name] = ('ok', canon(func()))
    except BaseException as exc:  # pylint: disable=broad-except
        results[name] = (
            'exc',
            type(exc).__module__ + '.' + type(exc).__name__,
            str(exc),
        )


def sample_path(tree, kind, sample):
    return os.path.join(
        tree, 'spowtd', 'test', 'sample_data', '{}_{}.txt'.format(kind, sample)
    )


def parameter_text(tree, kind):
    with open(
        os.path.join(
            tree,
            'spowtd',
            'test',
            'sample_data',
            '{}_parameters.yml'.format(kind),
        ),
        'rt',
        encoding='utf-8',
    ) as f:
        return f.read()


_CACHE = {}
FOREIGN_KEYS = True


def _clone(key, build):
    """Return a fresh in-memory copy of the database built by build()

    The database is built once per worker process (with the package
    under test) and then copied, because loading takes several seconds.

    """
    if key not in _CACHE:
        connection = build()
        connection.commit()
        _CACHE[key] = connection.serialize()
        connection.close()
    connection = sqlite3.connect(':memory:')
    connection.deserialize(_CACHE[key])
    # Foreign key enforcement is per connection: the library flow (one
    # connection from load onwards, as in the test suite) has it on,
    # the command-line flow (new connection per step) has it off.
    connection.execute(
        'PRAGMA foreign_keys = {}'.format(1 if FOREIGN_KEYS else 0)
    )
    return connection


def both_foreign_key_modes(build_results):
    """Wrap build_results to run every scenario with enforcement on and off"""

    def wrapped(results, tree):
        global FOREIGN_KEYS  # pylint: disable=global-statement
        for mode in (True, False):
            FOREIGN_KEYS = mode
            partial = {}
            build_results(partial, tree)
            for name, value in partial.items():
                results['fk={}/{}'.format(int(mode), name)] = value
        FOREIGN_KEYS = True

    return wrapped


def loaded_connection(tree, sample):
    return _clone(
        ('loaded', sample), lambda: _loaded_connection(tree, sample)
    )


def classified_connection(tree, sample, grid_interval_mm=1.0, grid=True):
    return _clone(
        ('classified', sample, repr(grid_interval_mm), grid),
        lambda: _classified_connection(tree, sample, grid_interval_mm, grid),
    )


def _loaded_connection(tree, sample):
    import spowtd.load as load_mod

    connection = sqlite3.connect(':memory:')
    with open(
        sample_path(tree, 'precipitation', sample),
        'rt',
        encoding='utf-8-sig',
    ) as precip_f, open(
        sample_path(tree, 'evapotranspiration', sample),
        'rt',
        encoding='utf-8-sig',
    ) as et_f, open(
        sample_path(tree, 'water_level', sample), 'rt', encoding='utf-8-sig'
    ) as zeta_f:
        load_mod.load_data(
            connection=connection,
            precipitation_data_file=precip_f,
            evapotranspiration_data_file=et_f,
            water_level_data_file=zeta_f,
            time_zone_name='Africa/Lagos',
        )
    return connection


def _classified_connection(tree, sample, grid_interval_mm, grid):
    import spowtd.classify as classify_mod
    import spowtd.zeta_grid as zeta_grid_mod

    connection = loaded_connection(tree, sample)
    classify_mod.classify_intervals(
        connection,
        storm_rain_threshold_mm_h=8.0,
        rising_jump_threshold_mm_h=5.0,
    )
    if grid:
        zeta_grid_mod.populate_zeta_grid(
            connection, grid_interval_mm=grid_interval_mm
        )
    return connection


def empty_connection(tree):
    """Connection with schema but no data"""
    connection = sqlite3.connect(':memory:')
    with open(
        os.path.join(tree, 'spowtd', 'schema.sql'), 'rt', encoding='utf-8'
    ) as f:
        connection.executescript(f.read())
    return connection


def worker_main(build_results):
    """Entry point for worker mode"""
    out, tree = sys.argv[2], sys.argv[3]
    import spowtd

    assert os.path.dirname(os.path.dirname(spowtd.__file__)) == tree, (
        spowtd.__file__,
        tree,
    )
    results = {}
    build_results(results, tree)
    with open(out, 'wb') as f:
        pickle.dump(results, f)


def main(script, patch_number, build_results):
    if len(sys.argv) > 1 and sys.argv[1] == '--worker':
        worker_main(build_results)
    else:
        run_both(script, patch_number)


__all__ = ['io']
