"""Differential check for refactor3.diff (simulate_rise.py)

compute_rise_curve on synthetic grids (regular, irregular, descending,
integer, one / two / zero points, non-array input) with both specific
yield parameterizations and with a recording stand-in that logs the exact
arguments it receives; simulate_rise on both sample data sets (library and
CLI), both output modes, both parameterizations, plus error paths.  Output
text, arrays (bitwise) and exception type + message are compared between the
original and the refactored package.

"""

import io
import os
import sys

sys.path.insert(0, os.path.dirname(os.path.abspath(__file__)))
import dc_harness as H  # noqa: E402


class RecordingSpecificYield:
    """Stand-in that records how integrate() is called"""

    def __init__(self):
        self.calls = []

    def integrate(self, lo, hi):
        self.calls.append(
            (type(lo).__name__, type(hi).__name__, float(lo), float(hi))
        )
        return 0.25 * (float(hi) - float(lo)) + 1e-3 * float(hi) ** 2


def build_results(results, tree):
    import numpy as np
    import yaml
    import spowtd.rise as rise_mod
    import spowtd.simulate_rise as simulate_rise_mod
    import spowtd.specific_yield as specific_yield_mod
    import spowtd.user_interface as ui_mod

    rng = np.random.default_rng(12345)
    grids = {
        'linspace': np.linspace(-865, 50, 10),
        'fine': np.linspace(-300, 100, 401),
        'irregular': np.sort(rng.uniform(-290, 160, 37)),
        'descending': np.linspace(50, -400, 12),
        'unsorted': rng.uniform(-290, 160, 9),
        'int': np.arange(-200, 100, 25),
        'float32': np.linspace(-100, 50, 7, dtype='float32'),
        'two': np.array([-10.0, 12.5]),
        'one': np.array([3.0]),
        'empty': np.array([], dtype=float),
        'list': [-20.0, -10.0, 0.0],
        'repeated': np.array([-5.0, -5.0, 0.0, 0.0, 7.0]),
    }

    def make_sy(kind):
        parameters = yaml.safe_load(H.parameter_text(tree, kind))
        return specific_yield_mod.create_specific_yield_function(
            parameters['specific_yield']
        )

    for kind in ('spline', 'peatclsm'):
        for grid_name, grid in grids.items():
            for mean in (None, 0.0, 7.0, -123.456, np.float64(19.25)):

                def curve(kind=kind, grid=grid, mean=mean):
                    specific_yield = make_sy(kind)
                    grid_copy = grid.copy() if hasattr(grid, 'copy') else grid
                    if mean is None:
                        out = simulate_rise_mod.compute_rise_curve(
                            specific_yield, grid_copy
                        )
                    else:
                        out = simulate_rise_mod.compute_rise_curve(
                            specific_yield, grid_copy, mean
                        )
                    # Input must not have been modified
                    return (out, grid_copy)

                H.scenario(
                    results,
                    'curve-{}-{}-{!r}'.format(kind, grid_name, mean),
                    curve,
                )

    for grid_name, grid in grids.items():

        def recorded(grid=grid):
            specific_yield = RecordingSpecificYield()
            try:
                out = simulate_rise_mod.compute_rise_curve(
                    specific_yield, zeta_grid_mm=grid, mean_storage_mm=1.5
                )
            except Exception as exc:  # pylint: disable=broad-except
                out = (type(exc).__name__, str(exc))
            return (out, specific_yield.calls)

        H.scenario(results, 'recorded-{}'.format(grid_name), recorded)

    # simulate_rise on the sample data
    for sample in (1, 2):
        for grid in (1.0, 5.0):

            def risen(s=sample, g=grid):
                connection = H.classified_connection(tree, s, g)
                rise_mod.find_rise_offsets(connection)
                return connection

            for kind in ('spline', 'peatclsm'):
                for observations_only in (False, True, 0, 1, None, 'yes'):

                    def simulate(
                        risen=risen,
                        kind=kind,
                        observations_only=observations_only,
                    ):
                        connection = risen()
                        outfile = io.StringIO()
                        value = simulate_rise_mod.simulate_rise(
                            connection=connection,
                            parameters=io.StringIO(
                                H.parameter_text(tree, kind)
                            ),
                            outfile=outfile,
                            observations_only=observations_only,
                        )
                        return (
                            value,
                            outfile.getvalue(),
                            connection.in_transaction,
                            H.dump_db(connection),
                        )

                    H.scenario(
                        results,
                        'simulate-sample{}-grid{}-{}-{!r}'.format(
                            sample, grid, kind, observations_only
                        ),
                        simulate,
                    )

        # Through the command line, database and output in files
        for kind in ('spline', 'peatclsm'):
            for flags in ((), ('--observations',)):

                def cli(s=sample, kind=kind, flags=flags):
                    connection = H.classified_connection(tree, s, 1.0)
                    rise_mod.find_rise_offsets(connection)
                    db_path = os.path.join(os.getcwd(), 'cli3.sqlite3')
                    out_path = os.path.join(os.getcwd(), 'cli3.out')
                    with open(db_path, 'wb') as db_file:
                        db_file.write(connection.serialize())
                    connection.close()
                    status = ui_mod.main(
                        [
                            'simulate',
                            'rise',
                            db_path,
                            os.path.join(
                                tree,
                                'spowtd',
                                'test',
                                'sample_data',
                                '{}_parameters.yml'.format(kind),
                            ),
                            '-o',
                            out_path,
                        ]
                        + list(flags)
                    )
                    with open(out_path, 'rt', encoding='utf-8') as out_file:
                        text = out_file.read()
                    os.remove(db_path)
                    os.remove(out_path)
                    return (status, text)

                H.scenario(
                    results,
                    'cli-sample{}-{}-{}'.format(sample, kind, flags),
                    cli,
                )

    # Error paths
    def no_rise_yet():
        connection = H.classified_connection(tree, 1, 1.0)
        return simulate_rise_mod.simulate_rise(
            connection,
            io.StringIO(H.parameter_text(tree, 'spline')),
            io.StringIO(),
            False,
        )

    H.scenario(results, 'error-no-rise-yet', no_rise_yet)

    def bad_parameters(text):
        def func():
            connection = H.empty_connection(tree)
            return simulate_rise_mod.simulate_rise(
                connection, io.StringIO(text), io.StringIO(), True
            )

        return func

    H.scenario(
        results, 'error-missing-key', bad_parameters('transmissivity: {}\n')
    )
    H.scenario(
        results,
        'error-bad-type',
        bad_parameters('specific_yield: {type: nonesuch}\n'),
    )
    H.scenario(results, 'error-bad-yaml', bad_parameters('a: [1, 2\n'))

    def single_level():
        # One water level only in the average rise curve
        connection = H.classified_connection(tree, 1, 1.0)
        rise_mod.find_rise_offsets(connection)
        connection.execute(
            'DELETE FROM rising_interval_zeta WHERE zeta_number != '
            '(SELECT min(zeta_number) FROM rising_interval_zeta)'
        )
        outfile = io.StringIO()
        simulate_rise_mod.simulate_rise(
            connection,
            io.StringIO(H.parameter_text(tree, 'spline')),
            outfile,
            False,
        )
        return outfile.getvalue()

    H.scenario(results, 'single-level', single_level)

    class FailingFile:
        """Output file whose write fails"""

        def write(self, text):
            raise OSError('disk full: {!r}'.format(text[:20]))

    for observations_only in (False, True):

        def failing_output(observations_only=observations_only):
            connection = H.classified_connection(tree, 2, 5.0)
            rise_mod.find_rise_offsets(connection)
            return simulate_rise_mod.simulate_rise(
                connection,
                io.StringIO(H.parameter_text(tree, 'spline')),
                FailingFile(),
                observations_only,
            )

        H.scenario(
            results,
            'error-failing-output-{}'.format(observations_only),
            failing_output,
        )


if __name__ == '__main__':
    H.main(os.path.abspath(__file__), 3, build_results)
