"""Differential check for refactor2.diff (spowtd/recession.py)

Runs find_recession_offsets / compute_offsets on both sample data sets and
on synthetic variants (row subsets, rescaled water levels, other
thresholds and grid steps), with several reference levels, with the zeta
grid missing, and on corrupted databases in which an interstorm interval
has lost its first / last / all water-level rows (reaching the assertions
in the series-building loop).  Tables (values and storage classes), view
contents and exceptions must be identical.

"""

import dc_common as dc

TABLES = ['recession_interval', 'recession_interval_zeta']


def collect():
    import numpy as np

    import spowtd.recession as recession_mod
    import spowtd.zeta_grid as zeta_grid_mod

    results = {}
    for label, classified in dc.classified_sources():
        median_zeta_mm = float(
            np.median(
                [
                    row[0]
                    for row in classified.execute(
                        'SELECT zeta_mm FROM water_level'
                    )
                ]
            )
        )
        connection = dc.clone(classified)
        outcome = dc.attempt(recession_mod.find_recession_offsets, connection)
        results[(label, 'no-grid')] = dc.canon(
            (outcome, dc.dump_tables(connection, TABLES))
        )
        connection.close()
        for grid_mm in (1.0, 2.5):
            gridded = dc.clone(classified)
            zeta_grid_mod.populate_zeta_grid(gridded, grid_mm)
            gridded.commit()
            on_grid = grid_mm * round(median_zeta_mm / grid_mm)
            references = [
                ('none', None),
                ('on-grid', on_grid),
                ('off-grid', on_grid + 0.3 * grid_mm),
                ('never-crossed', grid_mm * 100000),
            ]
            for ref_label, reference in references:
                connection = dc.clone(gridded)
                outcome = dc.attempt(
                    recession_mod.find_recession_offsets, connection, reference
                )
                results[(label, grid_mm, ref_label)] = dc.canon(
                    (
                        outcome,
                        dc.dump_tables(connection, TABLES),
                        dc.dump_views(connection, ['average_recession_time']),
                    )
                )
                connection.close()
            # Directly on a cursor, which must stay usable afterwards
            connection = dc.clone(gridded)
            cursor = connection.cursor()
            outcome = dc.attempt(recession_mod.compute_offsets, cursor, None)
            still_open = dc.attempt(
                lambda: cursor.execute('SELECT 41 + 1').fetchall()
            )
            results[(label, grid_mm, 'direct')] = dc.canon(
                (outcome, still_open, dc.dump_tables(connection, TABLES))
            )
            connection.close()
            gridded.close()

        # Corrupted databases: assertions in the series loop
        gridded = dc.clone(classified)
        zeta_grid_mod.populate_zeta_grid(gridded, 1.0)
        gridded.commit()
        intervals = gridded.execute(
            """
        SELECT start_epoch, thru_epoch FROM zeta_interval
        WHERE interval_type = 'interstorm'
        ORDER BY start_epoch"""
        ).fetchall()
        (start_epoch, thru_epoch) = intervals[len(intervals) // 2]
        corruptions = {
            'missing-start': (
                'DELETE FROM water_level WHERE epoch = ?',
                (start_epoch,),
            ),
            'missing-thru': (
                'DELETE FROM water_level WHERE epoch = ?',
                (thru_epoch,),
            ),
            'empty-interval': (
                'DELETE FROM water_level WHERE epoch BETWEEN ? AND ?',
                (start_epoch, thru_epoch),
            ),
        }
        for name, (statement, arguments) in corruptions.items():
            connection = dc.clone(gridded)
            connection.execute('PRAGMA foreign_keys = 0')
            connection.execute(statement, arguments)
            connection.commit()
            outcome = dc.attempt(
                recession_mod.find_recession_offsets, connection
            )
            results[(label, name)] = dc.canon(
                (outcome, dc.dump_tables(connection, TABLES))
            )
            connection.close()
        gridded.close()
        classified.close()
    return results


if __name__ == '__main__':
    dc.main(2, __file__, collect)
