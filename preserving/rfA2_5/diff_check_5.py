"""Differential check for refactor5.diff (get_candidate_match_intervals,
get_mystery_jump_mask)"""
import itertools

import numpy as np

import diff_common as dc

orig, new = dc.load_variants(5)

print("get_mystery_jump_mask:")
cases = []
# exhaustive over all boolean vectors up to length 6
for n in range(0, 7):
    for bits in itertools.product([False, True], repeat=2 * n):
        jump = np.array(bits[:n], bool)
        rain = np.array(bits[n:], bool)
        cases.append(lambda jump=jump, rain=rain: (jump.copy(), rain.copy()))
for seed in range(200):
    rng = np.random.default_rng(seed)
    n = int(rng.integers(1, 300))
    jump = rng.random(n) < rng.random()
    rain = rng.random(n) < rng.random()
    cases.append(lambda jump=jump, rain=rain: (jump.copy(), rain.copy()))
# bad input: unequal lengths, lists, integer arrays
cases.append(lambda: (np.array([True, False]), np.array([True])))
cases.append(lambda: (np.array([True]), np.array([True, False])))
cases.append(lambda: ([True, False, True], [False, False, True]))
cases.append(lambda: (np.array([1, 0, 1, 0]), np.array([0, 0, 1, 0])))
cases.append(lambda: (np.array([True, False]), None))
dc.compare_calls(orig, new, "get_mystery_jump_mask", cases)

print("get_candidate_match_intervals:")
cases = []
n_valid = 0
for seed in range(300):
    rng = np.random.default_rng(seed)
    n = int(rng.integers(3, 60))
    rain = rng.choice([0.0, 0.0, 5.0, 10.0], size=n) * rng.random(n)
    head = np.cumsum(rng.choice([-1.0, 0.0, 3.0, 6.0], size=n) * rng.random(n))
    threshold = 1.0
    is_raining = rain > 2.0
    rain_masks = list(orig.get_true_interval_masks(is_raining))
    jump_masks = list(orig.get_true_interval_masks(np.diff(head) > threshold))
    # every (jump, storm) combination, overlapping or not: all are valid calls
    for jump_mask in jump_masks:
        for storm_index in range(len(rain_masks)):
            cases.append(
                lambda a=(head, threshold, is_raining, rain_masks, jump_mask, storm_index): a
            )
            n_valid += 1
    if not rain_masks or not jump_masks:
        continue
    # Inconsistent inputs that trip each assertion / error
    jump_mask = jump_masks[0]
    wrong_rain = is_raining.copy()
    first = np.flatnonzero(rain_masks[0])
    wrong_rain[first[0]] = False                      # "includes only raining"
    cases.append(lambda a=(head, threshold, wrong_rain, rain_masks, jump_mask, 0): a)
    if first[0] > 0:
        wrong_rain = is_raining.copy()
        wrong_rain[first[0] - 1] = True               # "just before slice"
        cases.append(lambda a=(head, threshold, wrong_rain, rain_masks, jump_mask, 0): a)
    if first[-1] + 1 < n:
        wrong_rain = is_raining.copy()
        wrong_rain[first[-1] + 1] = True              # "at end of slice"
        cases.append(lambda a=(head, threshold, wrong_rain, rain_masks, jump_mask, 0): a)
    jumps = np.flatnonzero(jump_mask)
    if len(jumps) > 1:
        shorter = jump_mask.copy()
        shorter[jumps[0]] = False                     # "starts at jump_start"
        cases.append(lambda a=(head, threshold, is_raining, rain_masks, shorter, 0): a)
        shorter = jump_mask.copy()
        shorter[jumps[-1]] = False                    # "ends at jump_stop"
        cases.append(lambda a=(head, threshold, is_raining, rain_masks, shorter, 0): a)
    longer = jump_mask.copy()
    if jumps[-1] + 1 < len(longer):
        longer[jumps[-1] + 1] = True                  # "meets jump threshold"
        cases.append(lambda a=(head, threshold, is_raining, rain_masks, longer, 0): a)
    if jumps[0] > 0:
        longer = jump_mask.copy()
        longer[jumps[0] - 1] = True
        cases.append(lambda a=(head, threshold, is_raining, rain_masks, longer, 0): a)
    # other threshold than the one the masks were made with
    cases.append(lambda a=(head, 3.0, is_raining, rain_masks, jump_mask, 0): a)
    cases.append(lambda a=(head, -5.0, is_raining, rain_masks, jump_mask, 0): a)
    # empty masks, bad index
    cases.append(lambda a=(head, threshold, is_raining, rain_masks, np.zeros(n - 1, bool), 0): a)
    cases.append(lambda a=(head, threshold, is_raining, [np.zeros(n, bool)], jump_mask, 0): a)
    cases.append(lambda a=(head, threshold, is_raining, rain_masks, jump_mask, len(rain_masks)): a)
    nan_head = head.copy()
    nan_head[jumps[0]] = np.nan
    cases.append(lambda a=(nan_head, threshold, is_raining, rain_masks, jump_mask, 0): a)
# blocks touching either end of the series
head = np.array([0.0, 5.0, 10.0, 10.0, 15.0])
is_raining = np.array([True, True, False, True, True])
rain_masks = list(orig.get_true_interval_masks(is_raining))
for jump_mask in orig.get_true_interval_masks(np.diff(head) > 1.0):
    for storm_index in (0, 1):
        cases.append(lambda a=(head, 1.0, is_raining, rain_masks, jump_mask, storm_index): a)
print("  valid combinations:", n_valid)
dc.compare_calls(orig, new, "get_candidate_match_intervals", cases)

print("match_storms on arrays:")
cases = []
for seed in range(30):
    rain, head, times, step = dc.synthetic_series(seed, n_steps=300, gap=False)
    rain = np.array(rain)
    head = np.array(head[:-1])
    for thresholds in ((8.0, 2.5), (0.5, 0.1)):
        cases.append(lambda a=(rain, head) + thresholds: a)
dc.compare_calls(orig, new, "match_storms", cases)

print("end-to-end classify_intervals:")
dc.standard_db_checks(orig, new)
dc.cleanup()
print("diff_check_5 OK")
