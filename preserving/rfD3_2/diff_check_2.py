"""Differential check for refactor2.diff:
PeatclsmSpecificYield.get_Sy_soil / campbell_1d_az"""

import sys

sys.path.insert(0, '/tmp/rf_D')
import dc_common  # noqa: E402  (removes /tmp/rf_D from sys.path again)


def worker():
    import itertools

    import numpy as np
    import yaml

    import spowtd.specific_yield as sy_mod
    from spowtd.test import conftest

    canon, attempt = dc_common.canon, dc_common.attempt
    results = {}

    # 1. campbell_1d_az directly: both branches, the boundary, python and
    # numpy scalars, degenerate parameters
    f64 = np.float64
    values = []
    zs = [-1.0, -0.024, -0.0240000001, 0.0, 0.3, 1.01]
    for Fs, z_, zlu in itertools.product([0.0, 0.37, 1.0], zs, zs):
        for theta_s, psi_s, b in [
            (0.88, -0.024, 7.4),
            (0.5, -1.0, 1.0),
            (1.0, -0.01, 20.0),
            (0.88, 0.05, 3.0),  # positive "air entry": negative base
            (0.88, 0.0, 3.0),  # zero division
            (0.88, -0.024, 0),  # -1 / 0
            (0.88, float('nan'), 7.4),
        ]:
            values.append(
                attempt(
                    sy_mod.campbell_1d_az, Fs, z_, zlu, theta_s, psi_s, b, 0.1
                )
            )
            values.append(
                attempt(
                    sy_mod.campbell_1d_az,
                    f64(Fs),
                    f64(z_),
                    f64(zlu),
                    f64(theta_s),
                    f64(psi_s),
                    f64(b),
                    f64(0.1),
                )
            )
            values.append(
                attempt(
                    sy_mod.campbell_1d_az,
                    Fs=Fs,
                    z_=f64(z_),
                    zlu=zlu,
                    theta_s=theta_s,
                    psi_s=psi_s,
                    b=b,
                    sd=None,
                )
            )
    results['campbell'] = values

    # 2. Whole objects: sample parameters and a few synthetic ones
    with open(conftest.get_parameter_file_path('peatclsm'), 'rt') as f:
        sample = yaml.safe_load(f)['specific_yield']
    parsets = [
        dict(sample),
        dict(type='peatclsm', sd=0.05, theta_s=0.95, b=3.0, psi_s=-0.3),
        dict(type='peatclsm', sd=1.7, theta_s=0.2, b=19.5, psi_s=-0.011),
    ]
    grid_mm = np.linspace(-1200.0, 1200.0, 97)
    for n, pars in enumerate(parsets):
        def build(pars=pars):
            sy = sy_mod.create_specific_yield_function(dict(pars))
            return [
                sy.sy_knots,
                sy.zeta_knots_mm,
                sy(grid_mm),
                sy(0.0),
                [sy.integrate(a, b) for a in grid_mm[::8] for b in grid_mm[::12]],
            ]

        results['object{}'.format(n)] = attempt(build)

    # 3. get_Sy_soil directly with synthetic grids (irregular spacing,
    # mismatched lengths, preexisting output contents, bad input)
    sy = sy_mod.create_specific_yield_function(dict(sample))
    rng = np.random.default_rng(7)

    def soil(n_out, zl_, zu_, fill=np.nan):
        out = np.full((n_out,), fill, dtype='float64')
        try:
            ret = sy.get_Sy_soil(out, zl_, zu_)
        except Exception as exc:  # pylint: disable=broad-except
            # Also compare what was written before the failure
            ret = exc
        return [ret, out]

    edges = np.sort(rng.uniform(-1.2, 0.9, 13))
    zl_, zu_ = edges[:-1], edges[1:]
    cases = {
        'irregular': (12, zl_, zu_),
        'regular': (7, np.linspace(-1, 0.2, 7), np.linspace(-0.8, 0.4, 7)),
        'short_out': (5, zl_, zu_),
        'long_out': (15, zl_, zu_),
        'empty': (0, zl_[:0], zu_[:0]),
        'empty_grid': (4, zl_[:0], zu_[:0]),
        'one': (1, zl_[:1], zu_[:1]),
        'broadcast_zu': (12, zl_, zu_[-1:]),
        'broadcast_zl': (12, zl_[:1], zu_),
        'zero_thickness': (3, np.array([0.0, 0.1, 0.2]), np.array([0.1, 0.1, 0.3])),
        'lists': (2, [0.0, 0.1], [0.1, 0.2]),
        'mismatch': (3, zl_[:3], zu_[:4]),
        'float32': (4, zl_[:4].astype('float32'), zu_[:4].astype('float32')),
    }
    for name, (n_out, lo, hi) in cases.items():
        results['soil:' + name] = attempt(soil, n_out, lo, hi)
    results['soil:none'] = attempt(sy.get_Sy_soil, None, zl_[:0], zu_[:0])
    results['soil:none2'] = attempt(sy.get_Sy_soil, None, zl_, zu_)
    results['soil:list_out'] = attempt(
        lambda: (lambda out: [sy.get_Sy_soil(out, zl_[:3], zu_[:3]), out])(
            [0.0, 0.0, 0.0]
        )
    )
    return results


if __name__ == '__main__':
    dc_common.run(2, __file__)
