"""Differential check of refactor2.diff (shared INSERT helpers)

Runs spowtd.rise.find_rise_offsets / compute_rise_offsets and
spowtd.recession.find_recession_offsets / compute_offsets on both sample data
sets and on synthetic records, with no reference level, with reference levels
on the grid (crossed / nearly on grid / integer / not crossed), off the grid,
without a zeta grid and without any series; compares outcomes, exceptions and
the full contents of the four populated tables between the unmodified and the
refactored package.
"""

import diff_harness


def worker():
    return diff_harness.assembly_scenarios()


if __name__ == '__main__':
    diff_harness.main(__file__, 'refactor2.diff', worker)
