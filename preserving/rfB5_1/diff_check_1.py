"""Differential check for refactor1: load.load_data and
load.generate_timestamped_rows."""
import os
import sys

sys.path.insert(0, os.path.dirname(os.path.abspath(__file__)))
import dc_common  # noqa: E402
from dc_common import attempt, dump_db  # noqa: E402


def worker():
    import datetime
    import io
    import sqlite3

    import pytz

    import spowtd.load as load_mod

    sample_dir = os.path.join(
        os.path.dirname(load_mod.__file__), 'test', 'sample_data'
    )
    results = {}

    def run_load(precip, et, zeta, tz_name='Africa/Lagos', pre=None):
        connection = sqlite3.connect(':memory:')
        if pre:
            connection.executescript(pre)
        outcome = attempt(
            lambda: load_mod.load_data(
                connection, precip, et, zeta, tz_name
            )
        )
        # What is visible to this connection, and what was committed
        state = dump_db(connection)
        in_transaction = connection.in_transaction
        connection.rollback()
        return (outcome, state, in_transaction, dump_db(connection))

    for sample in (1, 2):
        files = [
            open(
                os.path.join(sample_dir, f'{name}_{sample}.txt'),
                'rt',
                encoding='utf-8-sig',
            )
            for name in ('precipitation', 'evapotranspiration', 'water_level')
        ]
        results[f'sample{sample}'] = run_load(*files)
        for f in files:
            f.close()

    def series(start_hour, n, step_min=60, value=lambda i: i * 0.5, hdr='Datetime,v'):
        t0 = datetime.datetime(2015, 3, 1, start_hour)
        lines = [hdr]
        for i in range(n):
            t = t0 + datetime.timedelta(minutes=step_min * i)
            lines.append(f'{t:%Y-%m-%d %H:%M:%S},{value(i)}')
        return '\n'.join(lines) + '\n'

    def sio(text):
        return io.StringIO(text)

    good_p = series(0, 48)
    good_e = series(0, 60)
    good_z = series(2, 80, step_min=30, value=lambda i: 100 - i * 0.25)
    results['synthetic_ok'] = run_load(sio(good_p), sio(good_e), sio(good_z))
    results['synthetic_ok_tz'] = run_load(
        sio(good_p), sio(good_e), sio(good_z), tz_name='America/New_York'
    )
    # water level with a gap
    gap_z = series(2, 20, 30, lambda i: 50 - i) + series(
        20, 20, 30, lambda i: 70 - i
    ).split('\n', 1)[1]
    results['synthetic_gap'] = run_load(sio(good_p), sio(good_e), sio(gap_z))
    results['populated'] = run_load(
        sio(good_p), sio(good_e), sio(good_z), pre='CREATE TABLE foo (a int);'
    )
    results['bad_header_p'] = run_load(
        sio(series(0, 48, hdr='time,v')), sio(good_e), sio(good_z)
    )
    results['bad_header_e'] = run_load(
        sio(good_p), sio(series(0, 60, hdr='when,v')), sio(good_z)
    )
    results['bad_header_z'] = run_load(
        sio(good_p), sio(good_e), sio(series(2, 80, 30, hdr='x,v'))
    )
    results['empty_p'] = run_load(sio(''), sio(good_e), sio(good_z))
    results['empty_z'] = run_load(sio(good_p), sio(good_e), sio(''))
    results['blank_line'] = run_load(
        sio(good_p + '\n' + '2015-03-04 00:00:00,1\n'), sio(good_e), sio(good_z)
    )
    results['bad_datetime'] = run_load(
        sio(good_p), sio(good_e + '2015/03/09 00:00,1\n'), sio(good_z)
    )
    results['duplicate_time'] = run_load(
        sio(good_p), sio(good_e), sio(good_z + '2015-03-01 02:00:00,1\n')
    )
    results['null_value'] = run_load(
        sio(good_p), sio(good_e), sio(good_z + '2015-03-09 02:00:00\n')
    )
    results['extra_column'] = run_load(
        sio(good_p + '2015-03-09 02:00:00,1,2\n'), sio(good_e), sio(good_z)
    )
    results['missing_et'] = run_load(
        sio(good_p), sio(series(0, 10)), sio(good_z)
    )
    results['nonuniform'] = run_load(
        sio(good_p + '2015-03-03 05:00:00,1\n'), sio(good_e),
        sio(series(2, 120, 30)),
    )
    results['not_iterable_e'] = run_load(sio(good_p), 12, sio(good_z))
    results['bad_tz'] = run_load(
        sio(good_p), sio(good_e), sio(good_z), tz_name='Mars/Olympus'
    )
    results['header_only'] = run_load(
        sio('Datetime,v\n'), sio('Datetime,v\n'), sio('Datetime,v\n')
    )

    # generate_timestamped_rows directly
    lagos = pytz.timezone('Africa/Lagos')

    class HalfSecondTz:
        """Fake time zone with a fractional-second UTC offset"""

        @staticmethod
        def localize(naive):
            return naive.replace(
                tzinfo=datetime.timezone(datetime.timedelta(seconds=0.5))
            )

    class NaiveTz:
        """Fake time zone that leaves datetimes unaware"""

        class _Info(datetime.tzinfo):
            def utcoffset(self, dt):
                return None

        @classmethod
        def localize(cls, naive):
            return naive.replace(tzinfo=cls._Info())

    def gen(rows, tz):
        return attempt(
            lambda: list(load_mod.generate_timestamped_rows(rows, tz))
        )

    rows = [
        ['2013-01-01 00:00:00', '1.0', 'x'],
        ['1900-06-01 12:30:15', '2'],
        ['2013-01-01 00:00:00'],
    ]
    results['gen_ok'] = gen(rows, lagos)
    results['gen_ny'] = gen(rows, pytz.timezone('America/New_York'))
    results['gen_iter'] = gen(iter(rows), pytz.utc)
    results['gen_half'] = gen(rows, HalfSecondTz)
    results['gen_naive'] = gen(rows, NaiveTz)
    results['gen_empty_row'] = gen([rows[0], []], lagos)
    results['gen_tuple_row'] = gen([tuple(rows[0])], lagos)
    results['gen_bad'] = gen([['yesterday', 1]], lagos)
    results['gen_none'] = gen([[None, 1]], lagos)
    results['gen_not_iterable'] = gen(None, lagos)
    results['gen_empty'] = gen([], lagos)
    return results


if __name__ == '__main__':
    dc_common.run(__file__, worker, 1)
