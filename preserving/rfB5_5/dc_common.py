"""Shared driver for the differential checks diff_check_K.py

Each check defines worker() -> dict of picklable results.  run() builds
two copies of the package in a temporary directory (git archive of HEAD,
and the same with refactorK.diff applied), executes the worker in a fresh
interpreter for each copy, and asserts that
every result is exactly equal (strict_eq: container types, dict order,
float bits and array dtypes all have to match).
"""
import os
import pickle
import shutil
import subprocess
import sys
import tempfile

HERE = os.path.dirname(os.path.abspath(__file__))


def build_roots(patch_number, tmp_dir):
    """Extract HEAD twice under tmp_dir; apply refactorK.diff to one copy"""
    roots = {}
    for label in ('orig', 'new'):
        root = os.path.join(tmp_dir, label)
        os.mkdir(root)
        archive = subprocess.check_output(
            ['git', '-C', HERE, 'archive', 'HEAD', 'spowtd']
        )
        subprocess.run(['tar', '-x', '-C', root], input=archive, check=True)
        roots[label] = root
    patch = os.path.join(HERE, f'refactor{patch_number}.diff')
    subprocess.run(
        ['patch', '-p1', '-s', '-d', roots['new'], '-i', patch], check=True
    )
    return roots


def dump_db(connection):
    """Full logical content of the database, in table order"""
    return list(connection.iterdump())


def attempt(func):
    """Outcome of func(): value, or exception type and message"""
    try:
        return ('ok', func())
    except BaseException as exc:  # pylint: disable=broad-except
        return ('exc', type(exc).__name__, str(exc))


def _setup_worker_path():
    root = os.environ['SPOWTD_ROOT']
    sys.path[:] = [root] + [
        entry
        for entry in sys.path
        if not os.path.isdir(os.path.join(entry or '.', 'spowtd'))
    ]
    import spowtd

    assert os.path.dirname(os.path.dirname(spowtd.__file__)) == root, (
        spowtd.__file__
    )


def sample_dir():
    import spowtd

    return os.path.join(
        os.path.dirname(spowtd.__file__), 'test', 'sample_data'
    )


def load_sample(sample, connection=None):
    """In-memory database loaded with sample data set 1 or 2"""
    import sqlite3

    import spowtd.load as load_mod

    if connection is None:
        connection = sqlite3.connect(':memory:')
    files = [
        open(
            os.path.join(sample_dir(), f'{name}_{sample}.txt'),
            'rt',
            encoding='utf-8-sig',
        )
        for name in ('precipitation', 'evapotranspiration', 'water_level')
    ]
    try:
        load_mod.load_data(connection, *files, 'Africa/Lagos')
    finally:
        for data_file in files:
            data_file.close()
    return connection


def strict_eq(a, b):
    """Exact equality: same types, same float bits, same array dtypes"""
    import struct

    import numpy as np

    if type(a) is not type(b):
        return False
    if isinstance(a, np.ndarray):
        return (
            a.dtype == b.dtype
            and a.shape == b.shape
            and (
                a.tolist() == b.tolist()
                if a.dtype == object
                else a.tobytes() == b.tobytes()
            )
        )
    if isinstance(a, np.generic):
        return a.dtype == b.dtype and a.tobytes() == b.tobytes()
    if isinstance(a, float):
        return struct.pack('d', a) == struct.pack('d', b)
    if isinstance(a, dict):
        # Same keys in the same insertion order, same values
        return len(a) == len(b) and all(
            strict_eq(ka, kb) and strict_eq(a[ka], b[kb])
            for ka, kb in zip(a, b)
        )
    if isinstance(a, (list, tuple)):
        return len(a) == len(b) and all(
            strict_eq(xa, xb) for xa, xb in zip(a, b)
        )
    if isinstance(a, (set, frozenset)):
        return a == b
    return a == b


def run(script, worker, patch_number):
    if '--worker' in sys.argv:
        _setup_worker_path()
        results = worker()
        sys.stdout.flush()
        pickle.dump(results, sys.stdout.buffer)
        return
    outputs = {}
    tmp_dir = tempfile.mkdtemp(prefix=f'dc_{patch_number}_', dir=HERE)
    try:
        roots = build_roots(patch_number, tmp_dir)
        assert subprocess.run(
            ['diff', '-rq', roots['orig'], roots['new']],
            stdout=subprocess.DEVNULL,
            check=False,
        ).returncode == 1, 'patch changed nothing?'
        for label, root in roots.items():
            env = dict(os.environ, PYTHONPATH=root, SPOWTD_ROOT=root)
            raw = subprocess.check_output(
                [sys.executable, os.path.abspath(script), '--worker'],
                env=env,
                cwd=tmp_dir,
            )
            outputs[label] = pickle.loads(raw)
    finally:
        shutil.rmtree(tmp_dir)
    orig, new = outputs['orig'], outputs['new']
    assert orig.keys() == new.keys()
    failures = 0
    for key in orig:
        same = strict_eq(orig[key], new[key])
        print(f"{'SAME' if same else 'DIFF'} {key}: {str(orig[key])[:120]}")
        if not same:
            failures += 1
            print('   orig:', str(orig[key])[:600])
            print('   new: ', str(new[key])[:600])
    assert not failures, f'{failures} differing cases'
    print(f'all {len(orig)} cases identical')
