"""Differential check for refactor5: regrid.regrid and
zeta_grid.populate_zeta_grid."""
import os
import sys

sys.path.insert(0, os.path.dirname(os.path.abspath(__file__)))
import dc_common  # noqa: E402
from dc_common import attempt, dump_db  # noqa: E402


def worker():
    import fractions
    import sqlite3
    import types
    import warnings

    import numpy as np

    import spowtd.classify as classify_mod
    import spowtd.load as load_mod
    import spowtd.recession as recession_mod
    import spowtd.regrid as regrid_mod
    import spowtd.rise as rise_mod
    import spowtd.zeta_grid as zeta_grid_mod

    warnings.simplefilter('ignore')
    results = {}

    # ---- populate_zeta_grid, and regrid via recession / rise, on samples
    for sample in (1, 2):
        for interval in (1.0, 2.5, 7):
            connection = dc_common.load_sample(sample)
            classify_mod.classify_intervals(
                connection,
                storm_rain_threshold_mm_h=8.0,
                rising_jump_threshold_mm_h=5.0,
            )
            outcome = attempt(
                lambda: zeta_grid_mod.populate_zeta_grid(connection, interval)
            )
            in_transaction = connection.in_transaction
            if interval == 1.0:
                recession_mod.find_recession_offsets(connection)
                rise_mod.find_rise_offsets(connection)
            results[f'sample{sample}_grid_{interval}'] = (
                outcome, in_transaction, dump_db(connection)
            )

    with open(load_mod.SCHEMA_PATH, 'rt') as schema_file:
        schema = schema_file.read()

    def zg(zeta_values, interval, pre=None):
        connection = sqlite3.connect(':memory:')
        connection.executescript(schema)
        connection.execute('PRAGMA foreign_keys = 0')
        connection.executemany(
            'INSERT INTO water_level (epoch, zeta_mm) VALUES (?, ?)',
            enumerate(zeta_values),
        )
        if pre:
            connection.execute(pre)
        connection.commit()
        outcome = attempt(
            lambda: zeta_grid_mod.populate_zeta_grid(connection, interval)
        )
        state = dump_db(connection)
        in_transaction = connection.in_transaction
        connection.rollback()
        return (outcome, in_transaction, state, dump_db(connection))

    zetas = [-312.25, -17.5, 3.0, 44.75, -100.0]
    for name, interval in (
        ('one', 1.0), ('int', 5), ('small', 0.3), ('huge', 1e4),
        ('negative', -2.0), ('bool', True), ('npfloat', np.float64(2.5)),
        ('npint', np.int64(3)), ('npf32', np.float32(2.5)),
        ('zero', 0), ('zero_float', 0.0), ('npzero', np.float64(0.0)),
        ('nan', float('nan')), ('inf', float('inf')), ('none', None),
        ('string', '2'), ('bytes', b'2'), ('list', [2]),
        ('fraction', fractions.Fraction(5, 2)), ('complex', 2j),
    ):
        results[f'zg_{name}'] = zg(zetas, interval)
    results['zg_exact_multiples'] = zg([-10.0, 20.0], 5.0)
    results['zg_single_value'] = zg([12.0], 5.0)
    results['zg_single_noninteger'] = zg([12.5], 5.0)
    results['zg_empty'] = zg([], 1.0)
    results['zg_text_zeta'] = zg(['abc', 'abd'], 1.0)
    results['zg_already_populated'] = zg(
        zetas, 1.0, pre='INSERT INTO zeta_grid (grid_interval_mm) VALUES (3)'
    )
    results['zg_discrete_exists'] = zg(
        zetas, 1.0, pre='INSERT INTO discrete_zeta (zeta_number, zeta_grid) '
        'VALUES (-5, 1)'
    )

    # ---- regrid
    def rg(*args, **kwargs):
        def call():
            generator = regrid_mod.regrid(*args, **kwargs)
            assert isinstance(generator, types.GeneratorType)
            out = list(generator)
            assert all(type(pair) is tuple for pair in out)
            return [
                (type(y).__name__, y, type(x).__name__, x) for y, x in out
            ]

        return attempt(call)

    rng = np.random.default_rng(11)
    x = np.cumsum(rng.uniform(0.1, 2.0, 60))
    y = np.cumsum(rng.normal(0, 1.3, 60))
    for kind in ('linear', 'nearest', 'zero', 'slinear', 'quadratic', 'cubic'):
        results[f'rg_random_{kind}'] = rg(x, y, 1.0, interpolant=kind)
        results[f'rg_random_{kind}_pos'] = rg(x, y, 0.25, kind)
    results['rg_default'] = rg(x, y, 1.0)
    results['rg_step_int'] = rg(x, y, 2)
    results['rg_step_negative'] = rg(x, y, -0.7)
    results['rg_step_big'] = rg(x, y, 1e3)
    results['rg_x_list'] = rg(list(x), y, 1.0)
    results['rg_x_range'] = rg(range(60), y, 1.0)
    results['rg_int_y'] = rg(np.arange(6), np.array([0, 3, -2, -2, 5, 4]), 1)
    results['rg_int_y_exact'] = rg(
        np.arange(6.0), np.array([0.0, 3.0, -2.0, -2.0, 5.0, 4.0]), 1.0
    )
    results['rg_float32'] = rg(
        np.arange(6, dtype='float32'),
        np.array([0.5, 3.25, -2, -2.5, 5, 4], dtype='float32'),
        0.5,
    )
    results['rg_flat'] = rg(np.arange(5.0), np.full(5, 0.5), 1.0)
    results['rg_monotone_down'] = rg(
        np.arange(20.0), np.linspace(9.9, -9.9, 20), 1.0
    )
    results['rg_monotone_up'] = rg(
        np.arange(20.0), np.linspace(-9.9, 9.9, 20), 1.0
    )
    results['rg_two_points'] = rg(np.array([0.0, 1.0]), np.array([0.5, 3.5]), 1)
    results['rg_one_point'] = rg(np.array([0.0]), np.array([0.5]), 1)
    results['rg_empty'] = rg(np.array([]), np.array([]), 1.0)
    results['rg_empty_lists'] = rg([], [], 1.0)
    results['rg_unequal'] = rg(np.arange(4.0), np.arange(3.0), 1.0)
    results['rg_nan'] = rg(np.arange(3.0), np.array([0.0, np.nan, 1.0]), 1.0)
    results['rg_inf'] = rg(np.arange(3.0), np.array([0.0, np.inf, 1.0]), 1.0)
    results['rg_zero_step'] = rg(np.arange(3.0), np.array([0.5, 2.0, 1.0]), 0)
    results['rg_y_list'] = rg([0, 1, 2], [0.5, 2.5, 1.0], 1.0)
    results['rg_y_2d'] = rg(np.arange(3.0), np.ones((3, 2)), 1.0)
    results['rg_x_unsorted'] = rg(
        np.array([0.0, 2.0, 1.0, 3.0]), np.array([0.5, 2.5, 1.0, 4.2]), 1.0
    )
    results['rg_x_duplicate'] = rg(
        np.array([0.0, 1.0, 1.0, 3.0]), np.array([0.5, 2.5, 1.0, 4.2]), 1.0
    )
    results['rg_bad_kind'] = rg(x, y, 1.0, 'bogus')
    results['rg_none'] = rg(None, None, 1.0)
    results['rg_step_none'] = rg(x, y, None)
    results['rg_step_array'] = rg(x, y, np.array([1.0, 2.0]))
    return results


if __name__ == '__main__':
    dc_common.run(__file__, worker, 5)
