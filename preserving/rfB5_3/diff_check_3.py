"""Differential check for refactor3: load.populate_water_level."""
import os
import sys

sys.path.insert(0, os.path.dirname(os.path.abspath(__file__)))
import dc_common  # noqa: E402
from dc_common import attempt, dump_db  # noqa: E402


def worker():
    import sqlite3

    import numpy as np

    import spowtd.load as load_mod

    results = {}
    for sample in (1, 2):
        results[f'sample{sample}'] = dump_db(dc_common.load_sample(sample))

    with open(load_mod.SCHEMA_PATH, 'rt') as schema_file:
        schema = schema_file.read()

    def run(zeta, time_grid, grid_rows=None, foreign_keys=True):
        connection = sqlite3.connect(':memory:')
        connection.executescript(schema)
        connection.execute(
            f'PRAGMA foreign_keys = {1 if foreign_keys else 0}'
        )
        connection.executemany(
            'INSERT INTO water_level_staging (epoch, zeta_mm) VALUES (?, ?)',
            zeta,
        )
        if grid_rows is None:
            grid_rows = np.asarray(time_grid).ravel().tolist()
        connection.executemany(
            'INSERT INTO grid_time (epoch) VALUES (?)',
            [(epoch,) for epoch in grid_rows],
        )
        cursor = connection.cursor()
        outcome = attempt(
            lambda: load_mod.populate_water_level(cursor, time_grid)
        )
        return (outcome, dump_db(connection))

    hour = 3600
    t0 = 1425168000
    rng = np.random.default_rng(20)

    def zeta_series(start, n, step=1800):
        return [
            (start + i * step, float(v))
            for i, v in enumerate(rng.normal(-200, 50, size=n))
        ]

    grid = [t0 + i * hour for i in range(49)]
    no_gap = zeta_series(t0 - hour, 120)
    one_gap = zeta_series(t0 - hour, 30) + zeta_series(t0 + 20 * hour, 70)
    three_gaps = (
        zeta_series(t0, 10)
        + zeta_series(t0 + 8 * hour, 10)
        + zeta_series(t0 + 8 * hour + 10 * 1800 + 60, 14)
        + zeta_series(t0 + 30 * hour + 7, 50)
    )
    gap_on_grid = zeta_series(t0, 11) + zeta_series(t0 + 9 * hour, 90)
    results['no_gap'] = run(no_gap, grid)
    results['no_gap_array'] = run(no_gap, np.array(grid))
    results['no_gap_tuple'] = run(no_gap, tuple(grid))
    results['no_gap_int32'] = run(
        [(i * 1800, float(i)) for i in range(100)],
        np.arange(0, 40 * hour, hour, dtype='int32'),
    )
    results['one_gap'] = run(one_gap, grid)
    results['three_gaps'] = run(three_gaps, grid)
    results['gap_on_grid'] = run(gap_on_grid, grid)
    results['zeta_inside_grid'] = run(zeta_series(t0 + 5 * hour, 20), grid)
    results['zeta_outside_grid'] = run(zeta_series(t0 + 500 * hour, 20), grid)
    results['gap_covers_grid'] = run(
        zeta_series(t0 - 10 * hour, 5) + zeta_series(t0 + 100 * hour, 5), grid
    )
    results['irregular'] = run(
        [(t0 + int(dt), float(dt)) for dt in np.cumsum(rng.integers(1, 9, 40)) * 900],
        grid,
    )
    results['two_rows'] = run(zeta_series(t0, 2, step=10 * hour), grid)
    results['one_row'] = run(zeta_series(t0, 1), grid)
    results['no_rows'] = run([], grid)
    results['float_zeta_ints'] = run([(t0 + i * hour, i) for i in range(30)], grid)
    results['grid_two'] = run(no_gap, grid[:2])
    results['grid_one'] = run(no_gap, grid[:1])
    results['grid_empty'] = run(no_gap, [])
    results['grid_float'] = run(no_gap, [float(t) for t in grid])
    results['grid_scalar'] = run(no_gap, t0, grid_rows=[t0])
    results['grid_2d'] = run(one_gap, np.array(grid[:48]).reshape(24, 2))
    results['grid_2d_single_column'] = run(
        one_gap, np.array(grid[:48]).reshape(48, 1)
    )
    results['grid_unsorted'] = run(one_gap, grid[::-1])
    results['grid_duplicates'] = run(
        one_gap, sorted(grid + grid[:3]), grid_rows=grid
    )
    results['grid_not_in_table'] = run(one_gap, grid, grid_rows=grid[:10])
    results['grid_not_in_table_no_fk'] = run(
        one_gap, grid, grid_rows=grid[:10], foreign_keys=False
    )
    results['grid_none'] = run(one_gap, None, grid_rows=[])
    results['grid_strings'] = run(one_gap, ['a', 'b'], grid_rows=[])
    return results


if __name__ == '__main__':
    dc_common.run(__file__, worker, 3)
