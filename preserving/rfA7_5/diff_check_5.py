"""Differential check of refactor5.diff: original vs refactored package

Materialises spowtd/ from HEAD twice (one copy patched), runs the same
scenarios on both through recording cursor proxies and requires identical
statement results (float bit patterns), warnings, outcomes, transaction
state and typed database dumps (before and after rollback).
"""
import importlib
import os
import re
import shutil
import sqlite3
import subprocess
import sys
import tempfile
import types
import warnings

import numpy as np

HERE = os.path.dirname(os.path.abspath(__file__))
MODULES = ("load", "classify", "zeta_grid", "rise")


# ---------------------------------------------------------------------------
# Two copies of the package: HEAD, and HEAD + the patch under test
# ---------------------------------------------------------------------------
def materialize(patch_name=None):
    """Extract spowtd/ from HEAD into a scratch dir, optionally patched"""
    root = tempfile.mkdtemp(prefix="dc_tmp_", dir=HERE)
    archive = subprocess.run(
        ["git", "-C", HERE, "archive", "HEAD", "spowtd"],
        check=True,
        capture_output=True,
    ).stdout
    subprocess.run(["tar", "-x", "-C", root], input=archive, check=True)
    if patch_name is not None:
        subprocess.run(
            ["patch", "-p1", "-s", "-d", root, "-i", os.path.join(HERE, patch_name)],
            check=True,
        )
    return root


def _purge():
    for name in [n for n in sys.modules if n == "spowtd" or n.startswith("spowtd.")]:
        del sys.modules[name]


def load_package(root):
    """Import the copy of spowtd under root, independent of any other copy"""
    _purge()
    sys.path.insert(0, root)
    try:
        mods = {
            name: importlib.import_module("spowtd." + name) for name in MODULES
        }
    finally:
        sys.path.remove(root)
        _purge()
    for mod in mods.values():
        assert mod.__file__.startswith(root + os.sep), mod.__file__
    pkg = types.SimpleNamespace(**mods)
    pkg.root = root
    with open(os.path.join(root, "spowtd", "schema.sql"), "rt") as schema_file:
        pkg.schema = schema_file.read()
    return pkg


# ---------------------------------------------------------------------------
# Exact comparison of values
# ---------------------------------------------------------------------------
def typed(value):
    """Storage class + exact value (bit pattern for floats)"""
    if isinstance(value, float):
        return ("float", value.hex())
    if isinstance(value, (np.floating,)):
        return ("npfloat", str(value.dtype), float(value).hex())
    if isinstance(value, (np.integer, np.bool_)):
        return ("np", str(value.dtype), int(value))
    if isinstance(value, np.ndarray):
        return ("array", str(value.dtype), value.shape, value.tobytes())
    if isinstance(value, (tuple, list)):
        return (type(value).__name__, tuple(typed(v) for v in value))
    return (type(value).__name__, value)


def typed_rows(rows):
    return [tuple(typed(v) for v in row) for row in rows]


def dump(connection):
    """Every table and view, rows in natural order, exactly typed"""
    cursor = connection.cursor()
    names = cursor.execute(
        "SELECT name FROM sqlite_master WHERE type IN ('table', 'view') "
        "ORDER BY name"
    ).fetchall()
    out = {}
    for (name,) in names:
        out[name] = typed_rows(
            cursor.execute('SELECT * FROM "{}"'.format(name)).fetchall()
        )
    cursor.close()
    return out


# ---------------------------------------------------------------------------
# Recording proxies: what every statement returned / raised
# ---------------------------------------------------------------------------
def exc_record(exc):
    """Exception class and message; binding errors name the parameter by
    position or by name, which a positional <-> named respelling changes, so
    only that token is normalised"""
    message = re.sub(
        r"Error binding parameter (\d+|'?:\w+'?)",
        "Error binding parameter <P>",
        str(exc),
    )
    return (type(exc).__name__, message)


class RecordingCursor:
    def __init__(self, cursor, log):
        self._cursor = cursor
        self._log = log
        self._rows = None

    def execute(self, sql, params=()):
        try:
            self._cursor.execute(sql, params)
        except Exception as exc:
            self._log.append(("raise",) + exc_record(exc))
            raise
        if self._cursor.description is not None:
            rows = self._cursor.fetchall()
            self._log.append(
                ("rows", len(self._cursor.description), typed_rows(rows))
            )
            self._rows = list(rows)
        else:
            self._log.append(("write", self._cursor.rowcount))
            self._rows = []
        return self

    def executemany(self, sql, seq_of_params):
        try:
            self._cursor.executemany(sql, seq_of_params)
        except Exception as exc:
            self._log.append(("raise",) + exc_record(exc))
            raise
        self._log.append(("writemany", self._cursor.rowcount))
        self._rows = []
        return self

    def __iter__(self):
        rows, self._rows = self._rows, []
        return iter(rows)

    def fetchall(self):
        rows, self._rows = self._rows, []
        return rows

    def fetchone(self):
        return self._rows.pop(0) if self._rows else None

    def close(self):
        self._log.append(("close",))
        self._cursor.close()


class RecordingConnection:
    def __init__(self, connection, log):
        self._connection = connection
        self._log = log

    def cursor(self):
        return RecordingCursor(self._connection.cursor(), self._log)

    def execute(self, sql, params=()):
        return self.cursor().execute(sql, params)

    def commit(self):
        self._log.append(("commit", self._connection.in_transaction))
        self._connection.commit()

    def rollback(self):
        self._connection.rollback()


# ---------------------------------------------------------------------------
# Databases
# ---------------------------------------------------------------------------
def sample_db(pkg, sample):
    """Database loaded from the sample data by this copy of the package"""
    connection = sqlite3.connect(":memory:")
    data_dir = os.path.join(pkg.root, "spowtd", "test", "sample_data")

    def path(kind):
        return os.path.join(data_dir, "{}_{}.txt".format(kind, sample))

    with open(path("precipitation"), "rt", encoding="utf-8-sig") as precip_f, open(
        path("evapotranspiration"), "rt", encoding="utf-8-sig"
    ) as et_f, open(path("water_level"), "rt", encoding="utf-8-sig") as zeta_f:
        pkg.load.load_data(
            connection=connection,
            precipitation_data_file=precip_f,
            evapotranspiration_data_file=et_f,
            water_level_data_file=zeta_f,
            time_zone_name="Africa/Lagos",
        )
    return connection


def synthetic_db(
    pkg,
    rain,
    zeta,
    labels,
    time_step_s=1800,
    t0=1356998400,
    with_time_grid=True,
    epochs=None,
    foreign_keys=True,
):
    """Database built by hand on this copy's schema

    rain[i]:   intensity on [epoch[i], epoch[i + 1]) or None (no row)
    zeta[i]:   water level at epoch[i] or None (no row)
    labels[i]: data_interval of epoch[i] or None (NULL)
    There is one more grid time than len(rain); zeta / labels may cover it.
    """
    connection = sqlite3.connect(":memory:")
    cursor = connection.cursor()
    cursor.executescript(pkg.schema)
    cursor.execute("PRAGMA foreign_keys = {}".format(int(foreign_keys)))
    n_steps = len(rain)
    if epochs is None:
        epochs = [t0 + i * time_step_s for i in range(n_steps + 1)]
    if with_time_grid:
        cursor.execute(
            "INSERT INTO time_grid (source_time_zone, time_step_s) VALUES (?, ?)",
            ("UTC", time_step_s),
        )
    for i, epoch in enumerate(epochs):
        label = labels[i] if i < len(labels) else None
        cursor.execute(
            "INSERT INTO grid_time (epoch, data_interval) VALUES (?, ?)",
            (epoch, label),
        )
    for i in range(n_steps):
        if rain[i] is not None:
            cursor.execute(
                "INSERT INTO rainfall_intensity "
                "(from_epoch, thru_epoch, rainfall_intensity_mm_h) "
                "VALUES (?, ?, ?)",
                (epochs[i], epochs[i + 1], rain[i]),
            )
    for i, level in enumerate(zeta):
        if level is not None:
            cursor.execute(
                "INSERT INTO water_level (epoch, zeta_mm) VALUES (?, ?)",
                (epochs[i], level),
            )
    cursor.close()
    connection.commit()
    return connection


def random_series(seed, n_steps=240, n_intervals=2, storm_every=17):
    """A rain / water-level series with storms, rises and gaps

    Returns (rain, zeta, labels) for synthetic_db.  The series is split
    into n_intervals data intervals separated by unlabelled gaps that
    have rain but no water level.
    """
    rng = np.random.default_rng(seed)
    rain = np.zeros(n_steps)
    zeta = np.zeros(n_steps + 1)
    level = -300.0 + 50 * rng.random()
    position = 3
    while position < n_steps - 6:
        length = int(rng.integers(1, 4))
        intensity = 6.0 + 30.0 * rng.random(length)
        rain[position : position + length] = intensity
        if rng.random() < 0.25:
            # drizzle just before the storm
            rain[position - 1] = 0.5 * rng.random()
        position += length + int(rng.integers(storm_every // 2, storm_every))
    for i in range(n_steps):
        zeta[i] = level
        if rain[i] > 4.0:
            level += rain[i] * (0.5 * 3.0) * (0.8 + 0.4 * rng.random())
        else:
            level -= 0.3 * rng.random()
        if rng.random() < 0.02:
            # a mystery jump
            level += 9.0
    zeta[n_steps] = level
    labels = [None] * (n_steps + 1)
    bounds = np.linspace(0, n_steps + 1, n_intervals + 1).astype(int)
    for k in range(n_intervals):
        start = bounds[k] + (2 if k else 0)
        stop = bounds[k + 1] - (2 if k < n_intervals - 1 else 0)
        for i in range(start, stop):
            labels[i] = k + 1
    zeta_list = [
        float(zeta[i]) if labels[i] is not None and i < n_steps else None
        for i in range(n_steps + 1)
    ]
    rain_list = [float(r) for r in rain]
    return rain_list, zeta_list, labels


# ---------------------------------------------------------------------------
# Scenario runner
# ---------------------------------------------------------------------------
def run_scenario(pkg, build, action):
    """Build a database, run action(pkg, recording connection), record all"""
    connection = build(pkg)
    log = []
    recording = RecordingConnection(connection, log)
    with warnings.catch_warnings(record=True) as caught:
        warnings.simplefilter("always")
        try:
            result = action(pkg, recording)
            outcome = ("returned", typed(result) if result is not None else None)
        except Exception as exc:  # pylint: disable=broad-except
            outcome = ("raised",) + exc_record(exc)
    record = {
        "warnings": [(w.category.__name__, str(w.message)) for w in caught],
        "log": log,
        "outcome": outcome,
        "in_transaction": connection.in_transaction,
        "dump_before_rollback": dump(connection),
    }
    connection.rollback()
    record["dump_after_rollback"] = dump(connection)
    connection.close()
    return record


def compare(name, scenarios, patch_name, expect=None):
    """Run every scenario on both copies and require identical records"""
    roots = [materialize(None), materialize(patch_name)]
    try:
        original, refactored = (load_package(root) for root in roots)
        with open(os.path.join(HERE, patch_name), "rt") as patch_file:
            assert patch_file.read().strip(), "empty patch"
        failures = 0
        for label, build, action in scenarios:
            record_a = run_scenario(original, build, action)
            record_b = run_scenario(refactored, build, action)
            same = record_a == record_b
            n_rows = sum(
                len(entry[2]) for entry in record_a["log"] if entry[0] == "rows"
            )
            n_written = sum(
                len(rows) for rows in record_a["dump_before_rollback"].values()
            )
            print(
                "{:4s} {:58s} {} (rows read {}, rows in db {}, in txn {})".format(
                    "ok" if same else "FAIL",
                    label,
                    record_a["outcome"][:2]
                    if record_a["outcome"][0] == "raised"
                    else "returned",
                    n_rows,
                    n_written,
                    record_a["in_transaction"],
                )
            )
            if expect is not None and label in expect:
                assert record_a["outcome"][:2] == expect[label], (
                    label,
                    record_a["outcome"],
                )
            if not same:
                failures += 1
                for key in record_a:
                    if record_a[key] != record_b[key]:
                        print("   differs in", key)
                        if key == "outcome":
                            print("    ", record_a[key], record_b[key])
        assert not failures, "{} scenario(s) differ".format(failures)
        print("{}: all {} scenarios identical".format(name, len(scenarios)))
    finally:
        for root in roots:
            shutil.rmtree(root, ignore_errors=True)


# ---------------------------------------------------------------------------
# Scenarios shared by the checks of the classification statements
# ---------------------------------------------------------------------------
def act_classify(storm=4.0, jump=8.0, times=1, **kwargs):
    def action(pkg, connection):
        for _ in range(times):
            if kwargs.get("defaults"):
                pkg.classify.classify_intervals(connection)
            else:
                pkg.classify.classify_intervals(connection, storm, jump)

    return action


def act_interstorms(data_interval, jump=8.0, times=1):
    def action(pkg, connection):
        cursor = connection.cursor()
        for _ in range(times):
            pkg.classify.classify_interstorms(cursor, data_interval, jump)

    return action


def act_match(data_interval, storm=4.0, jump=8.0, times=1):
    def action(pkg, connection):
        cursor = connection.cursor()
        for _ in range(times):
            pkg.classify.match_all_storms(cursor, data_interval, storm, jump)

    return action


def act_populate(data_interval, storm=4.0, jump_interstorm=8.0, jump_match=8.0):
    """classify_interstorms then match_all_storms, thresholds may differ"""

    def action(pkg, connection):
        cursor = connection.cursor()
        pkg.classify.classify_interstorms(cursor, data_interval, jump_interstorm)
        pkg.classify.match_all_storms(cursor, data_interval, storm, jump_match)

    return action


def build_sample(sample):
    return lambda pkg: sample_db(pkg, sample)


def build_random(seed, **kwargs):
    series_kwargs = {
        key: kwargs.pop(key)
        for key in ("n_steps", "n_intervals", "storm_every")
        if key in kwargs
    }
    rain, zeta, labels = random_series(seed, **series_kwargs)
    return lambda pkg: synthetic_db(pkg, rain, zeta, labels, **kwargs)


def conflict_series():
    """Interstorm and rise start at the same instant if thresholds differ

    Drizzle at 2, dry at 3 and 4, heavy rain at 5; head rises over
    3->4->5->6.  With a huge interstorm jump threshold [3, 4] is an
    interstorm; with a small matching threshold the rise starts at 3.
    """
    rain = [0.0, 0.0, 1.0, 0.0, 0.0, 20.0, 0.0, 0.0, 0.0, 0.0]
    zeta = [-100.0, -100.5, -101.0, -101.5, -95.0, -88.0, -80.0, -80.5, -81.0, -81.5]
    labels = [1] * 11
    return rain, zeta + [None], labels


def build_conflict(**kwargs):
    rain, zeta, labels = conflict_series()
    return lambda pkg: synthetic_db(pkg, rain, zeta, labels, **kwargs)


def build_custom(rain, zeta, labels, **kwargs):
    return lambda pkg: synthetic_db(pkg, rain, zeta, labels, **kwargs)


def classification_scenarios():
    scenarios = []
    for sample in (1, 2):
        scenarios.append(
            ("sample {} defaults".format(sample), build_sample(sample),
             act_classify(defaults=True))
        )
        scenarios.append(
            ("sample {} thresholds 8 / 5".format(sample), build_sample(sample),
             act_classify(8.0, 5.0))
        )
        scenarios.append(
            ("sample {} thresholds 2.5 / 3 (int-valued 3)".format(sample),
             build_sample(sample), act_classify(2.5, 3))
        )
        scenarios.append(
            ("sample {} classified twice".format(sample), build_sample(sample),
             act_classify(8.0, 5.0, times=2))
        )
    for seed in range(12):
        scenarios.append(
            ("random seed {} full classification".format(seed),
             build_random(seed, n_intervals=1 + seed % 3), act_classify(4.0, 8.0))
        )
    for seed in (100, 101, 102):
        scenarios.append(
            ("random seed {} time step 600 s, thresholds 5 / 20".format(seed),
             build_random(seed, time_step_s=600, n_steps=400, n_intervals=3),
             act_classify(5.0, 20.0))
        )
    for seed in (3, 4):
        for interval in (1, 2, 1.0, "2", 99, None, b"1"):
            scenarios.append(
                ("random seed {} interstorms of interval {!r}".format(seed, interval),
                 build_random(seed), act_interstorms(interval))
            )
            scenarios.append(
                ("random seed {} storms of interval {!r}".format(seed, interval),
                 build_random(seed), act_match(interval))
            )
        scenarios.append(
            ("random seed {} interstorms twice (PK of grid_time_flags)".format(seed),
             build_random(seed), act_interstorms(1, times=2))
        )
        scenarios.append(
            ("random seed {} storms twice (storm already seen)".format(seed),
             build_random(seed), act_match(1, times=2))
        )
        scenarios.append(
            ("random seed {} storms only, foreign keys off".format(seed),
             build_random(seed, foreign_keys=False), act_match(2))
        )
    # Empty and degenerate databases
    scenarios.append(
        ("empty grid", build_custom([], [], []), act_classify())
    )
    scenarios.append(
        ("grid without labelled instants",
         build_custom([0.0, 1.0, 0.0], [-1.0, -2.0, -3.0, None], [None] * 4),
         act_classify())
    )
    scenarios.append(
        ("labelled instants without series rows",
         build_custom([None, None, None], [None] * 4, [1, 1, 2, 2]), act_classify())
    )
    scenarios.append(
        ("single-instant interval",
         build_custom([0.0, None, None], [-1.0, None, None, None], [1, 1, 1, 1]),
         act_classify())
    )
    scenarios.append(
        ("rain rows without water level and the reverse",
         build_custom(
             [0.0, None, 0.0, 12.0, None, 0.0, 0.0, 0.0],
             [-5.0, -5.5, None, -6.0, -1.0, -1.5, -2.0, -2.5, -3.0],
             [1] * 9,
         ),
         act_classify())
    )
    scenarios.append(
        ("no time_grid row",
         build_random(5, with_time_grid=False), act_classify())
    )
    scenarios.append(
        ("nonuniform time steps",
         build_custom(
             [0.0] * 5, [-1.0, -2.0, -3.0, -4.0, -5.0, None], [1] * 6,
             epochs=[0, 1800, 3600, 7200, 9000, 10800],
         ),
         act_classify())
    )
    scenarios.append(
        ("text and real data_interval labels, with duplicates and NULLs",
         build_custom(
             [0.0, 0.0, 9.0, 0.0, 0.0, 0.0, 0.0, 0.0, 0.0],
             [-1.0, -1.5, -2.0, 8.0, 7.5, 7.0, 6.5, 6.0, 5.5, None],
             ["b", "b", "b", None, 2, 2, 2.0, None, 1.5, 1.5],
         ),
         act_classify())
    )
    scenarios.append(
        ("infinite and negative rain, huge levels",
         build_custom(
             [0.0, float("inf"), -1.0, 0.0, 5.0, 0.0],
             [-1.0, -2.0, 1e300, 1e300, 1e300, 1e300, None],
             [1] * 7,
         ),
         act_classify())
    )
    # Interstorm and rise starting at the same instant: PK of zeta_interval
    scenarios.append(
        ("conflicting zeta_interval start (PK failure)", build_conflict(),
         act_populate(1, storm=4.0, jump_interstorm=1e9, jump_match=2.0))
    )
    scenarios.append(
        ("conflicting zeta_interval start, foreign keys off",
         build_conflict(foreign_keys=False),
         act_populate(1, storm=4.0, jump_interstorm=1e9, jump_match=2.0))
    )
    scenarios.append(
        ("conflict series, consistent thresholds", build_conflict(),
         act_populate(1, storm=4.0, jump_interstorm=2.0, jump_match=2.0))
    )
    # Bad thresholds
    scenarios.append(
        ("NULL storm threshold", build_random(1), act_classify(None, 8.0))
    )
    scenarios.append(
        ("NULL jump threshold", build_random(1), act_classify(4.0, None))
    )
    scenarios.append(
        ("both thresholds NULL", build_random(1), act_classify(None, None))
    )
    scenarios.append(
        ("text thresholds", build_random(1), act_classify("4", "8"))
    )
    scenarios.append(
        ("integer thresholds", build_random(1), act_classify(4, 8))
    )
    return scenarios


EXPECT = {
    "sample 1 classified twice": ("raised", "IntegrityError"),
    "empty grid": ("raised", "ValueError"),
    "conflicting zeta_interval start (PK failure)": ("raised", "IntegrityError"),
    "conflict series, consistent thresholds": ("returned", None),
    "NULL storm threshold": ("raised", "IntegrityError"),
    "nonuniform time steps": ("raised", "ValueError"),
    "random seed 3 interstorms twice (PK of grid_time_flags)": (
        "raised", "IntegrityError"),
    "random seed 3 storms twice (storm already seen)": ("raised", "AssertionError"),
    "no time_grid row": ("raised", "TypeError"),
}


PLOT_RISE_QUERY = """
    SELECT interval_start_epoch AS rise_interval,
           rain_depth_offset_mm / 10 AS storage_cm,
           initial_zeta_mm / 10 AS zeta_cm
    FROM rising_curve_line_segment
    UNION ALL
    SELECT interval_start_epoch AS rise_interval,
           (rain_depth_offset_mm + rain_total_depth_mm) / 10 AS storage_cm,
           final_zeta_mm / 10 AS zeta_cm
    FROM rising_curve_line_segment
    ORDER BY rise_interval, storage_cm"""

VIEW_QUERIES = [
    "SELECT * FROM storm_total_rain_depth",
    "SELECT storm_start_epoch, total_depth_mm, typeof(total_depth_mm) "
    "FROM storm_total_rain_depth",
    "SELECT total_depth_mm FROM storm_total_rain_depth "
    "ORDER BY total_depth_mm DESC, storm_start_epoch",
    "SELECT * FROM storm_total_rain_depth ORDER BY storm_start_epoch DESC",
    "SELECT count(*), count(total_depth_mm), min(total_depth_mm), "
    "max(total_depth_mm), sum(total_depth_mm) FROM storm_total_rain_depth",
    "SELECT s.start_epoch, s.thru_epoch, d.total_depth_mm FROM storm AS s "
    "LEFT JOIN storm_total_rain_depth AS d ON d.storm_start_epoch = s.start_epoch",
    "SELECT * FROM storm_total_rain_depth WHERE total_depth_mm > 1 "
    "AND storm_start_epoch % 2 = 0",
    "SELECT * FROM rising_curve_line_segment",
    PLOT_RISE_QUERY,
]


def query_view(pkg, connection):
    """Every use of the view: whole, per storm as rise.py does, via views"""
    cursor = connection.cursor()
    for query in VIEW_QUERIES:
        cursor.execute(query).fetchall()
    starts = [row[0] for row in cursor.execute("SELECT start_epoch FROM storm")]
    for start in starts + [-1, None, "x", 1.5]:
        cursor.execute(
            """
        SELECT total_depth_mm
        FROM storm_total_rain_depth
        WHERE storm_start_epoch = :storm_start_epoch""",
            {"storm_start_epoch": start},
        ).fetchone()


def act_rise(storm, jump, reference=None, grid=1.0):
    def action(pkg, connection):
        pkg.classify.classify_intervals(connection, storm, jump)
        pkg.zeta_grid.populate_zeta_grid(connection, grid_interval_mm=grid)
        pkg.rise.find_rise_offsets(connection, reference)
        query_view(pkg, connection)

    return action


def act_classify_then_query(storm, jump):
    def action(pkg, connection):
        pkg.classify.classify_intervals(connection, storm, jump)
        query_view(pkg, connection)

    return action


def storm_db(seed, n_steps=300, uniform=True, foreign_keys=True, wild=True,
             special=None):
    """Hand-made storms over a rainfall series whose sum is order-sensitive"""
    rng = np.random.default_rng(seed)
    if uniform:
        widths = [1800] * n_steps
    else:
        widths = [int(w) for w in rng.integers(1, 7200, n_steps)]
    epochs = [1000]
    for width in widths:
        epochs.append(epochs[-1] + width)
    if wild:
        rain = [
            float(rng.random() * 10.0 ** int(rng.integers(-8, 9)))
            for _ in range(n_steps)
        ]
    else:
        rain = [float(rng.random() * 30) for _ in range(n_steps)]
    if special is not None:
        for index, value in special.items():
            rain[index] = value
    storms = []
    position = 1
    while position < n_steps - 45:
        length = int(rng.integers(1, 40))
        storms.append((position, position + length))
        position += length + int(rng.integers(0, 4))
    offsets = [float(rng.random()) for _ in storms]

    def build(pkg):
        connection = sqlite3.connect(":memory:")
        cursor = connection.cursor()
        cursor.executescript(pkg.schema)
        cursor.execute("PRAGMA foreign_keys = {}".format(int(foreign_keys)))
        cursor.executemany(
            "INSERT INTO grid_time VALUES (?, 1)", [(e,) for e in epochs]
        )
        cursor.executemany(
            "INSERT INTO rainfall_intensity VALUES (?, ?, ?)",
            [(epochs[i], epochs[i + 1], rain[i]) for i in range(n_steps)],
        )
        cursor.executemany(
            "INSERT INTO water_level VALUES (?, ?)",
            [(e, float(i)) for i, e in enumerate(epochs)],
        )
        for k, (start, stop) in enumerate(storms):
            cursor.execute(
                "INSERT INTO storm VALUES (?, ?)", (epochs[start], epochs[stop])
            )
            if k % 5 != 4:
                # most storms are matched to a rise and get an offset
                cursor.execute(
                    "INSERT INTO zeta_interval VALUES (?, 'storm', ?)",
                    (epochs[start], epochs[stop]),
                )
                cursor.execute(
                    "INSERT INTO zeta_interval_storm VALUES (?, 'storm', ?)",
                    (epochs[start], epochs[start]),
                )
                cursor.execute(
                    "INSERT INTO rising_interval VALUES (?, 'storm', ?)",
                    (epochs[start], offsets[k]),
                )
        if not foreign_keys:
            # Storms that are off the grid: between steps, beyond the series,
            # covering no whole step, and one over everything
            cursor.execute("INSERT INTO storm VALUES (?, ?)", (epochs[5] + 1, epochs[9] - 1))
            cursor.execute("INSERT INTO storm VALUES (?, ?)", (epochs[-1] + 10, epochs[-1] + 20))
            cursor.execute("INSERT INTO storm VALUES (?, ?)", (epochs[20] + 1, epochs[21] + 1))
            cursor.execute("INSERT INTO storm VALUES (?, ?)", (0, epochs[-1] + 1))
            # Overlapping and nested rainfall rows
            cursor.execute(
                "INSERT INTO rainfall_intensity VALUES (?, ?, ?)",
                (epochs[3] + 1, epochs[30], 0.1),
            )
            cursor.execute(
                "INSERT INTO rainfall_intensity VALUES (?, ?, ?)",
                (epochs[2] - 1, epochs[2] + 1, 1e-9),
            )
        cursor.close()
        connection.commit()
        return connection

    build.epochs = epochs
    build.rain = rain
    build.storms = storms
    return build


def order_sensitivity():
    """The data really distinguish accumulation orders, and the view sums the
    steps of a storm in time order in both copies"""
    roots = [materialize(None), materialize("refactor5.diff")]
    try:
        for root in roots:
            pkg = load_package(root)
            differing = 0
            total = 0
            for seed in range(6):
                build = storm_db(seed)
                connection = build(pkg)
                view = dict(
                    connection.execute("SELECT * FROM storm_total_rain_depth")
                )
                for start, stop in build.storms:
                    terms = [
                        build.rain[i] * (build.epochs[i + 1] - build.epochs[i]) / 3600.0
                        for i in range(start, stop)
                    ]
                    forward = 0.0
                    for term in terms:
                        forward += term
                    backward = 0.0
                    for term in reversed(terms):
                        backward += term
                    assert view[build.epochs[start]].hex() == forward.hex()
                    differing += forward.hex() != backward.hex()
                    total += 1
                connection.close()
            assert differing > total // 4, (differing, total)
        print(
            "order sensitivity: {} of {} storm sums depend on the order of "
            "accumulation; both copies sum in time order".format(differing, total)
        )
    finally:
        for root in roots:
            shutil.rmtree(root, ignore_errors=True)


def view_scenarios():
    scenarios = []
    for sample in (1, 2):
        scenarios.append(
            ("sample {} classify 8 / 5, zeta grid, rise offsets".format(sample),
             build_sample(sample), act_rise(8.0, 5.0))
        )
        scenarios.append(
            ("sample {} defaults, grid 2 mm, rise offsets".format(sample),
             build_sample(sample), act_rise(4.0, 8.0, grid=2.0))
        )
        scenarios.append(
            ("sample {} classify 8 / 5, view queries only".format(sample),
             build_sample(sample), act_classify_then_query(8.0, 5.0))
        )
    scenarios.append(
        ("sample 1 rise offsets without zeta grid (ValueError)", build_sample(1),
         lambda pkg, connection: (
             pkg.classify.classify_intervals(connection, 8.0, 5.0),
             pkg.rise.find_rise_offsets(connection),
         ) and None)
    )
    for seed in range(8):
        scenarios.append(
            ("random seed {} classify, zeta grid, rise offsets".format(seed),
             build_random(seed, n_intervals=1 + seed % 2), act_rise(4.0, 8.0))
        )
    for seed in range(6):
        scenarios.append(
            ("storm db seed {} uniform steps, wild magnitudes".format(seed),
             storm_db(seed), query_view)
        )
        scenarios.append(
            ("storm db seed {} nonuniform steps".format(seed),
             storm_db(seed, uniform=False), query_view)
        )
        scenarios.append(
            ("storm db seed {} off-grid storms, overlapping rain rows".format(seed),
             storm_db(seed, uniform=False, foreign_keys=False), query_view)
        )
    scenarios.append(
        ("storm db with +inf and -inf steps (NaN sum -> NULL)",
         storm_db(1, special={3: float("inf"), 5: float("-inf"), 60: float("inf")},
                  wild=False), query_view)
    )
    scenarios.append(
        ("storm db with zero, negative zero and negative steps",
         storm_db(2, special={i: v for i, v in zip(range(1, 200, 3),
                                                     [0.0, -0.0, -1.5] * 70)},
                  wild=False), query_view)
    )
    scenarios.append(
        ("storm db with 1e308 steps (overflow to inf)",
         storm_db(3, special={i: 1.7e308 for i in range(1, 300, 2)}, wild=False),
         query_view)
    )
    scenarios.append(
        ("no storms at all", build_random(0), query_view)
    )
    scenarios.append(
        ("empty database", build_custom([], [], []), query_view)
    )

    def storms_without_rain(pkg):
        connection = synthetic_db(
            pkg, [None] * 6, [0.0] * 7, [1] * 7, t0=0, time_step_s=10
        )
        connection.execute("INSERT INTO storm VALUES (10, 30)")
        connection.execute("INSERT INTO storm VALUES (40, 50)")
        connection.commit()
        return connection

    scenarios.append(("storms but no rainfall rows", storms_without_rain, query_view))
    return scenarios


if __name__ == "__main__":
    order_sensitivity()
    compare(
        "refactor5 (view storm_total_rain_depth)",
        view_scenarios(),
        "refactor5.diff",
        expect={
            "sample 1 classify 8 / 5, zeta grid, rise offsets": ("returned", None),
            "sample 1 rise offsets without zeta grid (ValueError)": (
                "raised", "ValueError"),
            "empty database": ("returned", None),
        },
    )
