"""Differential check for refactor1.diff (rise.compute_rise_offsets)

Runs find_rise_offsets / compute_rise_offsets on both sample data sets and
on synthetic databases reaching every touched branch, against the original
and the refactored package, and compares full database dumps and exception
type + message exactly.

"""

import os
import sys

sys.path.insert(0, os.path.dirname(os.path.abspath(__file__)))
import dc_harness as H  # noqa: E402


def build_results(results, tree):
    import numpy as np
    import spowtd.rise as rise_mod

    def run(connection_factory, reference_zeta_mm=None, mutate=None):
        def func():
            connection = connection_factory()
            if mutate is not None:
                mutate(connection)
            try:
                rise_mod.find_rise_offsets(connection, reference_zeta_mm)
            except BaseException:
                # Record what was written before the failure, too
                func.partial = H.dump_db(connection)
                raise
            return H.dump_db(connection)

        return func

    def record(name, func):
        H.scenario(results, name, func)
        if results[name][0] == 'exc':
            results[name] = results[name] + (getattr(func, 'partial', None),)

    for sample in (1, 2):
        for grid in (1.0, 2.5, 2, 10.0):
            record(
                'sample{}-grid{}-noref'.format(sample, grid),
                run(lambda s=sample, g=grid: H.classified_connection(tree, s, g)),
            )
        # Find the discrete zetas actually present so as to choose
        # reference values on the grid and in the mapping
        connection = H.classified_connection(tree, sample, 2.5)
        rise_mod.find_rise_offsets(connection)
        numbers = [
            row[0]
            for row in connection.execute(
                'SELECT DISTINCT zeta_number FROM rising_interval_zeta '
                'ORDER BY zeta_number'
            )
        ]
        connection.close()
        assert len(numbers) > 3
        for number in (numbers[0], numbers[len(numbers) // 2], numbers[-1]):
            for ref in (number * 2.5, np.float64(number * 2.5)):
                record(
                    'sample{}-grid2.5-ref{!r}'.format(sample, ref),
                    run(
                        lambda s=sample: H.classified_connection(tree, s, 2.5),
                        reference_zeta_mm=ref,
                    ),
                )
        # Integer reference on a unit grid
        record(
            'sample{}-grid1-intref'.format(sample),
            run(
                lambda s=sample: H.classified_connection(tree, s, 1.0),
                reference_zeta_mm=int(numbers[len(numbers) // 2] * 2.5),
            ),
        )
        # Off-grid reference -> ValueError with formatted message
        for ref in (0.5, -101.3, np.float64(7.25), 1e-3):
            record(
                'sample{}-grid2.5-offgrid{!r}'.format(sample, ref),
                run(
                    lambda s=sample: H.classified_connection(tree, s, 2.5),
                    reference_zeta_mm=ref,
                ),
            )
        # On grid but no series crosses it -> KeyError
        record(
            'sample{}-ref-not-in-mapping'.format(sample),
            run(
                lambda s=sample: H.classified_connection(tree, s, 2.5),
                reference_zeta_mm=250000.0,
            ),
        )
        # Bad reference type
        record(
            'sample{}-ref-string'.format(sample),
            run(
                lambda s=sample: H.classified_connection(tree, s, 2.5),
                reference_zeta_mm='10',
            ),
        )
        # No grid set
        record(
            'sample{}-nogrid'.format(sample),
            run(lambda s=sample: H.classified_connection(tree, s, grid=False)),
        )

        # Loaded, grid set, but not classified: no series
        def loaded_with_grid(s=sample):
            import spowtd.zeta_grid as zeta_grid_mod

            connection = H.loaded_connection(tree, s)
            zeta_grid_mod.populate_zeta_grid(connection, 1.0)
            return connection

        record('sample{}-unclassified'.format(sample), run(loaded_with_grid))

        # Non-finite water level
        def make_inf(connection):
            connection.execute(
                'UPDATE water_level SET zeta_mm = 9e999 '
                'WHERE epoch = (SELECT min(epoch) FROM water_level)'
            )

        record(
            'sample{}-inf-zeta'.format(sample),
            run(
                lambda s=sample: H.classified_connection(tree, s),
                mutate=make_inf,
            ),
        )

        # Not strictly increasing within a rising interval
        def make_flat(connection):
            connection.execute(
                """
            UPDATE water_level
            SET zeta_mm = (SELECT zeta_mm FROM water_level AS w
                           WHERE w.epoch = (
                             SELECT zi.start_epoch
                             FROM zeta_interval AS zi
                             JOIN zeta_interval_storm AS zis
                               ON zis.interval_start_epoch = zi.start_epoch
                             ORDER BY zi.start_epoch LIMIT 1))
            WHERE epoch = (SELECT zi.thru_epoch
                           FROM zeta_interval AS zi
                           JOIN zeta_interval_storm AS zis
                             ON zis.interval_start_epoch = zi.start_epoch
                           ORDER BY zi.start_epoch LIMIT 1)"""
            )

        record(
            'sample{}-not-increasing'.format(sample),
            run(
                lambda s=sample: H.classified_connection(tree, s),
                mutate=make_flat,
            ),
        )

        # Boundary epochs missing from water_level -> IndexError from the
        # index look-up (each of the four look-ups in turn)
        for column, table in (
            ('start_epoch', 'storm'),
            ('thru_epoch', 'storm'),
            ('start_epoch', 'zeta_interval'),
            ('thru_epoch', 'zeta_interval'),
        ):

            def drop_epoch(connection, column=column, table=table):
                connection.execute('PRAGMA foreign_keys = OFF')
                if table == 'storm':
                    query = (
                        'SELECT {} FROM storm ORDER BY start_epoch '
                        'LIMIT 1 OFFSET 1'
                    ).format(column)
                else:
                    query = (
                        'SELECT zi.{} FROM zeta_interval AS zi '
                        'JOIN zeta_interval_storm AS zis '
                        'ON zis.interval_start_epoch = zi.start_epoch '
                        'ORDER BY zi.start_epoch LIMIT 1 OFFSET 1'
                    ).format(column)
                (value,) = connection.execute(query).fetchone()
                connection.execute(
                    'UPDATE water_level SET epoch = epoch + 1 WHERE epoch = ?',
                    (value,),
                )

            record(
                'sample{}-missing-{}-{}'.format(sample, table, column),
                run(
                    lambda s=sample: H.classified_connection(tree, s),
                    mutate=drop_epoch,
                ),
            )

        # zeta_thru == zeta_start: degenerate interval -> bare assertion
        def make_degenerate(connection):
            connection.execute('PRAGMA foreign_keys = OFF')
            connection.execute(
                """
            UPDATE zeta_interval SET thru_epoch = start_epoch
            WHERE start_epoch = (
              SELECT interval_start_epoch FROM zeta_interval_storm
              ORDER BY 1 LIMIT 1)"""
            )

        record(
            'sample{}-degenerate-interval'.format(sample),
            run(
                lambda s=sample: H.classified_connection(tree, s),
                mutate=make_degenerate,
            ),
        )

    # Schema only: the unpacking of the (empty) water level query fails
    record('empty-db', run(lambda: H.empty_connection(tree)))

    # compute_rise_offsets closes the cursor it is given
    def cursor_closed():
        connection = H.classified_connection(tree, 1)
        cursor = connection.cursor()
        rise_mod.compute_rise_offsets(cursor, None)
        try:
            cursor.execute('SELECT 1')
        except Exception as exc:  # pylint: disable=broad-except
            return (type(exc).__name__, str(exc))
        return 'still open'

    record('cursor-closed', cursor_closed)


if __name__ == '__main__':
    H.main(
        os.path.abspath(__file__), 1, H.both_foreign_key_modes(build_results)
    )
