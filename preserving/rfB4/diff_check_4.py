"""Differential check for refactor4.diff (spowtd/fit_offsets.py: find_offsets
assembles the least-squares system block-wise per head instead of copying a
row template row by row).

Usage: cd /tmp/rf_B && /venv/bin/python diff_check_4.py
"""

import copy
import logging
import warnings

import numpy as np

import dc_common


class ListHandler(logging.Handler):
    """Collect formatted log messages"""

    def __init__(self):
        super().__init__(level=logging.DEBUG)
        self.messages = []

    def emit(self, record):
        self.messages.append((record.levelname, record.getMessage()))


def with_log(func, *args):
    """Outcome of func(*args) and the spowtd log messages it emitted"""
    handler = ListHandler()
    logger = logging.getLogger('spowtd')
    logger.setLevel(logging.DEBUG)
    logger.addHandler(handler)
    try:
        result = dc_common.outcome(func, *args)
    finally:
        logger.removeHandler(handler)
    return (result, handler.messages)


def run_find_offsets(head_mapping):
    """find_offsets mutates its argument; return the mutated mapping too"""
    import spowtd.fit_offsets as fit_offsets_mod

    mapping = copy.deepcopy(head_mapping)
    result = with_log(fit_offsets_mod.find_offsets, mapping)
    return (result, mapping)


def run_series_offsets(series_list, head_step):
    import spowtd.fit_offsets as fit_offsets_mod

    series_copy = [(t.copy(), h.copy()) for t, h in series_list]
    result = with_log(
        fit_offsets_mod.get_series_time_offsets, series_copy, head_step
    )
    return (result, series_copy)


def synthetic_series(rng, count, rising=False):
    """Noisy exponential recessions (or rises) starting at varied heads"""
    series_list = []
    for _ in range(count):
        n = int(rng.integers(5, 80))
        t0 = float(rng.integers(0, 10**6)) * 60.0
        t = t0 + 3600.0 * np.arange(n)
        h0 = rng.uniform(-300.0, 50.0)
        head = h0 - 40.0 * (1 - np.exp(-np.arange(n) / 25.0))
        head = head + rng.normal(0, 0.4, size=n)
        if rising:
            head = head[::-1].copy()
        series_list.append((t, head))
    return series_list


def worker():
    warnings.simplefilter('ignore')
    results = {}
    rng = np.random.default_rng(4242)

    # Hand-written head mappings
    results['two-series'] = run_find_offsets(
        {0: [(0, 10.0), (1, 3.5)], 1: [(0, 20.25), (1, 11.0)]}
    )
    results['three-series-chain'] = run_find_offsets(
        {
            5: [(0, 1.0), (1, 7.0)],
            4: [(0, 2.5), (1, 9.0), (2, 100.125)],
            3: [(1, 12.0), (2, 104.0)],
            2: [(2, 111.0)],
            9: [(0, -3.0)],
        }
    )
    results['reference-absent-from-some-heads'] = run_find_offsets(
        {
            1: [(0, 1.0), (1, 7.0)],
            2: [(0, 2.0), (1, 8.5)],
            3: [(1, 9.0), (3, 1.0)],
            4: [(3, 2.0), (0, 4.0), (1, 11.0)],
        }
    )
    results['string-head-ids-sparse-series-ids'] = run_find_offsets(
        {
            'a': [(10, 1.0), (70, 7.0)],
            'b': [(70, 8.0), (30, 0.5), (10, 2.25)],
            'c': [(30, 1.5), (10, 3.25)],
        }
    )
    results['numpy-scalars'] = run_find_offsets(
        {
            np.int64(3): [(0, np.float64(1.0)), (1, np.float64(7.0))],
            np.int64(2): [(1, np.float64(8.0)), (2, np.float64(0.5))],
            np.int64(1): [(0, np.float64(2.0)), (2, np.float64(1.5))],
        }
    )
    results['ndarray-values'] = run_find_offsets(
        {
            1: np.array([[0, 1.0], [1, 7.0]]),
            2: np.array([[1, 8.0], [2, 0.5], [0, 2.0]]),
            3: np.array([[2, 5.0]]),
        }
    )
    results['duplicate-series-at-head'] = run_find_offsets(
        {1: [(0, 1.0), (0, 2.0), (1, 7.0)], 2: [(0, 3.0), (1, 9.0)]}
    )
    results['only-reference-duplicated'] = run_find_offsets(
        {1: [(4, 1.0), (4, 2.0)]}
    )
    results['reference-duplicated-plus-pair'] = run_find_offsets(
        {1: [(4, 1.0), (4, 2.0)], 2: [(1, 5.0), (4, 2.5)]}
    )
    results['disconnected-singular'] = run_find_offsets(
        {1: [(0, 1.0), (1, 2.0)], 2: [(2, 1.0), (3, 2.0)]}
    )
    results['tuple-values'] = run_find_offsets(
        {1: ((0, 1.0), (1, 2.0)), 2: ((0, 4.0), (1, 7.0))}
    )
    # Error paths
    results['empty-mapping'] = run_find_offsets({})
    results['all-singletons'] = run_find_offsets(
        {1: [(0, 1.0)], 2: [(1, 2.0)]}
    )
    results['empty-sequence'] = run_find_offsets({1: [], 2: [(0, 1.0)]})
    results['triples'] = run_find_offsets(
        {1: [(0, 1.0, 5), (1, 2.0, 6)], 2: [(0, 4.0, 1), (1, 7.0, 2)]}
    )
    results['mixed-id-types'] = run_find_offsets(
        {1: [(0, 1.0), ('x', 2.0)], 2: [(0, 4.0), ('x', 7.0)]}
    )
    results['non-numeric-time'] = run_find_offsets(
        {1: [(0, 1.0), (1, 'late')], 2: [(0, 4.0), (1, 7.0)]}
    )
    results['nan-time'] = run_find_offsets(
        {1: [(0, 1.0), (1, np.nan)], 2: [(0, 4.0), (1, 7.0)]}
    )
    results['not-a-mapping'] = run_find_offsets([(0, 1.0)])

    # Random head mappings
    for case in range(25):
        n_series = int(rng.integers(2, 12))
        n_heads = int(rng.integers(1, 40))
        mapping = {}
        for head_id in rng.permutation(n_heads).tolist():
            size = int(rng.integers(1, n_series + 1))
            members = sorted(
                rng.choice(n_series, size=size, replace=False).tolist()
            )
            mapping[head_id - 7] = [
                (series_id, float(rng.normal(1e4, 3e3))) for series_id in members
            ]
        results['random-mapping-{}'.format(case)] = run_find_offsets(mapping)

    # Synthetic series through the whole module
    for case in range(8):
        series_list = synthetic_series(
            rng, int(rng.integers(1, 14)), rising=bool(case % 2)
        )
        for head_step in (1.0, 2.5):
            results['synthetic-series-{}-{}'.format(case, head_step)] = (
                run_series_offsets(series_list, head_step)
            )

    # Sample data
    for sample in (1, 2):
        series_list = dc_common.interstorm_series(sample)
        for head_step in (1.0, 0.5, 5.0):
            results['sample{}-interstorm-{}'.format(sample, head_step)] = (
                run_series_offsets(series_list, head_step)
            )
        results['sample{}-rise-recession'.format(sample)] = (
            dc_common.rise_and_recession(sample)
        )
    results['sample2-rise-recession-2mm-ref'] = dc_common.rise_and_recession(
        2, grid_interval_mm=2.0, reference_zeta_mm=-100.0
    )
    return results


if __name__ == '__main__':
    dc_common.main(4, worker, __file__)
