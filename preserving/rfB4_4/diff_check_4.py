"""Differential check for refactor4.diff (fit_offsets helpers, regrid.mean_crossings)"""

import logging

import diffcheck_harness as H


class ListHandler(logging.Handler):
    def __init__(self):
        super().__init__(level=logging.DEBUG)
        self.messages = []

    def emit(self, record):
        self.messages.append((record.name, record.levelname, record.getMessage()))


def offsets(series_list, head_step):
    """get_series_time_offsets with its log messages"""
    import spowtd.fit_offsets as fit_offsets_mod

    handler = ListHandler()
    logger = logging.getLogger('spowtd')
    logger.setLevel(logging.DEBUG)
    logger.addHandler(handler)
    try:
        outcome = H.capture(
            fit_offsets_mod.get_series_time_offsets, series_list, head_step
        )
    finally:
        logger.removeHandler(handler)
    return (outcome, H.norm(handler.messages))


def head_mapping(series, *args):
    import spowtd.fit_offsets as fit_offsets_mod

    return H.capture(fit_offsets_mod.build_head_mapping, series, *args)


def scenarios():
    import numpy as np

    yield 'pipeline sample 1', lambda: H.sample_pipeline(1, record_series=True)
    yield 'pipeline sample 2', lambda: H.sample_pipeline(2, record_series=True)
    yield 'pipeline sample 1, 2.5 mm grid', lambda: H.sample_pipeline(
        1, grid_interval_mm=2.5, record_series=True
    )
    for kind in ('recession', 'rise', 'wiggly'):
        for seed, count, step in ((1, 12, 1.0), (2, 40, 2.5), (3, 5, 0.5)):
            series = H.random_series(seed, count, kind=kind)
            name = '{} seed {} step {}'.format(kind, seed, step)
            yield 'offsets ' + name, lambda s=series, h=step: offsets(s, h)
            yield 'mapping ' + name, lambda s=series, h=step: head_mapping(s, h)
    series = H.random_series(4, 8)
    yield 'mapping default step', lambda: head_mapping(series)
    yield 'mapping of tuple', lambda: head_mapping(tuple(series), 3.0)
    yield 'mapping empty', lambda: head_mapping([], 1.0)
    # Two groups of series far apart in head: several connected components
    low = [(t, h - 5000.0) for t, h in H.random_series(5, 3)]
    yield 'offsets two components', lambda: offsets(series + low, 1.0)
    yield 'offsets smaller component first', lambda: offsets(
        low + series, 1.0
    )
    # Equal initial heads: order after the sort depends on its stability
    t, h = series[0]
    ties = [(t, h), (t + 7200, h.copy()), (t - 600, h + 0.0), series[1]]
    yield 'offsets ties', lambda: offsets(ties, 1.0)
    yield 'offsets reversed input', lambda: offsets(series[::-1], 1.0)
    yield 'offsets integer times and heads', lambda: offsets(
        [(t, np.round(h).astype('int64')) for t, h in series], 2
    )
    yield 'offsets float times', lambda: offsets(
        [(t / 3600.0, h) for t, h in series], 1.0
    )
    yield 'offsets negative step', lambda: offsets(series, -1.0)
    # Degenerate and bad input
    yield 'offsets empty list', lambda: offsets([], 1.0)
    yield 'offsets one series', lambda: offsets(series[:1], 1.0)
    yield 'offsets no overlap at all', lambda: offsets(
        [series[0], low[0]], 1.0
    )
    flat = (np.arange(5) * 600, np.full(5, 3.25))
    yield 'offsets flat series only', lambda: offsets([flat, flat], 1.0)
    yield 'offsets with flat series', lambda: offsets(series + [flat], 1.0)
    yield 'offsets empty series', lambda: offsets(
        series + [(np.array([], dtype='int64'), np.array([]))], 1.0
    )
    yield 'offsets one-point series', lambda: offsets(
        series + [(np.array([600]), np.array([-100.0]))], 1.0
    )
    yield 'offsets unequal lengths', lambda: offsets(
        series + [(np.arange(4) * 600, np.array([1.0, 0.0, -1.0]))], 1.0
    )
    bad = series[2][1].copy()
    bad[1] = np.nan
    yield 'offsets NaN head', lambda: offsets(
        series[:2] + [(series[2][0], bad)] + series[3:], 1.0
    )
    yield 'offsets lists, not arrays', lambda: offsets(
        [(list(t), list(h)) for t, h in series], 1.0
    )
    yield 'offsets triples', lambda: offsets(
        [(t, h, 0) for t, h in series], 1.0
    )
    yield 'offsets zero step', lambda: offsets(series, 0.0)
    yield 'offsets repeated times', lambda: offsets(
        series + [(np.array([0, 600, 600, 1200]), np.array([3.0, 2.0, 1.0, 0.0]))],
        1.0,
    )
    yield 'mapping NaN head', lambda: head_mapping(
        series[:2] + [(series[2][0], bad)], 1.0
    )
    yield 'mapping unequal lengths', lambda: head_mapping(
        [series[0], (np.arange(4) * 600, np.array([1.0, 0.0, -1.0]))], 1.0
    )


if __name__ == '__main__':
    H.main(__file__, 'refactor4.diff', scenarios)
