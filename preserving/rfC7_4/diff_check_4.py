"""Differential check for refactor4.diff (round 7)

schema.sql, view average_recession_time: AVG(e) -> TOTAL(e) / COUNT(*) (a real
division: e = time_offset_s + mean_crossing_time always has a double operand,
and mean_crossing_time, declared `interval`, has INTEGER affinity so whole
seconds are stored as integers), JOIN ... USING -> INNER JOIN ... ON with
table aliases, qualified GROUP BY.

Builds databases from the schema.sql of the original and of the patched
package copy (separate processes) and compares, with float bit patterns and
storage classes: `SELECT *` on both views in natural order (plot_recession
reads the view without ORDER BY), every downstream reader statement
(simulate_rise, simulate_recession, pestfiles, plot_*), the text written by
simulate rise / recession and pestfiles rise / curves for both
parameterizations, on sample data 1 and 2 (several grids), on synthetic
pipelines, and on synthetic tables filled directly with random rows: doubles,
whole numbers, huge integers, infinities (NaN sums -> NULL), text and blobs,
singleton groups, empty tables, no grid, orphan rows with foreign keys off,
extra zeta_grid rows with NULL id, after ANALYZE, with
reverse_unordered_selects, and with enough rows to make the GROUP BY sorter
spill.

Run: cd /tmp/rf_C && PYTHONPATH=/tmp/rf_C /venv/bin/python diff_check_4.py
"""

import sys

import _dc_common as common


if __name__ == '__main__':
    if '--worker' in sys.argv:
        common.worker_main(common.view_scenarios)
    else:
        common.drive(__file__, 4)
