"""Shared helpers for the differential checks diff_check_K.py (round 7)

Driver side: make two copies of the package (HEAD, HEAD + refactorK.diff)
under a temporary directory inside /tmp/rf_C, run the same worker in each with
PYTHONPATH pointing at the copy, and compare the pickled results exactly
(floats by bit pattern).

Worker side: builders for pipeline (sample data) and synthetic databases,
database dumps, and scenario runners for rise / recession.
"""

import os
import pickle
import random
import shutil
import sqlite3
import struct
import subprocess
import sys
import tempfile
import time

ROOT = os.path.dirname(os.path.abspath(__file__))

if '--worker' in sys.argv:
    # The script directory (the worktree) is sys.path[0]; the package copy
    # under test must win
    sys.path.insert(0, os.environ['DC_PKG_DIR'])


# ---------------------------------------------------------------- driver


def make_copies(k):
    """Return (tmpdir, orig_dir, new_dir); new_dir has refactor<k>.diff"""
    tmp = tempfile.mkdtemp(prefix='_dc%d_' % k, dir=ROOT)
    dirs = []
    for name in ('orig', 'new'):
        dest = os.path.join(tmp, name)
        os.mkdir(dest)
        archive = subprocess.run(
            ['git', '-C', ROOT, 'archive', 'HEAD', 'spowtd'],
            check=True,
            stdout=subprocess.PIPE,
        ).stdout
        subprocess.run(['tar', '-x', '-C', dest], input=archive, check=True)
        dirs.append(dest)
    subprocess.run(
        [
            'patch',
            '-p1',
            '-s',
            '-d',
            dirs[1],
            '-i',
            os.path.join(ROOT, 'refactor%d.diff' % k),
        ],
        check=True,
    )
    return tmp, dirs[0], dirs[1]


def run_worker(script, pkg_dir, tag):
    """Run `script --worker OUT` against the package copy in pkg_dir"""
    out = os.path.join(pkg_dir, 'result_%s.pkl' % tag)
    env = dict(os.environ)
    env['PYTHONPATH'] = pkg_dir + os.pathsep + ROOT
    env['DC_PKG_DIR'] = pkg_dir
    env['PYTHONHASHSEED'] = '0'
    subprocess.run(
        [sys.executable, os.path.abspath(script), '--worker', out],
        check=True,
        env=env,
        cwd=pkg_dir,
    )
    with open(out, 'rb') as f:
        return pickle.load(f)


def drive(script, k):
    """Full differential run for refactoring k; exits non-zero on mismatch"""
    tmp, orig, new = make_copies(k)
    try:
        a = run_worker(script, orig, 'orig')
        b = run_worker(script, new, 'new')
        assert a['package'].startswith(orig), a['package']
        assert b['package'].startswith(new), b['package']
        del a['package'], b['package']
        n = compare(a, b, 'result')
        print('diff_check_%d: OK (%d leaf values compared, %d scenarios)'
              % (k, n, len(a['scenarios'])))
        for name, summary in a['summaries']:
            print('   ', name, '->', summary)
    finally:
        shutil.rmtree(tmp)


def compare(a, b, path):
    """Exact recursive comparison; returns number of leaves compared"""
    assert type(a) is type(b), (path, type(a), type(b))
    if isinstance(a, dict):
        assert list(a.keys()) == list(b.keys()), (path, list(a), list(b))
        return sum(compare(a[key], b[key], '%s[%r]' % (path, key))
                   for key in a)
    if isinstance(a, (list, tuple)):
        assert len(a) == len(b), (path, len(a), len(b))
        return sum(compare(x, y, '%s[%d]' % (path, i))
                   for i, (x, y) in enumerate(zip(a, b)))
    if isinstance(a, float):
        assert struct.pack('<d', a) == struct.pack('<d', b), (path, a, b)
        return 1
    assert a == b, (path, a, b)
    return 1


# ---------------------------------------------------------------- worker


def canon(value):
    """Canonical, picklable form of an SQLite / numpy value"""
    import numpy as np

    if value is None or isinstance(value, (str, bytes)):
        return value
    if isinstance(value, (bool, np.bool_)):
        return ('b', bool(value))
    if isinstance(value, (int, np.integer)):
        return ('i', int(value))
    if isinstance(value, (float, np.floating)):
        return ('f', float(value).hex())
    if isinstance(value, np.ndarray):
        return ('a', str(value.dtype), value.shape, value.tobytes())
    if isinstance(value, dict):
        return ('d', [(canon(k), canon(v)) for k, v in value.items()])
    if isinstance(value, (list, tuple)):
        return [canon(v) for v in value]
    raise TypeError(type(value))


def rows(connection, sql, params=()):
    """All rows of a query, canonical; or the exception it raises"""
    try:
        return [canon(row) for row in connection.execute(sql, params)]
    except sqlite3.Error as exc:
        return ('EXC', type(exc).__name__, str(exc))


VIEW_READERS = [
    # (name, sql) -- the exact statements of the downstream readers
    ('simulate_rise',
     """
    SELECT mean_crossing_depth_mm AS dynamic_storage_mm,
           zeta_mm
    FROM average_rising_depth
    ORDER BY zeta_mm"""),
    ('pestfiles_rise',
     """
    SELECT mean_crossing_depth_mm AS dynamic_storage_mm
    FROM average_rising_depth
    ORDER BY zeta_mm"""),
    ('pestfiles_recession',
     """
    SELECT CAST(elapsed_time_s AS double precision)
             / (3600 * 24) AS elapsed_time_d
    FROM average_recession_time
    ORDER BY zeta_mm DESC"""),
    ('simulate_recession',
     """
    SELECT CAST(elapsed_time_s AS double precision)
             / (3600 * 24) AS elapsed_time_d,
           zeta_mm / 10 AS zeta_cm
    FROM average_recession_time
    ORDER BY zeta_mm"""),
    ('plot_recession_unordered',
     """
    SELECT CAST(elapsed_time_s AS double precision)
             / (3600 * 24) AS elapsed_time_d,
           zeta_mm / 10 AS zeta_cm
    FROM average_recession_time"""),
    ('plot_rise',
     """
    SELECT mean_crossing_depth_mm / 10 AS storm_depth_cm,
           zeta_mm / 10 AS zeta_cm
    FROM average_rising_depth
    ORDER BY zeta_mm"""),
    ('typeof_recession',
     """
    SELECT typeof(zeta_mm), typeof(elapsed_time_s), zeta_mm, elapsed_time_s
    FROM average_recession_time"""),
    ('typeof_rising',
     """
    SELECT typeof(zeta_mm), typeof(mean_crossing_depth_mm), zeta_mm,
           mean_crossing_depth_mm
    FROM average_rising_depth"""),
    ('recession_filtered',
     """
    SELECT elapsed_time_s, zeta_mm FROM average_recession_time
    WHERE zeta_mm > -50 AND elapsed_time_s IS NOT NULL
    ORDER BY elapsed_time_s, zeta_mm"""),
    ('rising_filtered',
     """
    SELECT count(*), min(mean_crossing_depth_mm), max(zeta_mm)
    FROM average_rising_depth WHERE zeta_mm <= 100"""),
    ('line_segments',
     """
    SELECT * FROM rising_curve_line_segment
    ORDER BY interval_start_epoch"""),
]


def dump_db(connection):
    """Contents of every table and view, natural order, with storage types"""
    dump = {}
    names = connection.execute(
        """SELECT name, type FROM sqlite_master
           WHERE type IN ('table', 'view') ORDER BY name"""
    ).fetchall()
    for name, kind in names:
        if name.endswith('_staging') or name in (
            'grid_time', 'grid_time_flags', 'evapotranspiration'
        ):
            # untouched bulk input; keep only a count
            dump[name] = rows(connection, 'SELECT count(*) FROM ' + name)
            continue
        dump[name] = rows(connection, 'SELECT * FROM ' + name)
    for name, sql in VIEW_READERS:
        dump['reader:' + name] = rows(connection, sql)
    dump['in_transaction'] = connection.in_transaction
    dump['total_changes'] = connection.total_changes
    return dump


def sample_connection(sample, grid_interval_mm=1.0, path=':memory:'):
    """Sample data through load, classify, zeta_grid (as in conftest)"""
    import spowtd.classify as classify_mod
    import spowtd.load as load_mod
    import spowtd.zeta_grid as zeta_grid_mod
    from spowtd.test import conftest

    connection = sqlite3.connect(path)
    with open(
        conftest.get_sample_file_path('precipitation', sample),
        'rt', encoding='utf-8-sig',
    ) as precip_f, open(
        conftest.get_sample_file_path('evapotranspiration', sample),
        'rt', encoding='utf-8-sig',
    ) as et_f, open(
        conftest.get_sample_file_path('water_level', sample),
        'rt', encoding='utf-8-sig',
    ) as zeta_f:
        load_mod.load_data(
            connection=connection,
            precipitation_data_file=precip_f,
            evapotranspiration_data_file=et_f,
            water_level_data_file=zeta_f,
            time_zone_name='Africa/Lagos',
        )
    classify_mod.classify_intervals(
        connection, storm_rain_threshold_mm_h=8.0,
        rising_jump_threshold_mm_h=5.0,
    )
    zeta_grid_mod.populate_zeta_grid(
        connection, grid_interval_mm=grid_interval_mm
    )
    connection.commit()
    return connection


def empty_connection():
    """In-memory database with the schema of the package under test"""
    import spowtd.load as load_mod

    connection = sqlite3.connect(':memory:')
    connection.execute('PRAGMA foreign_keys = 1')
    with open(load_mod.SCHEMA_PATH, 'rt') as schema_file:
        connection.executescript(schema_file.read())
    return connection


def synthetic_connection(seed, n_cycles=8, grid_interval_mm=1.0,
                         with_grid=True, time_step=3600):
    """Hand-built classified database: alternating recessions and storms

    Water level falls during interstorm intervals and rises strictly during
    storms; rainfall intensities are random doubles (so that the order of
    summation matters for bit patterns).
    """
    rng = random.Random(seed)
    connection = empty_connection()
    cur = connection.cursor()
    t0 = 1_400_000_400
    epochs = []
    zetas = []
    storms = []  # (storm_start_i, storm_thru_i, zeta_start_i, zeta_thru_i)
    interstorms = []  # (start_i, thru_i)
    zeta = rng.uniform(-20, 20)

    def push(z):
        epochs.append(t0 + len(epochs) * time_step)
        zetas.append(z)

    push(zeta)
    for _ in range(n_cycles):
        start = len(epochs) - 1
        for _ in range(rng.randint(3, 9)):
            zeta -= rng.uniform(0.5, 6.0)
            push(zeta)
        interstorms.append((start, len(epochs) - 1))
        # a short gap that belongs to no interval
        if rng.random() < 0.5:
            zeta -= rng.uniform(0.0, 0.3)
            push(zeta)
        zstart = len(epochs) - 1
        for _ in range(rng.randint(1, 5)):
            zeta += rng.uniform(2.0, 15.0)
            push(zeta)
        zthru = len(epochs) - 1
        # storm (rain) interval brackets the rise, sometimes wider
        sstart = zstart - rng.randint(0, 1)
        push(zeta - rng.uniform(0.0, 0.2))
        sthru = min(zthru + rng.randint(0, 1), len(epochs) - 1)
        zeta = zetas[-1]
        storms.append((sstart, sthru, zstart, zthru))
    cur.executemany('INSERT INTO grid_time (epoch) VALUES (?)',
                    [(e,) for e in epochs])
    cur.execute(
        "INSERT INTO time_grid (time_step_s, source_time_zone) VALUES (?, ?)",
        (time_step, 'UTC'),
    )
    cur.executemany('INSERT INTO water_level (epoch, zeta_mm) VALUES (?, ?)',
                    list(zip(epochs, zetas)))
    in_storm = set()
    for sstart, sthru, _, _ in storms:
        in_storm.update(range(sstart, sthru))
    cur.executemany(
        """INSERT INTO rainfall_intensity
           (from_epoch, thru_epoch, rainfall_intensity_mm_h)
           VALUES (?, ?, ?)""",
        [
            (epochs[j], epochs[j + 1],
             rng.uniform(8.0, 40.0) if j in in_storm
             else rng.choice([0.0, rng.uniform(0.0, 3.0)]))
            for j in range(len(epochs) - 1)
        ],
    )
    cur.executemany(
        """INSERT INTO evapotranspiration
           (from_epoch, thru_epoch, evapotranspiration_mm_h)
           VALUES (?, ?, ?)""",
        [(epochs[j], epochs[j + 1], rng.uniform(0.0, 0.4))
         for j in range(len(epochs) - 1)],
    )
    # Insert storms / intervals in a shuffled order: rowid aliases keep the
    # tables ordered by epoch, the UNIQUE indexes are what the plans use
    shuffled = list(storms)
    rng.shuffle(shuffled)
    for sstart, sthru, zstart, zthru in shuffled:
        cur.execute('INSERT INTO storm (start_epoch, thru_epoch) VALUES (?,?)',
                    (epochs[sstart], epochs[sthru]))
        cur.execute(
            """INSERT INTO zeta_interval (start_epoch, interval_type,
                 thru_epoch) VALUES (?, 'storm', ?)""",
            (epochs[zstart], epochs[zthru]),
        )
        cur.execute(
            """INSERT INTO zeta_interval_storm (interval_start_epoch,
                 interval_type, storm_start_epoch) VALUES (?, 'storm', ?)""",
            (epochs[zstart], epochs[sstart]),
        )
    shuffled = list(interstorms)
    rng.shuffle(shuffled)
    for start, thru in shuffled:
        cur.execute(
            """INSERT INTO zeta_interval (start_epoch, interval_type,
                 thru_epoch) VALUES (?, 'interstorm', ?)""",
            (epochs[start], epochs[thru]),
        )
    if with_grid:
        import spowtd.zeta_grid as zeta_grid_mod

        zeta_grid_mod.populate_zeta_grid(connection, grid_interval_mm)
    cur.close()
    connection.commit()
    return connection, {
        'epochs': epochs, 'zetas': zetas, 'storms': storms,
        'interstorms': interstorms,
    }


def run_step(module_name, function_name, connection, reference_zeta_mm):
    """Call spowtd.<module>.<function>(connection, ref); capture everything

    Records the series handed to get_series_time_offsets and its result, the
    exception (type and text) if any, and the full database state afterwards.
    """
    import importlib

    module = importlib.import_module('spowtd.' + module_name)
    captured = {}
    original = module.get_series_time_offsets

    def spy(series, delta_z_mm):
        captured['series'] = canon([list(pair) for pair in series])
        captured['delta_z_mm'] = canon(delta_z_mm)
        result = original(series, delta_z_mm)
        captured['result'] = canon(list(result))
        return result

    module.get_series_time_offsets = spy
    outcome = None
    try:
        try:
            getattr(module, function_name)(connection, reference_zeta_mm)
            outcome = ('ok',)
        except Exception as exc:  # pylint: disable=broad-except
            outcome = ('EXC', type(exc).__name__, str(exc))
    finally:
        module.get_series_time_offsets = original
    state = dump_db(connection)
    connection.rollback()
    after_rollback = {
        name: rows(connection, 'SELECT count(*) FROM ' + name)
        for name in ('rising_interval', 'rising_interval_zeta',
                     'recession_interval', 'recession_interval_zeta')
    }
    return {
        'outcome': outcome,
        'captured': captured,
        'state': state,
        'after_rollback': after_rollback,
    }


def summarize(result):
    """Short human-readable summary of a run_step result"""
    state = result['state']
    return '%s; rising %d/%d, recession %d/%d rows; in_txn=%s' % (
        result['outcome'][:2],
        len(state['rising_interval']), len(state['rising_interval_zeta']),
        len(state['recession_interval']),
        len(state['recession_interval_zeta']),
        state['in_transaction'],
    )


def worker_main(build_scenarios):
    """Entry point of a worker: run scenarios, pickle the results"""
    import spowtd

    out = sys.argv[sys.argv.index('--worker') + 1]
    scenarios = {}
    summaries = []
    only = [x for x in os.environ.get('DC_ONLY', '').split(',') if x]
    for name, thunk in build_scenarios():
        if only and not any(name.startswith(x) for x in only):
            continue
        started = time.time()
        result = thunk()
        if os.environ.get('DC_VERBOSE'):
            print('%8.1f s  %s' % (time.time() - started, name),
                  file=sys.stderr)
        scenarios[name] = result
        summaries.append(
            (name, summarize(result) if 'outcome' in result
             else result.get('summary', ''))
        )
    with open(out, 'wb') as f:
        pickle.dump(
            {
                'package': os.path.dirname(os.path.abspath(spowtd.__file__)),
                'scenarios': scenarios,
                'summaries': summaries,
            },
            f,
        )


# ------------------------------------------------------ scenario builders


def clone(connection, foreign_keys=1):
    """Independent in-memory copy of a database"""
    copy = sqlite3.connect(':memory:')
    connection.backup(copy)
    copy.execute('PRAGMA foreign_keys = %d' % foreign_keys)
    return copy


def popular_zeta_mm(connection, table):
    """A grid water level crossed by the largest number of intervals"""
    row = connection.execute(
        """SELECT zeta_number FROM %s GROUP BY zeta_number
           ORDER BY count(*) DESC, zeta_number LIMIT 1""" % table
    ).fetchone()
    step = connection.execute(
        'SELECT grid_interval_mm FROM zeta_grid').fetchone()[0]
    return row[0] * step


def cli_scenario(sample, task, table):
    """Run `spowtd <task> DB [-r REF]` on a file database; dump it"""
    import spowtd.user_interface as cli_mod

    def thunk():
        result = {}
        with tempfile.TemporaryDirectory() as tmp:
            base = os.path.join(tmp, 'base.sqlite3')
            sample_connection(sample, path=base).close()
            ref = None
            for label in ('default', 'reference'):
                path = os.path.join(tmp, label + '.sqlite3')
                shutil.copy(base, path)
                argv = [task, path]
                if label == 'reference':
                    argv += ['-r', repr(ref)]
                code = cli_mod.main(argv)
                connection = sqlite3.connect(path)
                result[label] = {'exit': code, 'state': dump_db(connection)}
                if label == 'default':
                    ref = popular_zeta_mm(connection, table)
                    result['ref'] = canon(ref)
                connection.close()
        result['summary'] = 'cli %s sample %d ref %r' % (task, sample, ref)
        return result

    return thunk


def step_scenarios(module_name, function_name, table, conflict_table):
    """Scenarios for rise.find_rise_offsets / recession.find_recession_offsets

    Yields (name, thunk).  Covers sample data (both samples, two grids, with
    and without reference level), synthetic databases, and every failure
    the touched statements can meet: no grid, empty inputs, missing rain,
    epochs outside water_level, UNIQUE / FOREIGN KEY failures part-way
    through the INSERT loops (state dumped before rollback).
    """

    def step(connection, ref=None):
        return run_step(module_name, function_name, connection, ref)

    def on_sample(sample, grid, use_ref):
        def thunk():
            base = sample_connection(sample, grid)
            if not use_ref:
                return step(base)
            probe = clone(base)
            step(probe)
            return step(base, popular_zeta_mm(probe, table))
        return thunk

    for sample in (1, 2):
        yield 'sample%d' % sample, on_sample(sample, 1.0, False)
        yield 'sample%d_ref' % sample, on_sample(sample, 1.0, True)
    yield 'sample1_grid2.5', on_sample(1, 2.5, False)
    yield 'sample2_grid0.5_ref', on_sample(2, 0.5, True)

    for seed, cycles, grid in ((1, 8, 1.0), (2, 14, 2.5), (3, 25, 0.5),
                               (4, 3, 1.0), (5, 40, 1.0)):
        def ok(seed=seed, cycles=cycles, grid=grid):
            connection, _ = synthetic_connection(seed, cycles, grid)
            return step(connection)
        yield 'syn_seed%d' % seed, ok

    def mutated(mutate, ref=None, seed=11, cycles=12, grid=1.0,
                with_grid=True, foreign_keys=1, needs_probe=False):
        def thunk():
            connection, info = synthetic_connection(
                seed, cycles, grid, with_grid=with_grid)
            probe_state = None
            if needs_probe:
                probe = clone(connection)
                probe_state = step(probe)['state']
            connection.execute('PRAGMA foreign_keys = 0')
            reference = mutate(connection, info, probe_state)
            connection.commit()
            connection.execute('PRAGMA foreign_keys = %d' % foreign_keys)
            return step(connection, ref if reference is None else reference)
        return thunk

    def nothing(connection, info, probe):
        return None

    yield 'ref_off_grid', mutated(nothing, ref=0.3)
    yield 'ref_off_grid_2.5', mutated(nothing, ref=4.0, grid=2.5)
    yield 'ref_absent', mutated(nothing, ref=10000.0)
    yield 'ref_on_grid', mutated(
        lambda c, i, probe: max(r[1][1] for r in probe[table]) * 1.0,
        needs_probe=True)
    yield 'no_grid', mutated(nothing, with_grid=False)

    def null_id_grid(connection, info, probe):
        import spowtd.zeta_grid as zeta_grid_mod
        connection.execute(
            'INSERT INTO zeta_grid (id, grid_interval_mm) VALUES (NULL, 2.0)')
        connection.execute(
            'INSERT INTO zeta_grid (id, grid_interval_mm) VALUES (NULL, 4.0)')
        zeta_grid_mod.populate_zeta_grid(connection, 1.0)
    yield 'null_id_grid_rows', mutated(null_id_grid, with_grid=False)

    def no_rain_for_one_storm(connection, info, probe):
        sstart, sthru = info['storms'][4][:2]
        connection.execute(
            'DELETE FROM rainfall_intensity WHERE from_epoch >= ? '
            'AND thru_epoch <= ?',
            (info['epochs'][sstart], info['epochs'][sthru]))
    yield 'storm_without_rain', mutated(no_rain_for_one_storm)

    def partial_rain(connection, info, probe):
        for storm in info['storms'][::2]:
            connection.execute(
                'DELETE FROM rainfall_intensity WHERE from_epoch = ?',
                (info['epochs'][storm[0]],))
    yield 'storms_with_partial_rain', mutated(partial_rain)

    def no_rain_at_all(connection, info, probe):
        connection.execute('DELETE FROM rainfall_intensity')
    yield 'empty_rainfall', mutated(no_rain_at_all)

    def storm_thru_outside_water_level(connection, info, probe):
        extra = info['epochs'][-1] + 3600
        connection.execute('INSERT INTO grid_time (epoch) VALUES (?)',
                           (extra,))
        connection.execute(
            'UPDATE storm SET thru_epoch = ? WHERE start_epoch = ?',
            (extra, info['epochs'][info['storms'][-1][0]]))
    yield 'storm_thru_outside_water_level', mutated(
        storm_thru_outside_water_level)

    def no_storms(connection, info, probe):
        connection.execute('DELETE FROM zeta_interval_storm')
        connection.execute('DELETE FROM storm')
    yield 'no_storms', mutated(no_storms)

    def storm_without_interval(connection, info, probe):
        # storms lacking a zeta_interval_storm row are skipped by the join
        for storm in info['storms'][1::3]:
            connection.execute(
                'DELETE FROM zeta_interval_storm WHERE storm_start_epoch = ?',
                (info['epochs'][storm[0]],))
    yield 'storms_without_zeta_interval', mutated(storm_without_interval)

    def no_interstorms(connection, info, probe):
        connection.execute(
            "DELETE FROM zeta_interval WHERE interval_type = 'interstorm'")
    yield 'no_interstorm_intervals', mutated(no_interstorms)

    def only_one_kind(connection, info, probe):
        connection.execute('DELETE FROM zeta_interval_storm')
        connection.execute('DELETE FROM storm')
        connection.execute('DELETE FROM zeta_interval')
    yield 'no_intervals_at_all', mutated(only_one_kind)

    def not_increasing(connection, info, probe):
        zstart, zthru = info['storms'][2][2:]
        connection.execute(
            'UPDATE water_level SET zeta_mm = zeta_mm - 500 WHERE epoch = ?',
            (info['epochs'][zthru],))
    yield 'rise_not_increasing', mutated(not_increasing)

    def conflict(which):
        def mutate(connection, info, probe):
            starts = sorted(r[0][1] for r in probe[conflict_table])
            start = {'first': starts[0], 'middle': starts[len(starts) // 2],
                     'last': starts[-1]}[which]
            if conflict_table == 'rising_interval':
                connection.execute(
                    """INSERT INTO rising_interval
                       (start_epoch, rain_depth_offset_mm) VALUES (?, 12.5)""",
                    (start,))
            else:
                connection.execute(
                    """INSERT INTO recession_interval
                       (start_epoch, time_offset_s) VALUES (?, 12.5)""",
                    (start,))
        return mutate
    for which in ('first', 'middle', 'last'):
        yield 'unique_conflict_' + which, mutated(conflict(which),
                                                  needs_probe=True)

    def missing_discrete_zeta(connection, info, probe):
        numbers = sorted(set(r[1][1] for r in probe[table]))
        connection.execute('DELETE FROM discrete_zeta WHERE zeta_number >= ?',
                           (numbers[len(numbers) // 2],))
    yield 'fk_failure_discrete_zeta', mutated(missing_discrete_zeta,
                                              needs_probe=True)
    yield 'fk_off_missing_discrete_zeta', mutated(
        missing_discrete_zeta, needs_probe=True, foreign_keys=0)

    def no_discrete_zeta(connection, info, probe):
        connection.execute('DELETE FROM discrete_zeta')
    yield 'fk_failure_first_insert', mutated(no_discrete_zeta)

    def rerun(connection, info, probe):
        # tables already populated by an earlier run: first INSERT fails
        for name, state in probe.items():
            if name in ('rising_interval', 'recession_interval'):
                for r in state:
                    connection.execute(
                        'INSERT INTO %s VALUES (?, ?, ?)' % name,
                        [v[1] if isinstance(v, tuple) else v for v in r])
    yield 'second_run', mutated(rerun, needs_probe=True)

    yield 'cli_sample1', cli_scenario(1, module_name, table)
    yield 'cli_sample2', cli_scenario(2, module_name, table)


# --------------------------------------------------------- view scenarios


def downstream_outputs(connection):
    """Text produced by every library entry point that reads the views"""
    import io

    import spowtd.pestfiles as pestfiles_mod
    import spowtd.simulate_recession as simulate_recession_mod
    import spowtd.simulate_rise as simulate_rise_mod
    from spowtd.test import conftest

    outputs = {}

    def record(name, function, **kwargs):
        outfile = io.StringIO()
        try:
            function(outfile=outfile, **kwargs)
            outputs[name] = ('ok', outfile.getvalue())
        except Exception as exc:  # pylint: disable=broad-except
            outputs[name] = ('EXC', type(exc).__name__, str(exc),
                             outfile.getvalue())

    for par in ('peatclsm', 'spline'):
        path = conftest.get_parameter_file_path(par)
        for observations in (False, True):
            with open(path, 'rt') as f:
                record('simulate_rise/%s/%s' % (par, observations),
                       simulate_rise_mod.simulate_rise,
                       connection=connection, parameters=f,
                       observations_only=observations)
            with open(path, 'rt') as f:
                record('simulate_recession/%s/%s' % (par, observations),
                       simulate_recession_mod.dump_simulated_recession,
                       connection=connection, parameter_file=f,
                       observations_only=observations)
        for kind in ('tpl', 'ins', 'pst'):
            with open(path, 'rt') as f:
                record('pest_rise/%s/%s' % (par, kind),
                       pestfiles_mod.generate_rise_pestfiles,
                       connection=connection, parameter_file=f,
                       outfile_type=kind, configuration_file=None)
            with open(path, 'rt') as f:
                record('pest_curves/%s/%s' % (par, kind),
                       pestfiles_mod.generate_curves_pestfiles,
                       connection=connection, parameter_file=f,
                       outfile_type=kind, configuration_file=None)
    return outputs


def curves_connection(connection, curvature=2.36):
    """Run rise, recession and set-curvature on a classified database"""
    import spowtd.recession as recession_mod
    import spowtd.rise as rise_mod
    import spowtd.set_curvature as set_curvature_mod

    rise_mod.find_rise_offsets(connection)
    recession_mod.find_recession_offsets(connection)
    set_curvature_mod.set_curvature(connection, curvature_m_km2=curvature)
    return connection


def view_summary(state):
    return 'views: recession %d rows, rising %d rows' % (
        len(state['average_recession_time']),
        len(state['average_rising_depth']))


def random_value(rng, kinds):
    kind = rng.choice(kinds)
    if kind == 'float':
        return rng.uniform(-1e6, 1e6)
    if kind == 'small':
        return rng.uniform(-1.0, 1.0) * 10.0 ** rng.randint(-12, 3)
    if kind == 'whole':  # integer-valued double: stored as INTEGER under
        return float(rng.randint(-10 ** 6, 10 ** 6))  # integer affinity
    if kind == 'int':
        return rng.randint(-10 ** 6, 10 ** 6)
    if kind == 'bigint':
        return rng.choice([2 ** 53 + 1, -(2 ** 53) - 1, 2 ** 62,
                           9007199254740993, 2 ** 63 - 1])
    if kind == 'bigfloat':
        return rng.choice([1e15 + 0.5, 1e300, -1e300, 4.9e-324, -0.0, 0.1,
                           1e16, 123456789012345680.0])
    if kind == 'inf':
        return rng.choice([float('inf'), float('-inf')])
    if kind == 'text':
        return rng.choice(['abc', '12', '3.5', '1e3', ' 7 ', ''])
    if kind == 'blob':
        return rng.choice([b'', b'12', b'\x00\x01'])
    raise AssertionError(kind)


def filled_connection(seed, n_cycles, grid, kinds, density=0.6,
                      extra_zeta=0, variant=None):
    """Synthetic classified database whose four curve tables are filled
    directly with random rows (shuffled insertion order)"""
    rng = random.Random(1000 + seed)
    connection, info = synthetic_connection(seed, n_cycles, grid)
    connection.execute('PRAGMA foreign_keys = 0')
    cur = connection.cursor()
    if extra_zeta:
        lo, hi = cur.execute(
            'SELECT min(zeta_number), max(zeta_number) FROM discrete_zeta'
        ).fetchone()
        cur.executemany(
            'INSERT INTO discrete_zeta (zeta_number) VALUES (?)',
            [(n,) for n in list(range(lo - extra_zeta, lo))
             + list(range(hi + 1, hi + 1 + extra_zeta))])
    numbers = [r[0] for r in cur.execute(
        'SELECT zeta_number FROM discrete_zeta')]
    epochs = info['epochs']
    if variant == 'orphans':
        numbers += [max(numbers) + 5, max(numbers) + 6, min(numbers) - 9]
    for parent, child, starts in (
        ('rising_interval', 'rising_interval_zeta',
         [epochs[s[2]] for s in info['storms']]),
        ('recession_interval', 'recession_interval_zeta',
         [epochs[a] for a, _ in info['interstorms']]),
    ):
        starts = list(starts)
        rng.shuffle(starts)
        if variant == 'empty':
            starts = []
        for start in starts:
            cur.execute(
                'INSERT INTO %s VALUES (?, ?, ?)' % parent,
                (start,
                 'storm' if parent == 'rising_interval' else 'interstorm',
                 random_value(rng, kinds)))
        pairs = [(start, number) for start in starts for number in numbers
                 if rng.random() < density]
        if variant == 'singletons':
            seen = set()
            pairs = [p for p in pairs
                     if p[1] not in seen and not seen.add(p[1])]
        rng.shuffle(pairs)
        cur.executemany(
            'INSERT INTO %s VALUES (?, ?, ?)' % child,
            [(start, number, random_value(rng, kinds))
             for start, number in pairs])
        if variant == 'orphans' and starts:
            # children whose interval row is missing
            cur.execute('DELETE FROM %s WHERE start_epoch = ?' % parent,
                        (starts[0],))
    if variant == 'orphans':
        cur.execute(
            'UPDATE discrete_zeta SET zeta_grid = 0 WHERE zeta_number % 7 = 0')
    if variant == 'no_grid':
        cur.execute('DELETE FROM zeta_grid')
    if variant == 'extra_grid_rows':
        cur.execute('INSERT INTO zeta_grid VALUES (NULL, 3.0)')
        cur.execute('INSERT INTO zeta_grid VALUES (NULL, 1.0)')
    connection.commit()
    if variant == 'analyze':
        connection.execute('ANALYZE')
    if variant == 'reverse_unordered':
        connection.execute('PRAGMA reverse_unordered_selects = 1')
    connection.execute('PRAGMA foreign_keys = 1')
    return connection


def view_scenarios():
    """Scenarios for the two averaging views (refactorings 4 and 5)"""

    def on_sample(sample, grid):
        def thunk():
            connection = curves_connection(sample_connection(sample, grid))
            state = dump_db(connection)
            return {'state': state,
                    'downstream': downstream_outputs(connection),
                    'summary': view_summary(state)}
        return thunk

    yield 'sample1', on_sample(1, 1.0)
    yield 'sample2', on_sample(2, 1.0)
    yield 'sample1_grid2.5', on_sample(1, 2.5)
    yield 'sample2_grid0.3', on_sample(2, 0.3)

    def on_synthetic(seed, cycles, grid):
        def thunk():
            connection, _ = synthetic_connection(seed, cycles, grid)
            curves_connection(connection)
            state = dump_db(connection)
            return {'state': state,
                    'downstream': downstream_outputs(connection),
                    'summary': view_summary(state)}
        return thunk

    for seed, cycles, grid in ((1, 8, 1.0), (2, 14, 2.5), (3, 25, 0.5),
                               (5, 40, 1.0), (6, 10, 0.1)):
        yield 'syn_pipeline_seed%d' % seed, on_synthetic(seed, cycles, grid)

    def filled(*args, **kwargs):
        def thunk():
            connection = filled_connection(*args, **kwargs)
            state = dump_db(connection)
            plans = {
                view: rows(connection,
                           'EXPLAIN QUERY PLAN SELECT * FROM ' + view)
                for view in ('average_recession_time',
                             'average_rising_depth')}
            return {'state': state, 'summary': view_summary(state),
                    'plan_steps': [len(p) for p in plans.values()]}
        return thunk

    plain = ['float', 'small']
    mixed = ['float', 'small', 'whole', 'int', 'bigint', 'bigfloat']
    yield 'fill_floats', filled(31, 10, 1.0, plain)
    yield 'fill_floats_grid0.1', filled(32, 12, 0.1, plain)
    yield 'fill_whole_numbers', filled(33, 10, 1.0, ['whole', 'int'])
    yield 'fill_mixed', filled(34, 16, 2.5, mixed)
    yield 'fill_mixed_dense', filled(35, 30, 1.0, mixed, density=1.0)
    yield 'fill_big_integers', filled(36, 8, 1.0, ['bigint', 'int'])
    yield 'fill_infinities', filled(37, 10, 1.0, ['float', 'inf', 'whole'])
    yield 'fill_text_and_blobs', filled(
        38, 10, 1.0, ['float', 'whole', 'text', 'blob', 'int'])
    yield 'fill_singleton_groups', filled(39, 10, 1.0, mixed,
                                          variant='singletons')
    yield 'fill_empty', filled(40, 5, 1.0, plain, variant='empty')
    yield 'fill_no_grid', filled(41, 6, 1.0, plain, variant='no_grid')
    yield 'fill_orphans', filled(42, 10, 1.0, mixed, variant='orphans')
    yield 'fill_extra_grid_rows', filled(43, 8, 2.0, mixed,
                                         variant='extra_grid_rows')
    yield 'fill_analyzed', filled(44, 20, 1.0, mixed, variant='analyze')
    yield 'fill_reverse_unordered', filled(45, 12, 1.0, mixed,
                                           variant='reverse_unordered')
    # enough rows for the GROUP BY sorter to spill and merge runs
    yield 'fill_sorter_spill', filled(46, 60, 1.0, mixed, density=0.9,
                                      extra_zeta=1500)
