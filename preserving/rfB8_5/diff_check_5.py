"""Differential check for refactor5.diff (spowtd/load.py: load_data staging inserts, generate_timestamped_rows)

Usage:  /venv/bin/python /tmp/rf_B/diff_check_5.py

Builds two copies of the package in a temporary directory (HEAD, and
HEAD + refactor5.diff), runs the scenarios below in a subprocess against
each copy, and asserts that the pickled, canonicalised results are equal
(floats compared by their bytes / repr, exceptions by type and message).
"""

import os
import pickle
import subprocess
import sys
import tempfile

ROOT = os.path.dirname(os.path.abspath(__file__))
PATCH = os.environ.get('RF_PATCH', os.path.join(ROOT, 'refactor5.diff'))


# ---------------------------------------------------------------- harness
def build_trees(tmp):
    trees = {}
    archive = subprocess.run(
        ['git', '-C', ROOT, 'archive', 'HEAD', 'spowtd'],
        check=True,
        stdout=subprocess.PIPE,
    ).stdout
    for name in ('orig', 'new'):
        tree = os.path.join(tmp, name)
        os.makedirs(tree)
        subprocess.run(['tar', '-x', '-C', tree], input=archive, check=True)
        trees[name] = tree
    subprocess.run(
        ['patch', '-s', '-p1', '-i', PATCH], cwd=trees['new'], check=True
    )
    return trees


def canon(obj):
    """Canonical, picklable, exactly comparable form of a result"""
    import numpy as np

    if isinstance(obj, np.ndarray):
        return ('ndarray', obj.dtype.str, obj.shape, obj.tobytes())
    if isinstance(obj, np.generic):
        return ('npscalar', obj.dtype.str, obj.tobytes())
    if isinstance(obj, float):
        return ('float', obj.hex())
    if isinstance(obj, (bool, int, str, bytes, type(None))):
        return (type(obj).__name__, obj)
    if isinstance(obj, (list, tuple)):
        return (type(obj).__name__, [canon(item) for item in obj])
    if isinstance(obj, dict):
        # order is observable: keep it
        return (
            type(obj).__name__,
            [(canon(key), canon(value)) for key, value in obj.items()],
        )
    if isinstance(obj, (set, frozenset)):
        return (type(obj).__name__, sorted(canon(item) for item in obj))
    raise TypeError('cannot canonicalise {!r}'.format(type(obj)))


def attempt(function, *args, **kwargs):
    """Result of a call, or the exception it raised"""
    import warnings

    try:
        with warnings.catch_warnings(record=True) as caught:
            warnings.simplefilter('always')
            value = function(*args, **kwargs)
        return (
            'ok',
            canon(value),
            [(w.category.__name__, str(w.message)) for w in caught],
        )
    except BaseException as exc:  # pylint: disable=broad-except
        return ('raised', type(exc).__name__, str(exc))


def main():
    with tempfile.TemporaryDirectory(prefix='rfB_check_') as tmp:
        trees = build_trees(tmp)
        results = {}
        for name, tree in trees.items():
            out = os.path.join(tmp, name + '.pkl')
            env = dict(os.environ, PYTHONPATH=tree)
            subprocess.run(
                [sys.executable, os.path.abspath(__file__), '--worker', out],
                check=True,
                env=env,
                cwd=tree,
            )
            with open(out, 'rb') as stream:
                results[name] = pickle.load(stream)
        orig, new = results['orig'], results['new']
        assert orig['__source__'] != new['__source__'], 'patch not applied'
        del orig['__source__'], new['__source__']
        assert list(orig) == list(new)
        n_ok = 0
        for key in orig:
            assert orig[key] == new[key], 'MISMATCH in scenario {}'.format(key)
            n_ok += orig[key][0] == 'ok'
        print(
            'diff_check_5: {} scenarios identical ({} returned, {} raised)'
            .format(len(orig), n_ok, len(orig) - n_ok)
        )


# ---------------------------------------------------------------- worker
def worker(out_path):
    import datetime
    import io
    import sqlite3
    import pytz
    import spowtd.load as load_mod

    assert load_mod.__file__.startswith(os.environ['PYTHONPATH'])
    results = {}
    with open(load_mod.__file__, 'rt') as stream:
        results['__source__'] = stream.read()

    # ---- generate_timestamped_rows
    def run_rows(rows, tz):
        """Items produced before the end or an exception, and how it ended"""
        produced = []
        generator = load_mod.generate_timestamped_rows(rows, tz)
        try:
            for item in generator:
                produced.append((type(item).__name__, item))
            ending = 'exhausted'
        except Exception as exc:  # pylint: disable=broad-except
            ending = ('raised', type(exc).__name__, str(exc))
        return (produced, ending, canon(rows) if isinstance(rows, list) else 0)

    def stamps(start, count, step_s):
        return [
            [
                (start + datetime.timedelta(seconds=k * step_s)).strftime(
                    '%Y-%m-%d %H:%M:%S'
                ),
                str(0.25 * k),
            ]
            for k in range(count)
        ]

    zones = {
        'lagos': pytz.timezone('Africa/Lagos'),
        'paris': pytz.timezone('Europe/Paris'),
        'new_york': pytz.timezone('America/New_York'),
        'jakarta': pytz.timezone('Asia/Jakarta'),
        'kathmandu': pytz.timezone('Asia/Kathmandu'),
        'lord_howe': pytz.timezone('Australia/Lord_Howe'),
        'utc': pytz.utc,
        'fixed_90': pytz.FixedOffset(90),
        'fixed_-330': pytz.FixedOffset(-330),
    }
    row_sets = {
        'empty': [],
        'one': stamps(datetime.datetime(2020, 6, 1, 12), 1, 3600),
        'hourly_summer': stamps(datetime.datetime(2020, 6, 1), 30, 3600),
        'hourly_winter': stamps(datetime.datetime(2020, 1, 10), 30, 3600),
        # spring forward and fall back, Europe and North America 2021
        'spring_eu': stamps(datetime.datetime(2021, 3, 27, 20), 16, 1800),
        'autumn_eu': stamps(datetime.datetime(2021, 10, 30, 20), 16, 1800),
        'spring_us': stamps(datetime.datetime(2021, 3, 13, 20), 16, 1800),
        'autumn_us': stamps(datetime.datetime(2021, 11, 6, 20), 16, 1800),
        'lord_howe_change': stamps(
            datetime.datetime(2021, 4, 3, 20), 16, 1800
        ),
        'across_years': stamps(datetime.datetime(1969, 12, 28), 12, 86400 * 45),
        'old_dates': stamps(datetime.datetime(1900, 1, 1), 6, 86400 * 3000),
        'far_future': stamps(datetime.datetime(2090, 1, 1), 6, 86400 * 200),
        'seconds': stamps(datetime.datetime(2020, 6, 1, 0, 0, 59), 5, 1),
        'extra_columns': [
            ['2020-06-01 00:00:00', '1.5', 'x', ''],
            ['2020-06-01 01:00:00'],
            ['2020-06-01 02:00:00', '2.5'],
        ],
        'bad_format_in_middle': [
            ['2020-06-01 00:00:00', '1'],
            ['2020-06-01T01:00:00', '2'],
            ['2020-06-01 02:00:00', '3'],
        ],
        'fractional_seconds': [
            ['2020-06-01 00:00:00', '1'],
            ['2020-06-01 01:00:00.5', '2'],
        ],
        'date_only': [['2020-06-01', '1']],
        'impossible_date': [['2020-02-30 00:00:00', '1']],
        'blank_line': [['2020-06-01 00:00:00', '1'], [], ['2020-06-01 01:00:00']],
        'empty_text': [['', '1']],
        'padded_text': [[' 2020-06-01 00:00:00', '1']],
        'tuple_row': [('2020-06-01 00:00:00', '1')],
        'non_string': [[20200601, '1']],
        'none_row': [None],
        'repeated': stamps(datetime.datetime(2020, 6, 1), 3, 0),
    }
    for zone_name, tz in zones.items():
        for rows_name, rows in row_sets.items():
            results['rows/{}/{}'.format(zone_name, rows_name)] = attempt(
                run_rows, rows, tz
            )
    # rows from an iterator, from a csv reader, and not iterable at all
    results['rows/iterator'] = attempt(
        run_rows, iter(row_sets['spring_eu']), zones['paris']
    )
    results['rows/not_iterable'] = attempt(run_rows, None, zones['paris'])
    # something that is not a pytz time zone: no localize
    results['rows/stdlib_utc'] = attempt(
        run_rows, row_sets['hourly_summer'], datetime.timezone.utc
    )
    results['rows/stdlib_utc_empty'] = attempt(
        run_rows, [], datetime.timezone.utc
    )
    results['rows/none_tz_empty'] = attempt(run_rows, [], None)
    results['rows/none_tz_blank_line'] = attempt(run_rows, [[]], None)
    # two generators advanced in turn, repeated calls in one process
    gen_a = load_mod.generate_timestamped_rows(
        iter(row_sets['autumn_eu']), zones['paris']
    )
    gen_b = load_mod.generate_timestamped_rows(
        iter(row_sets['autumn_eu']), zones['new_york']
    )
    results['rows/interleaved'] = (
        'ok',
        canon([(next(gen_a), next(gen_b)) for _ in range(10)]),
        [],
    )

    # ---- load_data: the staging inserts
    def csv_text(header, rows):
        return header + '\n' + ''.join(','.join(row) + '\n' for row in rows)

    def run_load(precip, et, level, tz_name, preload=None):
        connection = sqlite3.connect(':memory:')
        if preload:
            connection.executescript(preload)
        files = [io.StringIO(text) for text in (precip, et, level)]
        try:
            value = load_mod.load_data(connection, *files, tz_name)
            outcome = ('returned', value)
        except BaseException as exc:  # pylint: disable=broad-except
            outcome = ('raised', type(exc).__name__, str(exc))
        # what is left unread in each file, whether a transaction is
        # open, what a rollback would undo
        positions = [stream.tell() for stream in files]
        in_transaction = connection.in_transaction
        contents = dump_database(connection)
        connection.rollback()
        after_rollback = dump_database(connection)
        connection.close()
        return (outcome, positions, in_transaction, contents, after_rollback)

    start = datetime.datetime(2020, 6, 1)
    hourly = stamps(start, 48, 3600)
    precip_ok = csv_text('Datetime,P', hourly)
    et_ok = csv_text('Datetime,ET', hourly)
    level_ok = csv_text('Datetime,WL', hourly[3:40])
    level_gap = csv_text('Datetime,WL', hourly[3:15] + hourly[19:40])
    bad_row = hourly[:10] + [['2020-13-01 00:00:00', '1']] + hourly[10:]
    duplicate_row = hourly[:10] + [hourly[4]] + hourly[10:]
    short_row = hourly[:10] + [[hourly[10][0]]] + hourly[11:]
    long_row = hourly[:10] + [hourly[10] + ['extra']] + hourly[11:]
    text_value = hourly[:10] + [[hourly[10][0], 'n/a']] + hourly[11:]
    blank_line = hourly[:10] + [[]] + hourly[10:]
    loads = {
        'ok': (precip_ok, et_ok, level_ok),
        'ok_with_gap': (precip_ok, et_ok, level_gap),
        'header_capitalised': (
            csv_text('DATETIME (local),P', hourly),
            csv_text('datetime,ET', hourly),
            level_ok,
        ),
        'bad_precip_header': (csv_text('Time,P', hourly), et_ok, level_ok),
        'bad_et_header': (precip_ok, csv_text('Time,ET', hourly), level_ok),
        'bad_level_header': (precip_ok, et_ok, csv_text('T,WL', hourly[3:40])),
        'empty_precip_file': ('', et_ok, level_ok),
        'empty_et_file': (precip_ok, '', level_ok),
        'empty_level_file': (precip_ok, et_ok, ''),
        'blank_first_line': ('\n' + precip_ok, et_ok, level_ok),
        'header_only_precip': ('Datetime,P\n', et_ok, level_ok),
        'header_only_level': (precip_ok, et_ok, 'Datetime,WL\n'),
        'bad_row_in_precip': (csv_text('Datetime,P', bad_row), et_ok, level_ok),
        'bad_row_in_et': (precip_ok, csv_text('Datetime,ET', bad_row), level_ok),
        'bad_row_in_level': (
            precip_ok,
            et_ok,
            csv_text('Datetime,WL', bad_row[3:40]),
        ),
        'duplicate_in_precip': (
            csv_text('Datetime,P', duplicate_row),
            et_ok,
            level_ok,
        ),
        'duplicate_in_level': (
            precip_ok,
            et_ok,
            csv_text('Datetime,WL', duplicate_row[3:40]),
        ),
        'short_row_in_et': (
            precip_ok,
            csv_text('Datetime,ET', short_row),
            level_ok,
        ),
        'long_row_in_et': (
            precip_ok,
            csv_text('Datetime,ET', long_row),
            level_ok,
        ),
        'text_value_in_precip': (
            csv_text('Datetime,P', text_value),
            et_ok,
            level_ok,
        ),
        'blank_line_in_level': (
            precip_ok,
            et_ok,
            csv_text('Datetime,WL', blank_line[3:40]),
        ),
        'et_shorter_than_grid': (
            precip_ok,
            csv_text('Datetime,ET', hourly[:20]),
            level_ok,
        ),
        'nonuniform_precip': (
            csv_text('Datetime,P', hourly[:20] + hourly[22:]),
            et_ok,
            level_ok,
        ),
    }
    for zone in ('Africa/Lagos', 'Europe/Paris', 'UTC', 'Asia/Kathmandu'):
        for name, (precip, et, level) in loads.items():
            results['load/{}/{}'.format(zone, name)] = attempt(
                run_load, precip, et, level, zone
            )
    # time steps across a change of offset: local hourly data is not
    # uniform in UTC there
    for name, first in (
        ('spring_eu', datetime.datetime(2021, 3, 27)),
        ('autumn_eu', datetime.datetime(2021, 10, 30)),
    ):
        rows = stamps(first, 48, 3600)
        for zone in ('Europe/Paris', 'Africa/Lagos'):
            results['load/{}/{}'.format(zone, name)] = attempt(
                run_load,
                csv_text('Datetime,P', rows),
                csv_text('Datetime,ET', rows),
                csv_text('Datetime,WL', rows[3:40]),
                zone,
            )
    results['load/unknown_zone'] = attempt(
        run_load, precip_ok, et_ok, level_ok, 'Mars/Olympus'
    )
    results['load/already_populated'] = attempt(
        run_load,
        precip_ok,
        et_ok,
        level_ok,
        'Africa/Lagos',
        preload='CREATE TABLE t (x integer);',
    )

    # The sample data, through the callers (repeated calls in one process)
    results.update(sample_data_results())
    with open(out_path, 'wb') as stream:
        pickle.dump(results, stream)


def dump_database(connection):
    """Every table and view, rows in natural order, floats exact"""
    cursor = connection.cursor()
    names = [
        name
        for name, in cursor.execute(
            "SELECT name FROM sqlite_master "
            "WHERE type IN ('table', 'view') ORDER BY name"
        ).fetchall()
    ]
    return [
        (name, cursor.execute('SELECT * FROM "{}"'.format(name)).fetchall())
        for name in names
    ]


def sample_path(kind, sample):
    return os.path.join(
        os.environ['PYTHONPATH'],
        'spowtd',
        'test',
        'sample_data',
        '{}_{}.txt'.format(kind, sample),
    )


def load_sample(connection, sample, time_zone_name='Africa/Lagos'):
    """Load one of the sample data sets, as the test fixtures do"""
    import spowtd.load as load_mod

    files = [
        open(sample_path(kind, sample), 'rt', encoding='utf-8-sig')
        for kind in ('precipitation', 'evapotranspiration', 'water_level')
    ]
    try:
        load_mod.load_data(connection, *files, time_zone_name=time_zone_name)
    finally:
        for stream in files:
            stream.close()


def sample_data_results():
    """Run the CLI steps load .. rise on both sample data sets"""
    import sqlite3
    import spowtd.classify as classify_mod
    import spowtd.recession as recession_mod
    import spowtd.rise as rise_mod
    import spowtd.zeta_grid as zeta_grid_mod

    results = {}
    for sample in (1, 2):
        connection = sqlite3.connect(':memory:')
        load_sample(connection, sample)
        results['sample_{}/loaded'.format(sample)] = (
            'ok',
            canon(dump_database(connection)),
            [],
        )
        classify_mod.classify_intervals(
            connection,
            storm_rain_threshold_mm_h=8.0,
            rising_jump_threshold_mm_h=5.0,
        )
        zeta_grid_mod.populate_zeta_grid(connection, grid_interval_mm=1.0)
        recession_mod.find_recession_offsets(connection)
        rise_mod.find_rise_offsets(connection)
        results['sample_{}/dump'.format(sample)] = (
            'ok',
            canon(dump_database(connection)),
            [],
        )
        connection.close()
    return results


if __name__ == '__main__':
    if len(sys.argv) == 3 and sys.argv[1] == '--worker':
        # import the package from PYTHONPATH, not from the script's directory
        sys.path[:] = [
            entry
            for entry in sys.path
            if os.path.abspath(entry or os.curdir) != ROOT
        ]
        worker(sys.argv[2])
    else:
        main()
