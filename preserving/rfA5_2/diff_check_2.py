"""Differential check for refactor2.diff (classify_interstorms)"""
import diff_common as dc

orig, new, orig_root, new_root = dc.load_versions(2)

counts = dc.check_databases(orig, new, orig_root)
print("classify_intervals on sample + synthetic databases:", counts)
assert counts["ok"] >= 40 and counts["exc"] >= 6, counts

INTERVALS = (
    "SELECT DISTINCT data_interval FROM grid_time "
    "WHERE data_interval IS NOT NULL ORDER BY 1"
)


def direct(mod, make, threshold, preinsert=None, bad_interval=False):
    """classify_interstorms on every data interval of a fresh database"""
    conn = make()
    cursor = conn.cursor()
    if preinsert is not None:
        cursor.execute(
            "INSERT INTO zeta_interval VALUES (?, 'interstorm', ?)", preinsert
        )
    intervals = [r[0] for r in conn.execute(INTERVALS)]
    if bad_interval:
        intervals = [None, -7, "x"] + intervals
    outs = [
        dc.run_captured(mod.classify_interstorms, cursor, data_interval, threshold)
        for data_interval in intervals
    ]
    state = (outs, dc.dump_db(conn), conn.in_transaction)
    rows = conn.execute(
        "SELECT start_epoch, thru_epoch FROM zeta_interval ORDER BY start_epoch"
    ).fetchall()
    conn.close()
    return state, rows


n = n_conflict = 0
for label, make, kwargs in dc.db_cases(orig_root):
    for threshold in (kwargs.get("rising_jump_threshold_mm_h", 8.0), 0.0, 1e9, -5):
        (a, rows), (b, _) = (direct(mod, make, threshold) for mod in (orig, new))
        for x, y in zip(a[0], b[0]):
            dc.compare(label, x, y)
        assert a[1:] == b[1:], (label, threshold)
        n += 1
    # bad data interval labels
    (a, _), (b, _) = (direct(mod, make, 8.0, bad_interval=True) for mod in (orig, new))
    for x, y in zip(a[0], b[0]):
        dc.compare(label, x, y)
    assert a[1:] == b[1:], label
    # a row already present makes the insertion of one series fail part-way
    (_, rows), _ = direct(orig, make, 8.0), None
    if len(rows) >= 3:
        start, thru = rows[len(rows) // 2]
        (a, _), (b, _) = (
            direct(mod, make, 8.0, preinsert=(start, thru)) for mod in (orig, new)
        )
        for x, y in zip(a[0], b[0]):
            dc.compare(label, x, y)
        assert any(x[0][0] == "exc" for x in a[0]), label
        assert a[1:] == b[1:], label
        n_conflict += 1
print("classify_interstorms direct calls compared:", n, "conflict cases:", n_conflict)
print("diff_check_2 OK")
