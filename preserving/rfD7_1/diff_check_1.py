"""Differential check for refactor1.diff (simulate_rise measured-curve query)

Run: cd /tmp/rf_D && /venv/bin/python diff_check_1.py

"""

import io
import os
import sqlite3
import sys

sys.path.insert(0, '/tmp/rf_D')
import dc_common as dc  # noqa: E402


def databases():
    """(name, path) of every database exercised"""
    work = dc.private_dir()
    dbs = [('sample1', dc.sample_db(1)), ('sample2', dc.sample_db(2))]
    specs = {
        'synth_a': dict(seed=11),
        'synth_b': dict(seed=12, n_rise=12, grid=1.0),
        'synth_c': dict(seed=13, wide=False, grid=0.5),
        # Ties in ORDER BY zeta_mm: every level maps to +-0.0
        'grid_zero': dict(seed=14, grid=0.0),
        # Order reversed relative to zeta_number
        'grid_negative': dict(seed=15, grid=-2.5),
        # zeta_mm overflows to +-Inf (ties) and 0 * Inf = NaN = NULL
        'grid_inf': dict(seed=16, grid=9e999),
        # Text in a REAL column: zeta_number * 'abc' is integer 0
        'grid_text': dict(seed=17, grid='abc'),
        # Levels without discrete_zeta row (FK not enforced): dropped
        'missing_levels': dict(seed=18, missing_levels=(-3, 0, 7, 8)),
        'single_storm': dict(seed=19, n_rise=1),
        'no_grid': dict(seed=20, grid=None),
        'no_rise': dict(seed=21, n_rise=0),
    }
    for name, spec in specs.items():
        path = os.path.join(work, 'c1_%s.db' % name)
        dc.synthetic_db(path, **spec)
        dbs.append((name, path))
    # Single level only: one-element grid
    path = os.path.join(work, 'c1_one_level.db')
    dc.synthetic_db(path, seed=22, zeta_range=(4, 5))
    dbs.append(('one_level', path))
    # Entirely empty schema
    path = os.path.join(work, 'c1_empty.db')
    dc.schema_db(path).close()
    dbs.append(('empty', path))
    return dbs


def worker():
    import spowtd.simulate_rise as simulate_rise_mod

    results = {}
    for name, path in databases():
        for kind in ('peatclsm', 'spline'):
            for observations_only in (False, True):
                connection, private = dc.open_copy(path, 'c1')
                outfile = io.StringIO()
                outcome = dc.call(
                    simulate_rise_mod.simulate_rise,
                    connection,
                    io.StringIO(dc.parameter_text(kind)),
                    outfile,
                    observations_only,
                )
                results[(name, kind, observations_only)] = {
                    'outcome': outcome,
                    'text': outfile.getvalue(),
                    'values': dc.flat_values(connection.log),
                    'nrows': [len(e['rows']) for e in connection.log],
                    'plans': [e['plan'] for e in connection.log],
                    'sql': [e['sql'] for e in connection.log],
                    'errors': [e['error'] for e in connection.log],
                    'in_transaction': connection.in_transaction,
                    'dump': dc.dump(connection),
                }
                connection.close()
                os.remove(private)
    return results


ALIASES = {
    'riz': 'rising_interval_zeta',
    'measured_rise': 'average_rising_depth',
}


def check(orig, new):
    assert sorted(orig) == sorted(new)
    n_ok = n_exc = 0
    for key in sorted(orig):
        (o, n) = (orig[key], new[key])
        for field in (
            'outcome',
            'text',
            'values',
            'nrows',
            'errors',
            'in_transaction',
            'dump',
        ):
            dc.compare(o[field], n[field], '%r %s' % (key, field))
        # Same access path, hence same accumulation order inside AVG
        assert len(o['plans']) == len(n['plans']) == 1
        dc.compare(
            dc.scan_signature(o['plans'][0], ALIASES),
            dc.scan_signature(n['plans'][0], ALIASES),
            '%r plan' % (key,),
        )
        assert o['sql'] != n['sql'], 'refactored SQL was not exercised'
        if o['outcome'][0] == 'ok':
            n_ok += 1
        else:
            n_exc += 1
    # The scenarios must reach both normal output and failures
    assert n_ok >= 30 and n_exc >= 4, (n_ok, n_exc)
    for key in sorted(orig):
        print(
            key,
            orig[key]['outcome'][:2],
            'rows=%s' % orig[key]['nrows'],
            'text=%d bytes' % len(orig[key]['text']),
        )


if __name__ == '__main__':
    dc.main(os.path.abspath(__file__), 1, worker, check)
