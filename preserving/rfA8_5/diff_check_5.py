"""Differential check for refactor5.diff (match_all_storms: per-match work, executemany)

Run: cd /tmp/rf_A && PYTHONPATH=/tmp/rf_A /venv/bin/python diff_check_5.py
"""

import random

from dc_common import (
    FakeCursor,
    LogCapture,
    dump,
    load_variants,
    loaded_sample_db,
    outcome,
    same,
    synthetic_db,
)

orig, new = load_variants(5)
log = LogCapture()
rng = random.Random(55)


def random_interval(n, many_storms):
    rain, zeta = [], []
    level = 0.0
    raining = rising = False
    for _ in range(n):
        raining ^= rng.random() < (0.45 if many_storms else 0.2)
        rising ^= rng.random() < (0.15 if many_storms else 0.25)
        rain.append(rng.choice([5.0, 9.0, 20.0]) if raining else rng.choice([0.0, 1.0]))
        level += rng.choice([3.0, 4.0, 10.0]) if rising else rng.choice([-1.0, 0.0, 0.5])
        zeta.append(level)
    return rain, zeta


def random_intervals(trial):
    intervals = []
    start = rng.choice([0, 1_000_000_800])
    for _ in range(rng.choice([1, 2, 3])):
        n = rng.choice([2, 3, 6, 30, 80, 200])
        rain, zeta = random_interval(n, many_storms=trial % 2 == 0)
        intervals.append((start, rain, zeta))
        start += (n + rng.choice([1, 5])) * 1800
    return intervals


# --- sample data: complete database contents (rowids, values, types) and log
n_sample = 0
for sample in (1, 2):
    for thresholds in ((8.0, 5.0), (4.0, 8.0), (0.5, 0.25)):
        results = []
        for module in (orig, new):
            connection = loaded_sample_db(sample)
            result = outcome(
                module.classify_intervals,
                connection,
                storm_rain_threshold_mm_h=thresholds[0],
                rising_jump_threshold_mm_h=thresholds[1],
            )
            results.append(
                (result, connection.in_transaction, dump(connection), log.take())
            )
            connection.close()
        assert results[0][0][0] == "ok"
        assert results[0][2]["storm"], "sample has storms"
        same(results[0], results[1], "classify sample {} {}".format(sample, thresholds))
        n_sample += 1

# --- synthetic databases, with and without foreign key enforcement
n_synthetic = n_with_storms = 0
for trial in range(150):
    intervals = random_intervals(trial)
    foreign_keys = trial % 3 != 0
    results = []
    for module in (orig, new):
        connection = synthetic_db(intervals, foreign_keys=foreign_keys)
        result = outcome(module.classify_intervals, connection, 4.0, 5.0)
        results.append((result, connection.in_transaction, dump(connection), log.take()))
        connection.close()
    same(results[0], results[1], "synthetic db {}".format(trial))
    n_synthetic += 1
    n_with_storms += bool(results[0][2]["storm"])
assert n_with_storms > 50

# --- match_all_storms called on its own: nothing to match leaves no transaction
# open in either variant; with matches, same rows
for intervals in (
    [(0, [0.0, 0.0, 0.0], [0.0, 0.0, 0.0])],
    [(0, [9.0, 9.0, 0.0], [0.0, -1.0, -2.0])],
    [(0, [0.0, 0.0, 0.0, 0.0], [0.0, 10.0, 20.0, 20.0])],
    [(0, [0.0, 9.0, 9.0, 0.0], [0.0, 0.0, 10.0, 20.0])],
    [(0, [9.0, 9.0], [0.0, 10.0])],
):
    results = []
    for module in (orig, new):
        connection = synthetic_db(intervals)
        cursor = connection.cursor()
        result = outcome(module.match_all_storms, cursor, 0, 4.0, 5.0)
        results.append((result, connection.in_transaction, dump(connection)))
        connection.close()
    same(results[0], results[1], "match_all_storms alone {}".format(intervals))

# --- failures.  The exception (type and message) is the same; the rows written
# before the failure are never committed by classify_intervals, and after the
# rollback that every caller performs the databases are the same.
n_fail = n_partial_differs = 0
# (a) a storm that rains through the last time step of the grid, matched with a
# rise, while foreign keys are enforced and there is no grid time after it
for trial in range(30):
    n = rng.choice([4, 10, 40])
    rain, zeta = random_interval(n, many_storms=True)
    rain[-2:] = [9.0, 9.0]
    zeta[-3:] = [zeta[-4] if n > 3 else 0.0, 50.0 + zeta[-4], 100.0 + zeta[-4]]
    results = []
    partial = []
    for module in (orig, new):
        connection = synthetic_db([(0, rain, zeta)], extra_grid_time=False)
        result = outcome(module.classify_intervals, connection, 4.0, 5.0)
        partial.append(dump(connection))
        connection.rollback()
        results.append((result, dump(connection)))
        connection.close()
    assert results[0][0][:2] == ("raised", "IntegrityError"), results[0][0]
    same(results[0], results[1], "end-of-grid storm {}".format(trial))
    n_fail += 1
    n_partial_differs += partial[0] != partial[1]
# (b) a storm that is in the table already when match_all_storms is called
for trial in range(60):
    intervals = random_intervals(trial)
    probe = synthetic_db(intervals)
    orig.classify_intervals(probe, 4.0, 5.0)
    storms = probe.execute("SELECT start_epoch, thru_epoch FROM storm").fetchall()
    probe.close()
    if not storms:
        continue
    planted = rng.choice(storms)
    if trial % 2:  # same start, other end: the INSERT fails instead of the check
        planted = (planted[0], planted[1] + 1800)
    results = []
    partial = []
    for module in (orig, new):
        connection = synthetic_db(intervals, foreign_keys=False)
        connection.execute("INSERT INTO storm VALUES (?, ?)", planted)
        connection.commit()
        result = outcome(module.classify_intervals, connection, 4.0, 5.0)
        partial.append(dump(connection))
        connection.rollback()
        results.append((result, dump(connection)))
        connection.close()
    assert results[0][0][0] == "raised", results[0][0]
    assert results[0][0][1] == ("IntegrityError" if trial % 2 else "AssertionError")
    same(results[0], results[1], "planted storm {}".format(trial))
    n_fail += 1
    n_partial_differs += partial[0] != partial[1]


# --- a recording cursor: the same existence checks in the same order, and per
# statement the same rows in the same order (values and types)
def per_statement(calls):
    checks = [c for c in calls if c[0] == "exists"]
    rows = {}
    for kind, text, params in calls:
        if kind == "execute":
            rows.setdefault(text, []).append(params)
        elif kind == "executemany":
            assert params[0] == "list"
            rows.setdefault(text, []).extend(params[1])
    return checks, rows


n_fake = 0
for trial in range(400):
    n = rng.choice([2, 3, 6, 30, 80])
    rain, zeta = random_interval(n, many_storms=trial % 2 == 0)
    kind = trial % 4
    if kind == 1:  # integer-valued data, integer dtype arrays
        rain = [int(r) for r in rain]
        zeta = [int(z) for z in zeta]
    step = rng.choice([60, 1800, 3600])
    rows = [(1_361_318_400 + i * step, z, r) for i, (r, z) in enumerate(zip(rain, zeta))]
    if kind == 2 and n > 2:  # non-uniform steps: ValueError in both
        rows[-1] = (rows[-1][0] + 1,) + rows[-1][1:]
    runs = []
    for module in (orig, new):
        cursor = FakeCursor(rows, time_step_h=step / 3600.0)
        log.take()
        result = outcome(module.match_all_storms, cursor, 0, 4.0, 5.0)
        runs.append((result, per_statement(cursor.calls), log.take()))
    same(runs[0], runs[1], "fake cursor {}".format(trial))
    n_fake += 1

print(
    "diff_check_5 OK: {} sample runs, {} synthetic databases ({} with storms), "
    "{} failing runs (same exception, same database after rollback; uncommitted "
    "partial rows differed in {}), {} recorded-cursor runs".format(
        n_sample, n_synthetic, n_with_storms, n_fail, n_partial_differs, n_fake
    )
)
