"""Differential check for refactor2.diff (classify_interstorms: rate vector and flags)

Run: cd /tmp/rf_A && PYTHONPATH=/tmp/rf_A /venv/bin/python diff_check_2.py
"""

import random

from dc_common import (
    FakeCursor,
    LogCapture,
    dump,
    load_variants,
    loaded_sample_db,
    outcome,
    same,
    synthetic_db,
)

orig, new = load_variants(2)
log = LogCapture()


def run_fake(module, rows, threshold):
    cursor = FakeCursor(rows)
    result = outcome(module.classify_interstorms, cursor, 7, threshold)
    return (result, cursor.calls, log.take())


def both_fake(rows, threshold, what):
    a = run_fake(orig, rows, threshold)
    b = run_fake(new, rows, threshold)
    same(a, b, what)
    return a


# --- sample data: the whole classify step, every table compared (values and types)
n_sample = 0
for sample in (1, 2):
    for thresholds in ((8.0, 5.0), (4.0, 8.0), (0.5, 0.25)):
        results = []
        for module in (orig, new):
            connection = loaded_sample_db(sample)
            result = outcome(
                module.classify_intervals,
                connection,
                storm_rain_threshold_mm_h=thresholds[0],
                rising_jump_threshold_mm_h=thresholds[1],
            )
            results.append((result, dump(connection), log.take()))
            connection.close()
        assert results[0][0][0] == "ok"
        same(results[0], results[1], "classify sample {} {}".format(sample, thresholds))
        n_sample += 1

# --- synthetic rows fed through a recording cursor: reaches integer dtypes, NULL
# rain flags, a single row, no rows, non-uniform steps, non-finite levels
rng = random.Random(8_2)
n_ok = n_raised = 0
for trial in range(3000):
    n = rng.choice([0, 1, 2, 2, 3, 4, 7, 20, 60])
    step = rng.choice([1, 60, 1800, 3600, 7200])
    start = rng.choice([0, 1_361_318_400, -86_400])
    kind = trial % 8
    rows = []
    level = rng.choice([0, -250, 13])
    for i in range(n):
        if kind in (0, 1):  # integer-valued levels, integer dtype
            level += rng.choice([-1, 0, 0, 1, 3, 9])
            zeta = level
        elif kind == 2:  # integer-valued floats
            level += rng.choice([-1, 0, 0, 1, 3, 9])
            zeta = float(level)
        else:
            level += rng.choice([-0.3, 0.0, 0.1, 2.0, 4.0, 4.000000000000001, 9.7])
            zeta = float(level)
        raining = rng.choice([0, 0, 0, 1])
        if kind == 4 and rng.random() < 0.2:
            raining = None  # NULL rainfall intensity
        rows.append((start + i * step, zeta, raining))
    if kind == 5 and n > 2:  # non-uniform time steps
        rows[-1] = (rows[-1][0] + 1,) + rows[-1][1:]
    if kind == 6 and n > 1:  # non-finite level
        k = rng.randrange(n)
        rows[k] = (rows[k][0], rng.choice([float("nan"), float("inf")]), rows[k][2])
    if kind == 7 and n > 1:  # float epochs (never produced by the schema)
        rows = [(float(t), z, r) for (t, z, r) in rows]
    threshold = rng.choice([8.0, 5.0, 2, 0.0, 4.0, 1e-9])
    result = both_fake(rows, threshold, "fake trial {}".format(trial))
    if result[0][0] == "ok":
        n_ok += 1
    else:
        n_raised += 1

# threshold equal to a rate exactly (strictness of the comparison)
for zeta in ([0.0, 4.0, 8.0, 8.0], [0, 4, 8, 8], [1.5, 1.5], [0.0, -4.0]):
    rows = [(1800 * i, z, 0) for i, z in enumerate(zeta)]
    for threshold in (8.0, 8, 7.999999999999999, 0.0, -8.0):
        both_fake(rows, threshold, "ties")
        n_ok += 1

# --- synthetic databases, repeated calls in one process
for trial in range(60):
    intervals = []
    start = 1_000_000_800
    for _ in range(rng.choice([1, 2, 3])):
        n = rng.choice([2, 3, 6, 30, 80])
        level = 0.0
        rain, zeta = [], []
        for i in range(n):
            rain.append(rng.choice([0.0, 0.0, 0.0, 1.0, 9.0]))
            level += rng.choice([-1.0, -0.5, 0.0, 0.25, 3.0, 6.0])
            zeta.append(level)
        intervals.append((start, rain, zeta))
        start += (n + 5) * 1800
    results = []
    for module in (orig, new):
        connection = synthetic_db(intervals)
        result = outcome(module.classify_intervals, connection, 4.0, 5.0)
        results.append((result, dump(connection), log.take()))
        connection.close()
    same(results[0], results[1], "synthetic db {}".format(trial))

print(
    "diff_check_2 OK: {} sample runs, {} synthetic ok, {} synthetic raising "
    "(identically)".format(n_sample, n_ok, n_raised)
)
