"""Differential check for refactor1.diff (get_true_interval_masks)

Loads spowtd/classify.py twice -- the committed version and the committed
version with refactor1.diff applied -- and asserts exactly equal results.
"""

import importlib.util
import os
import sqlite3
import subprocess
import sys
import tempfile
import types

import numpy as np

ROOT = os.path.dirname(os.path.abspath(__file__))
PATCH = os.path.join(ROOT, "refactor1.diff")
sys.path.insert(0, ROOT)


def load_variants():
    """Return (original module, refactored module)"""
    tmp = tempfile.mkdtemp(prefix="rfA_dc_")
    source = subprocess.check_output(
        ["git", "-C", ROOT, "show", "HEAD:spowtd/classify.py"]
    )
    mods = []
    for name in ("orig", "new"):
        pkg = os.path.join(tmp, name, "spowtd")
        os.makedirs(pkg)
        path = os.path.join(pkg, "classify.py")
        with open(path, "wb") as f:
            f.write(source)
        if name == "new":
            subprocess.check_call(["git", "apply", PATCH], cwd=os.path.join(tmp, name))
            with open(path, "rb") as f:
                assert f.read() != source, "patch changed nothing"
        spec = importlib.util.spec_from_file_location("classify_" + name, path)
        mod = importlib.util.module_from_spec(spec)
        spec.loader.exec_module(mod)
        mods.append(mod)
    return mods


def canon(value):
    """Type-strict canonical form"""
    if isinstance(value, np.ndarray):
        return ("ndarray", str(value.dtype), value.shape, value.tobytes())
    if isinstance(value, (list, tuple)):
        return (type(value).__name__, [canon(v) for v in value])
    if isinstance(value, dict):
        return ("dict", [(canon(k), canon(v)) for k, v in value.items()])
    if isinstance(value, types.GeneratorType):
        return ("generator", [canon(v) for v in value])
    return (type(value).__name__, repr(value))


def run(func, *args):
    """Result or exception of func(*args), canonical"""
    try:
        return ("ok", canon(func(*args)))
    except BaseException as exc:  # pylint: disable=broad-except
        return ("raise", type(exc).__name__, str(exc))


def dump_db(connection):
    """All rows (with storage classes) of the tables classify writes"""
    out = {}
    for table in (
        "thresholds",
        "grid_time_flags",
        "zeta_interval",
        "storm",
        "zeta_interval_storm",
    ):
        cursor = connection.execute(f"SELECT * FROM {table} ORDER BY rowid")
        cols = [d[0] for d in cursor.description]
        rows = cursor.fetchall()
        types_ = connection.execute(
            "SELECT {} FROM {} ORDER BY rowid".format(
                ", ".join(f"typeof({c})" for c in cols), table
            )
        ).fetchall()
        out[table] = (cols, rows, types_)
    return out


def classify_sample(mod, sample, storm_thr, jump_thr):
    """Load sample data and classify with mod; return DB dump or exception"""
    import spowtd.load as load_mod

    data_dir = os.path.join(ROOT, "spowtd", "test", "sample_data")
    connection = sqlite3.connect(":memory:")
    files = [
        open(os.path.join(data_dir, f"{kind}_{sample}.txt"), "rt", encoding="utf-8-sig")
        for kind in ("precipitation", "evapotranspiration", "water_level")
    ]
    try:
        load_mod.load_data(
            connection=connection,
            precipitation_data_file=files[0],
            evapotranspiration_data_file=files[1],
            water_level_data_file=files[2],
            time_zone_name="Africa/Lagos",
        )
    finally:
        for f in files:
            f.close()
    try:
        mod.classify_intervals(connection, storm_thr, jump_thr)
        return ("ok", dump_db(connection))
    except BaseException as exc:  # pylint: disable=broad-except
        return ("raise", type(exc).__name__, str(exc), dump_db(connection))


def main():
    orig, new = load_variants()
    n_cases = 0
    rng = np.random.default_rng(20240927)
    vectors = [
        np.array([], dtype=bool),
        np.array([True]),
        np.array([False]),
        np.ones(7, dtype=bool),
        np.zeros(7, dtype=bool),
        np.array([True, False, True, True, False, False, True]),
        np.array([False, True, True, False, True]),
        # bad inputs
        np.array([0, 1, 1, 0]),
        np.array([0.0, 1.0]),
        np.array([True, None], dtype=object),
        np.array(True),
        np.array([[True, False], [False, True]]),
        [True, False],
    ]
    for length in (1, 2, 3, 5, 17, 64, 1000):
        for prob in (0.1, 0.5, 0.9):
            for _ in range(20):
                vectors.append(rng.random(length) < prob)
    for vector in vectors:
        arg_o = vector.copy() if isinstance(vector, np.ndarray) else list(vector)
        arg_n = vector.copy() if isinstance(vector, np.ndarray) else list(vector)
        res_o = run(orig.get_true_interval_masks, arg_o)
        res_n = run(new.get_true_interval_masks, arg_n)
        assert res_o == res_n, (vector, res_o, res_n)
        # input must not be modified differently
        assert canon(arg_o) == canon(arg_n)
        n_cases += 1
    # The call is eager about validation and lazy about masks in both
    for mod in (orig, new):
        result = mod.get_true_interval_masks(np.array([True, False, True]))
        assert isinstance(result, types.GeneratorType)
    # Callers: match_storms (synthetic) and the whole classification
    for _ in range(200):
        n = int(rng.integers(2, 60))
        rain = np.where(rng.random(n) < 0.4, rng.random(n) * 20, 0.0)
        head = np.cumsum(np.where(rain > 4, rain, -0.3) + rng.normal(0, 0.5, n))
        res_o = run(orig.match_storms, rain.copy(), head.copy(), 4.0, 3.0)
        res_n = run(new.match_storms, rain.copy(), head.copy(), 4.0, 3.0)
        assert res_o == res_n, (rain, head, res_o, res_n)
        n_cases += 1
    for sample in (1, 2):
        for thresholds in ((8.0, 5.0), (4.0, 8.0), (2.0, 2.0), (1000.0, 1000.0)):
            res_o = classify_sample(orig, sample, *thresholds)
            res_n = classify_sample(new, sample, *thresholds)
            assert res_o == res_n, (sample, thresholds)
            print(
                "sample", sample, thresholds, res_o[0],
                {k: len(v[1]) for k, v in res_o[-1].items()},
            )
            n_cases += 1
    print(f"diff_check_1: OK ({n_cases} cases identical)")


if __name__ == "__main__":
    main()
