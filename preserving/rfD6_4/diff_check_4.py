"""Differential check for refactor4.diff (SplineTransmissivity.__call__ / call_scalar)"""

import os
import sys

sys.path.insert(0, os.path.dirname(os.path.abspath(__file__)))
import diff_check_common as common  # noqa: E402


def collect():
    import copy
    import io

    import numpy as np
    import yaml

    import spowtd.plot_transmissivity as plot_mod
    import spowtd.simulate_recession as simulate_mod
    import spowtd.specific_yield as sy_mod
    import spowtd.transmissivity as transmissivity_mod
    from spowtd.test import conftest

    results = {}
    with open(conftest.get_parameter_file_path('spline'), 'rt') as infile:
        sample = yaml.safe_load(infile)
    sample_T = sample['transmissivity']

    functions = {
        'sample': transmissivity_mod.create_transmissivity_function(
            copy.deepcopy(sample_T)
        ),
        'two_knots': transmissivity_mod.SplineTransmissivity(
            [-100.0, 50.0], [0.01, 10.0], 2.5
        ),
        'flat_top': transmissivity_mod.SplineTransmissivity(
            [-300, -100, 0, 100], [1e-3, 1.0, 50.0, 50.0], 0
        ),
        'int_Tmin': transmissivity_mod.SplineTransmissivity(
            [-300, -100, 0, 100], [1e-3, 1.0, 50.0, 80.0], 3
        ),
        'float32_Tmin': transmissivity_mod.SplineTransmissivity(
            [-300, -100, 0, 100], [1e-3, 1.0, 50.0, 80.0], np.float32(0.1)
        ),
        'str_Tmin': transmissivity_mod.SplineTransmissivity(
            [-300, -100, 0, 100], [1e-3, 1.0, 50.0, 80.0], 'seven'
        ),
        'none_Tmin': transmissivity_mod.SplineTransmissivity(
            [-300, -100, 0, 100], [1e-3, 1.0, 50.0, 80.0], None
        ),
        'array_Tmin': transmissivity_mod.SplineTransmissivity(
            [-300, -100, 0, 100], [1e-3, 1.0, 50.0, 80.0], np.array([1.5])
        ),
    }
    for name, function in functions.items():
        zmin = float(function.zeta_knots_mm.min())
        zmax = float(function.zeta_knots_mm.max())
        span = zmax - zmin
        points = [
            zmin - 2 * span,
            zmin - 1.0,
            float(np.nextafter(zmin, -np.inf)),
            zmin,
            float(np.nextafter(zmin, np.inf)),
            zmin + 1e-3,
            zmin + 0.2 * span,
            float(function.zeta_knots_mm[1]),
            zmin + 0.5 * span,
            zmin + 0.9 * span,
            float(np.nextafter(zmax, -np.inf)),
            zmax,
            float(np.nextafter(zmax, np.inf)),
            zmax + 10.0,
            float('nan'),
            float('inf'),
            float('-inf'),
        ]
        scalars = {}
        for index, point in enumerate(points):
            scalars[('float', index)] = point
            scalars[('np.float64', index)] = np.float64(point)
        scalars.update(
            {
                'int_below': int(zmin) - 5,
                'int_at_min': int(zmin),
                'int_inside': int(zmin) + 7,
                'np_int': np.int64(int(zmin) + 11),
                'np_float32': np.float32(zmin + 0.3 * span),
                'bool': True,
                'str': 'high',
                'None': None,
                'complex': 1 + 2j,
            }
        )
        for label, value in scalars.items():
            results[(name, '__call__', label)] = common.outcome(function, value)
            results[(name, 'call_scalar', label)] = common.outcome(
                function.call_scalar, value
            )
        inside = [p for p in points[:11]]
        sequences = {
            'array': np.array(inside),
            'list': list(inside),
            'tuple': tuple(inside),
            'generator': (p for p in inside),
            'iterator': iter(inside),
            'int_array': np.arange(int(zmin) - 3, int(zmin) + 30, 6),
            'int_list': list(range(int(zmin) - 3, int(zmin) + 30, 6)),
            'float32_array': np.array(inside, dtype='float32'),
            'empty_array': np.array([], dtype='float64'),
            'empty_list': [],
            'empty_tuple': (),
            'one_element': [zmin + 0.4 * span],
            'all_below': np.array([zmin - 3.0, zmin - 2.0, zmin]),
            'zero_d': np.array(zmin + 0.4 * span),
            'two_d': np.array(inside[:10]).reshape(2, 5),
            'column': np.array(inside[:4]).reshape(4, 1),
            'with_nan': [zmin + 1.0, float('nan'), zmin + 2.0],
            'above_top': [zmin + 1.0, zmax + 10.0],
            'with_str': [zmin + 1.0, 'x'],
            'with_none': [None],
            'object_array': np.array([zmin - 1, zmin + 5.5], dtype=object),
            'dict_keys': {zmin + 1.0: 'a', zmin + 2.0: 'b'}.keys(),
            'set': {zmin + 3.0},
            'test_suite_grid': np.linspace(-0.35, 0.2, 10) * 1000,
        }
        for label, value in sequences.items():
            results[(name, '__call__ seq', label)] = common.outcome(
                function, value
            )
        results[(name, 'call_scalar 1-element array')] = common.outcome(
            function.call_scalar, np.array([zmin + 0.3 * span])
        )
        results[(name, 'call_scalar array')] = common.outcome(
            function.call_scalar, np.array([zmin + 0.3 * span, zmin])
        )

    # Callers: the transmissivity grid used for plotting / dumping ...
    for n_points in (1, 7, 30):
        with open(conftest.get_parameter_file_path('spline'), 'rt') as infile:
            results[('grid', n_points)] = common.outcome(
                plot_mod.grid_transmissivity, infile, -40.0, 20.0, n_points
            )
    outfile = io.StringIO()
    with open(conftest.get_parameter_file_path('spline'), 'rt') as infile:
        status = common.outcome(
            plot_mod.dump_transmissivity, infile, -35.0, 15.0, 12, outfile
        )
    results[('dump',)] = (status, outfile.getvalue())
    # ... and the recession curve integration
    specific_yield = sy_mod.create_specific_yield_function(
        copy.deepcopy(sample['specific_yield'])
    )
    for curvature_km in (0.0, 1e-3, 0.05):
        results[('recession', curvature_km)] = common.outcome(
            simulate_mod.compute_recession_curve,
            specific_yield=specific_yield,
            transmissivity_m2_d=functions['sample'],
            zeta_grid_mm=np.linspace(150.0, -320.0, 25),
            mean_elapsed_time_d=3.0,
            curvature_km=curvature_km,
            et_mm_d=4.0,
        )
    return results


if __name__ == '__main__':
    common.main(os.path.abspath(__file__), 'refactor4.diff', collect)
