#!/venv/bin/python
"""Differential check for refactor2.diff: spowtd.load.populate_water_level

The labelling of grid times with data intervals is moved into the
helper label_data_intervals; the list of interval boundaries is built
by a loop instead of sum(..., []), the intervals are paired off by
slicing and numbered by enumerate, and the label array is made by
np.full.

Runs the scenarios below twice in sub-processes, once against the tree
of HEAD (exported with git archive into a temporary directory) and once
against the work tree (which must have the refactoring applied), and
compares the outcomes exactly: exception type and message, the SQL
text and the rows passed to the cursor in order (values and their
Python types), the dump of the database, the transaction state, and
that the argument is left as it was.  populate_water_level is called
directly on databases made by hand (regular and gappy water level
series, grids of many types and shapes, wrong values in the staging
table, a grid_time table that does not match) and through load_data on
the sample data.

Usage: PYTHONPATH=/tmp/wt/rf9_B /venv/bin/python diff_check_2.py
"""

import hashlib
import importlib
import io
import os
import pickle
import subprocess
import sys
import tempfile

HERE = os.path.dirname(os.path.abspath(__file__))
PATCH = 'refactor2.diff'
MODULE_NAME = 'spowtd.load'
MODULE = 'spowtd/load.py'
MARKER = 'def label_data_intervals('
SAMPLE_DATA_DIR = os.path.join(HERE, 'spowtd', 'test', 'sample_data')


# ---------------------------------------------------------------- canon


def canon(obj):
    """Describe obj exactly (type, dtype, bytes) with plain objects"""
    import numpy as np

    if isinstance(obj, np.ndarray):
        if obj.dtype == object:
            return ('ndarray-object', obj.shape, [canon(v) for v in obj.flat])
        return ('ndarray', obj.dtype.str, obj.shape, obj.tobytes())
    if isinstance(obj, np.generic):
        return ('npscalar', type(obj).__name__, obj.dtype.str, obj.tobytes())
    if isinstance(obj, bool) or obj is None:
        return ('const', repr(obj))
    if isinstance(obj, int):
        return ('int', obj)
    if isinstance(obj, float):
        return ('float', obj.hex())
    if isinstance(obj, (str, bytes)):
        return (type(obj).__name__, obj)
    if isinstance(obj, (list, tuple)):
        return (type(obj).__name__, [canon(v) for v in obj])
    if isinstance(obj, dict):
        # order of insertion is part of the result
        return ('dict', [(canon(k), canon(v)) for k, v in obj.items()])
    if isinstance(obj, (set, frozenset)):
        return (type(obj).__name__, sorted(repr(canon(v)) for v in obj))
    if isinstance(obj, BaseException):
        return (
            'exception',
            type(obj).__module__ + '.' + type(obj).__qualname__,
            str(obj),
            canon(obj.args),
        )
    return ('other', type(obj).__name__, repr(obj))


def call(function, *args, **kwargs):
    """Outcome of a call: its value or its exception"""
    try:
        return ('returned', canon(function(*args, **kwargs)))
    except BaseException as exc:  # pylint: disable=broad-except
        return ('raised', canon(exc))


# ------------------------------------------------------------ scenarios


class RecordingCursor:
    """Cursor that records the SQL text it is given"""

    def __init__(self, cursor, record):
        self._cursor = cursor
        self._record = record

    def execute(self, sql, *args):
        self._record.append(('cursor.execute', sql))
        return self._cursor.execute(sql, *args)

    def executemany(self, sql, rows):
        rows = list(rows)
        self._record.append(('cursor.executemany', sql, rows))
        return self._cursor.executemany(sql, rows)

    def fetchall(self):
        self._record.append(('cursor.fetchall',))
        return self._cursor.fetchall()


def run_populate(time_grid, zeta_rows, grid_rows=None, loose=False):
    """Run populate_water_level on a database made by hand"""
    import sqlite3
    import numpy as np
    import spowtd.load as load_mod

    connection = sqlite3.connect(':memory:')
    with open(load_mod.SCHEMA_PATH, 'rt') as schema_file:
        connection.executescript(schema_file.read())
    connection.execute('PRAGMA foreign_keys = 1')
    cursor = connection.cursor()
    if loose:
        # A staging table that takes any value, in order of insertion
        cursor.executescript(
            'DROP TABLE water_level_staging; '
            'CREATE TABLE water_level_staging (epoch, zeta_mm);'
        )
    cursor.executemany(
        'INSERT INTO water_level_staging (epoch, zeta_mm) VALUES (?, ?)',
        zeta_rows,
    )
    if grid_rows is None:
        try:
            grid_rows = sorted(
                set(
                    int(t)
                    for t in np.asarray(time_grid).ravel().tolist()
                    if abs(int(t)) < 2**62
                )
            )
        except (TypeError, ValueError):
            grid_rows = []
    cursor.executemany(
        'INSERT INTO grid_time (epoch) VALUES (?)',
        [(epoch,) for epoch in grid_rows],
    )
    connection.commit()
    record = []
    grid_before = canon(time_grid)
    outcome = call(
        load_mod.populate_water_level,
        RecordingCursor(cursor, record),
        time_grid,
    )
    result = {
        'outcome': outcome,
        'sql': canon(record),
        'in_transaction': connection.in_transaction,
        'dump': list(connection.iterdump()),
        'argument unchanged': grid_before == canon(time_grid),
        'argument after': canon(time_grid),
    }
    connection.close()
    return result


def run_load(sample, tz_name):
    """Run load_data on sample data"""
    import sqlite3
    import spowtd.load as load_mod

    connection = sqlite3.connect(':memory:')
    digest = hashlib.sha256()
    count = [0]

    def trace(statement):
        digest.update(statement.encode('utf-8') + b'\0')
        count[0] += 1

    connection.set_trace_callback(trace)
    files = [
        open(
            os.path.join(SAMPLE_DATA_DIR, '{}_{}.txt'.format(kind, sample)),
            'rt',
            encoding='utf-8-sig',
        )
        for kind in ('precipitation', 'evapotranspiration', 'water_level')
    ]
    outcome = call(load_mod.load_data, connection, *files, tz_name)
    for data_file in files:
        data_file.close()
    connection.set_trace_callback(None)
    dump = '\n'.join(connection.iterdump())
    result = {
        'outcome': outcome,
        'traced': (count[0], digest.hexdigest()),
        'in_transaction': connection.in_transaction,
        'dump': (len(dump), hashlib.sha256(dump.encode('utf-8')).hexdigest()),
        'labels': connection.execute(
            'SELECT data_interval, count(*), min(epoch), max(epoch) '
            'FROM grid_time GROUP BY data_interval ORDER BY 1'
        ).fetchall(),
    }
    connection.close()
    return result


def scenarios():
    import numpy as np

    results = []
    for sample in (1, 2):
        results.append(
            ('load sample {}'.format(sample), run_load(sample, 'Africa/Lagos'))
        )

    def add(name, *args, **kwargs):
        results.append((name, run_populate(*args, **kwargs)))

    def zeta(epochs, values=None):
        if values is None:
            values = [-250.0 + 0.375 * i for i in range(len(epochs))]
        return list(zip(epochs, values))

    grid = list(range(3600, 3600 + 1800 * 21, 1800))
    regular = list(range(2400, 2400 + 1200 * 40, 1200))
    one_gap = regular[:11] + regular[17:]
    two_gaps = regular[:5] + regular[9:20] + regular[26:]
    many_gaps = [t for i, t in enumerate(regular) if i % 5 not in (3,)]
    tiny_gaps = regular[:7] + regular[8:15] + regular[16:]

    zeta_sets = {
        'no gap': regular,
        'one gap': one_gap,
        'two gaps': two_gaps,
        'many gaps': many_gaps,
        'gaps of one sample': tiny_gaps,
        'gap at start': regular[:1] + regular[4:],
        'gap at end': regular[:-4] + regular[-1:],
        'inside the grid': regular[8:20],
        'inside the grid with gap': regular[8:12] + regular[15:20],
        'before the grid': [0, 600, 1200, 1800],
        'after the grid': [90000, 90600, 91800],
        'two samples': regular[:2],
        'three samples, unequal': [2400, 3600, 7200],
        'all steps differ': [2400, 3000, 4200, 6000, 8400, 20000],
        'one sample': regular[:1],
        'no samples': [],
        'negative epochs': [-7200, -3600, 0, 3600, 14400, 18000],
        'large epochs': [2**40 + 600 * i for i in (0, 1, 2, 5, 6, 9)],
    }
    grids = {
        'list': grid,
        'tuple': tuple(grid),
        'int64 array': np.array(grid, dtype='int64'),
        'int32 array': np.array(grid, dtype='int32'),
        'uint64 array': np.array(grid, dtype='uint64'),
        'int16 array': np.array([t // 600 for t in grid], dtype='int16'),
    }
    for zeta_name, epochs in zeta_sets.items():
        for grid_name, time_grid in grids.items():
            add('{} / {}'.format(zeta_name, grid_name), time_grid,
                zeta(epochs))

    odd_grids = {
        'float array': np.array(grid, dtype='float64'),
        'list of floats': [float(t) for t in grid],
        'list with one float': grid[:3] + [float(grid[3])] + grid[4:],
        'bool array': np.array([True, False, True]),
        'object array': np.array(grid, dtype=object),
        'huge integers': [2**70, 2**70 + 1],
        'strings': [str(t) for t in grid],
        'empty list': [],
        'empty int array': np.array([], dtype='int64'),
        'zero-dimensional': np.array(3600),
        'python int': 3600,
        'None': None,
        'one time': grid[:1],
        'two times': grid[:2],
        'two-dimensional': np.array(grid[:20]).reshape((10, 2)),
        'two-dimensional, one column': np.array(grid).reshape((-1, 1)),
        'two-dimensional, one row': np.array(grid).reshape((1, -1)),
        'descending': grid[::-1],
        'not monotonic': grid[10:] + grid[:10],
        'with duplicates': grid[:5] + grid[4:],
        'large epochs': [2**40 + 1800 * i for i in range(4)],
        'non-contiguous view': np.array(grid + grid, dtype='int64')[::2],
        'read-only array': np.array(grid, dtype='int64'),
    }
    odd_grids['read-only array'].setflags(write=False)
    for grid_name, time_grid in odd_grids.items():
        for zeta_name in ('no gap', 'two gaps', 'one sample', 'no samples',
                          'large epochs'):
            add('{} / {}'.format(zeta_name, grid_name), time_grid,
                zeta(zeta_sets[zeta_name]))

    # Staged values that are not what they should be
    add('real epochs in staging', grid,
        zeta([t + 0.5 for t in two_gaps]), loose=True)
    add('one real epoch in staging', grid,
        zeta(two_gaps[:3] + [two_gaps[3] + 0.25] + two_gaps[4:]), loose=True)
    add('text epoch in staging', grid, zeta(['soon'] + two_gaps), loose=True)
    add('null epoch in staging', grid, zeta([None] + two_gaps), loose=True)
    add('null level in staging', grid,
        zeta(two_gaps, [None] * len(two_gaps)), loose=True)
    add('unsorted epochs in staging', grid,
        zeta(two_gaps[10:] + two_gaps[:10]), loose=True)
    add('descending epochs in staging', grid, zeta(two_gaps[::-1]),
        loose=True)
    add('repeated epochs in staging', grid,
        zeta(two_gaps[:6] + two_gaps[5:]), loose=True)
    add('all epochs the same in staging', grid, zeta([7200] * 5), loose=True)
    for grid_name, time_grid in grids.items():
        add('loose staging, two gaps / {}'.format(grid_name), time_grid,
            zeta(two_gaps), loose=True)
    add('text level in staging', grid,
        zeta(two_gaps, ['high'] * len(two_gaps)))
    add('one text level in staging', grid,
        zeta(two_gaps, [1.0] * 5 + ['high'] + [2.0] * (len(two_gaps) - 6)))
    add('integer levels in staging', grid,
        zeta(two_gaps, list(range(len(two_gaps)))))
    add('blob level in staging', grid,
        zeta(two_gaps, [b'x'] * len(two_gaps)))
    # grid_time that does not hold the grid
    add('grid_time empty', grid, zeta(two_gaps), grid_rows=[])
    add('grid_time partial', grid, zeta(two_gaps), grid_rows=grid[::2])
    add('grid_time other', grid, zeta(two_gaps),
        grid_rows=[t + 1 for t in grid])
    add('grid_time larger', grid[5:15], zeta(two_gaps), grid_rows=grid)
    return results


# -------------------------------------------------------------- harness


def run_scenarios(root, out_path):
    sys.path[:] = [
        path
        for path in sys.path
        if os.path.abspath(path or os.getcwd()) != HERE
    ]
    sys.path.insert(0, root)
    module = importlib.import_module(MODULE_NAME)
    assert os.path.abspath(module.__file__) == os.path.join(
        os.path.abspath(root), MODULE
    ), module.__file__
    with open(out_path, 'wb') as out_file:
        pickle.dump(scenarios(), out_file)


def main():
    if len(sys.argv) == 4 and sys.argv[1] == '--run':
        run_scenarios(sys.argv[2], sys.argv[3])
        return 0
    with tempfile.TemporaryDirectory() as tmp:
        orig_root = os.path.join(tmp, 'orig')
        os.makedirs(orig_root)
        subprocess.run(
            'git archive HEAD spowtd | tar -x -C "{}"'.format(orig_root),
            shell=True, cwd=HERE, check=True,
        )
        with open(os.path.join(orig_root, MODULE)) as f:
            orig_source = f.read()
        with open(os.path.join(HERE, MODULE)) as f:
            new_source = f.read()
        assert MARKER not in orig_source, 'HEAD already has the refactoring'
        assert MARKER in new_source, (
            'work tree does not have {} applied'.format(PATCH))
        # Both sides run at the same time, each in its own process
        processes = {}
        for name, root in (('orig', orig_root), ('new', HERE)):
            out_path = os.path.join(tmp, name + '.pickle')
            env = dict(os.environ)
            env.pop('PYTHONPATH', None)
            processes[name] = (
                subprocess.Popen(
                    [sys.executable, '-W', 'ignore',
                     os.path.abspath(__file__), '--run', root, out_path],
                    cwd=tmp, env=env,
                ),
                out_path,
            )
        outputs = {}
        for name, (process, out_path) in processes.items():
            assert process.wait() == 0, '{} side failed'.format(name)
            with open(out_path, 'rb') as out_file:
                outputs[name] = pickle.load(out_file)
    orig, new = outputs['orig'], outputs['new']
    assert [name for name, _ in orig] == [name for name, _ in new]
    failures = 0
    outcomes = {}
    for (name, expected), (_, actual) in zip(orig, new):
        if expected != actual:
            failures += 1
            print('DIFFERENT: {}'.format(name))
            for key in expected:
                if expected[key] != actual[key]:
                    print('  {}:\n    orig {!r}\n    new  {!r}'.format(
                        key, expected[key], actual[key])[:2000])
        outcome = expected['outcome']
        kind = outcome[0] if outcome[0] == 'returned' else outcome[1][1]
        outcomes[kind] = outcomes.get(kind, 0) + 1
        if '-v' in sys.argv:
            print('{:45s} {}'.format(
                name, outcome[1][1:3] if outcome[0] == 'raised' else 'ok'))
    print('{} scenarios; outcomes in the original: {}'.format(
        len(orig), outcomes))
    if failures:
        print('FAILED: {} scenarios differ'.format(failures))
        return 1
    print('OK')
    return 0


if __name__ == '__main__':
    sys.exit(main())
