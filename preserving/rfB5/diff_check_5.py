"""Differential check for refactor5.diff (spowtd/fit_offsets.py:
get_series_time_offsets sorts indices instead of decorated tuples, keeps the
id -> original index mapping in a list, and selects the largest connected
component inline with comprehensions).

Usage: cd /tmp/rf_B && /venv/bin/python diff_check_5.py
"""

import warnings

import numpy as np

import dc_common
from diff_check_4 import synthetic_series, with_log


def run_series_offsets(series_list, head_step):
    import spowtd.fit_offsets as fit_offsets_mod

    result = with_log(
        fit_offsets_mod.get_series_time_offsets, series_list, head_step
    )
    return result


def copy_series(series_list):
    return [(t.copy(), h.copy()) for t, h in series_list]


def worker():
    warnings.simplefilter('ignore')
    results = {}
    rng = np.random.default_rng(777)
    hours = 3600.0 * np.arange(30)

    def recession(h0, n=30, t0=0.0, rate=0.9):
        return (t0 + hours[:n].copy(), h0 - rate * np.arange(n) ** 1.1)

    base = [
        recession(10.3, t0=5e5),
        recession(4.1, n=20, t0=1e5),
        recession(17.6, n=25, t0=9e5),
        recession(-2.2, n=12, t0=3e5),
    ]
    results['four-series'] = run_series_offsets(copy_series(base), 1.0)
    results['four-series-step-0.5'] = run_series_offsets(
        copy_series(base), 0.5
    )
    results['four-series-reversed-input'] = run_series_offsets(
        copy_series(base)[::-1], 1.0
    )
    results['four-series-tuple-input'] = run_series_offsets(
        tuple(copy_series(base)), 1.0
    )
    results['four-series-list-pairs'] = run_series_offsets(
        [list(pair) for pair in copy_series(base)], 1.0
    )
    # Ties in the initial head: the sort must stay stable
    tied = [
        recession(10.3, t0=5e5, rate=0.8),
        recession(10.3, n=20, t0=1e5, rate=1.0),
        recession(4.0, n=22, t0=7e5),
        recession(10.3, n=25, t0=9e5, rate=1.3),
        recession(4.0, n=18, t0=2e5, rate=0.7),
    ]
    results['tied-initial-heads'] = run_series_offsets(copy_series(tied), 1.0)
    results['tied-initial-heads-reversed'] = run_series_offsets(
        copy_series(tied)[::-1], 1.0
    )
    results['identical-series'] = run_series_offsets(
        copy_series([base[0], base[0], base[0]]), 1.0
    )
    # Rising series (as used by spowtd.rise)
    rising = [(t, h[::-1].copy()) for t, h in base]
    results['rising'] = run_series_offsets(rising, 1.0)
    # More than one connected component: the largest is kept
    split = copy_series(base) + [
        recession(-100.0, n=10, t0=4e5),
        recession(-103.5, n=10, t0=6e5),
    ]
    results['two-components'] = run_series_offsets(split, 1.0)
    results['two-components-small-first'] = run_series_offsets(
        copy_series(split)[::-1], 1.0
    )
    equal_components = [
        recession(10.3, n=10),
        recession(8.3, n=10, t0=1e4),
        recession(-100.0, n=10, t0=4e5),
        recession(-102.0, n=10, t0=6e5),
    ]
    results['two-equal-components'] = run_series_offsets(
        equal_components, 1.0
    )
    # Input is consumed once, so an iterator works too
    results['iterator-input'] = run_series_offsets(
        iter(copy_series(base)), 1.0
    )
    # Error paths
    results['empty-list'] = run_series_offsets([], 1.0)
    results['empty-tuple'] = run_series_offsets((), 1.0)
    results['none'] = run_series_offsets(None, 1.0)
    results['single-series'] = run_series_offsets(copy_series(base[:1]), 1.0)
    results['no-crossings'] = run_series_offsets(
        [
            (hours[:3].copy(), np.array([0.2, 0.5, 0.7])),
            (hours[:3].copy(), np.array([1.2, 1.5, 1.7])),
        ],
        1.0,
    )
    results['disjoint-singletons'] = run_series_offsets(
        [recession(10.3, n=5), recession(-50.0, n=5)], 1.0
    )
    results['empty-time-array'] = run_series_offsets(
        [base[0], (np.array([]), np.array([]))], 1.0
    )
    results['empty-head-only'] = run_series_offsets(
        [base[0], (hours[:3].copy(), np.array([]))], 1.0
    )
    results['empty-head-then-empty-time'] = run_series_offsets(
        [
            (hours[:3].copy(), np.array([])),
            (np.array([]), np.array([1.0, 2.0])),
        ],
        1.0,
    )
    results['empty-head-then-list-time'] = run_series_offsets(
        [(hours[:3].copy(), np.array([])), ([0.0, 1.0], np.array([1.0, 2.0]))],
        1.0,
    )
    results['time-is-list'] = run_series_offsets(
        [([0.0, 3600.0], np.array([3.5, 0.5]))] + copy_series(base), 1.0
    )
    results['triple-in-series'] = run_series_offsets(
        copy_series(base) + [(hours[:3].copy(), np.array([3.0, 2.0, 1.0]), 1)],
        1.0,
    )
    results['length-mismatch'] = run_series_offsets(
        copy_series(base) + [(hours[:3].copy(), np.array([3.0, 2.0]))], 1.0
    )
    results['nan-head'] = run_series_offsets(
        copy_series(base)
        + [(hours[:3].copy(), np.array([3.0, np.nan, 1.0]))],
        1.0,
    )
    results['nan-initial-head'] = run_series_offsets(
        copy_series(base)
        + [(hours[:3].copy(), np.array([np.nan, 2.0, 1.0]))],
        1.0,
    )
    results['2d-head'] = run_series_offsets(
        copy_series(base)
        + [(hours[:2].copy(), np.array([[3.0, 2.0], [1.0, 0.0]]))],
        1.0,
    )
    results['zero-head-step'] = run_series_offsets(copy_series(base), 0)
    results['negative-head-step'] = run_series_offsets(
        copy_series(base), -1.0
    )
    results['integer-heads'] = run_series_offsets(
        [
            (hours[:6].copy(), np.array([9, 7, 5, 4, 2, 1])),
            (hours[:5].copy(), np.array([6, 5, 3, 2, 0])),
            (hours[:4].copy(), np.array([12, 10, 8, 3])),
        ],
        1,
    )

    # Inputs are not modified
    check = copy_series(base)
    run_series_offsets(check, 1.0)
    results['inputs-untouched'] = check

    # Random synthetic series
    for case in range(16):
        series_list = synthetic_series(
            rng, int(rng.integers(1, 16)), rising=bool(case % 2)
        )
        order = rng.permutation(len(series_list)).tolist()
        series_list = [series_list[i] for i in order]
        for head_step in (1.0, 3.0):
            results['synthetic-{}-{}'.format(case, head_step)] = (
                run_series_offsets(series_list, head_step)
            )

    # Sample data
    for sample in (1, 2):
        series_list = dc_common.interstorm_series(sample)
        for head_step in (1.0, 0.5, 5.0):
            results['sample{}-interstorm-{}'.format(sample, head_step)] = (
                run_series_offsets(copy_series(series_list), head_step)
            )
        shuffled = [
            series_list[i] for i in rng.permutation(len(series_list)).tolist()
        ]
        results['sample{}-interstorm-shuffled'.format(sample)] = (
            run_series_offsets(shuffled, 1.0)
        )
        results['sample{}-rise-recession'.format(sample)] = (
            dc_common.rise_and_recession(sample)
        )
    results['sample1-rise-recession-2mm-ref'] = dc_common.rise_and_recession(
        1, grid_interval_mm=2.0, reference_zeta_mm=-200.0
    )
    return results


if __name__ == '__main__':
    dc_common.main(5, worker, __file__)
