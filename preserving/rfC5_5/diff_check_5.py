"""Differential check for refactor5.diff (set_curvature.py, zeta_grid.py)

populate_zeta_grid and set_curvature (library and CLI) on both sample data
sets and on modified water levels (bounds exactly on / off the grid), with a
range of good and bad argument values (zero, negative, huge, inf, nan, None,
strings, unsupported types), repeated calls (singleton violations), a
pre-populated discrete_zeta table (failure part-way through executemany),
empty water_level, closed connections.  Full database dumps (also after a
failure), the transaction state and exception type + message are compared
between the original and the refactored package, with foreign key
enforcement on and off.

"""

import os
import sys

sys.path.insert(0, os.path.dirname(os.path.abspath(__file__)))
import dc_harness as H  # noqa: E402


def build_results(results, tree):
    import numpy as np
    import spowtd.set_curvature as set_curvature_mod
    import spowtd.user_interface as ui_mod
    import spowtd.zeta_grid as zeta_grid_mod

    def record(name, factory, action, mutate=None):
        def func():
            connection = factory()
            if mutate is not None:
                mutate(connection)
            try:
                value = action(connection)
            except BaseException:
                try:
                    func.partial = (
                        connection.in_transaction,
                        H.dump_db(connection),
                    )
                except Exception as exc:  # pylint: disable=broad-except
                    func.partial = repr(exc)
                raise
            return (value, connection.in_transaction, H.dump_db(connection))

        H.scenario(results, name, func)
        if results[name][0] == 'exc':
            results[name] = results[name] + (getattr(func, 'partial', None),)

    class Unsupported:
        """A type sqlite3 cannot bind"""

    grid_values = [
        1.0,
        2.5,
        0.3,
        10,
        2,
        np.float64(1.5),
        np.float32(0.75),
        1e6,
        1e-2,
        -1.0,
        -7,
        0,
        0.0,
        float('inf'),
        float('nan'),
        None,
        'a',
        '2.0',
        True,
        [1.0],
        Unsupported(),
    ]
    for sample in (1, 2):
        for index, grid in enumerate(grid_values):
            record(
                'grid-sample{}-{}-{!r}'.format(
                    sample, index, grid if index < 20 else 'Unsupported'
                ),
                lambda s=sample: H.loaded_connection(tree, s),
                lambda connection, grid=grid: zeta_grid_mod.populate_zeta_grid(
                    connection, grid_interval_mm=grid
                ),
            )

        # Water level bounds exactly on grid points, and just off them
        for lo, hi in (
            (-300.0, 50.0),
            (-300.0, -300.0),
            (-299.99999999999994, 50.00000000000001),
            (0.0, 0.0),
            (12.5, 37.5),
            (-1e9, 1e3),
        ):

            def set_bounds(connection, lo=lo, hi=hi):
                connection.execute(
                    'UPDATE water_level SET zeta_mm = ? WHERE epoch = '
                    '(SELECT epoch FROM water_level ORDER BY zeta_mm LIMIT 1)',
                    (lo - 1e12,),
                )
                connection.execute(
                    'UPDATE water_level SET zeta_mm = ? WHERE epoch = '
                    '(SELECT epoch FROM water_level ORDER BY zeta_mm DESC '
                    'LIMIT 1)',
                    (hi + 1e12,),
                )
                connection.execute(
                    'UPDATE water_level SET zeta_mm = '
                    'max(min(zeta_mm, ?), ?)',
                    (hi, lo),
                )
                connection.commit()

            for grid in (1.0, 2.5, 12.5, 1000.0):
                if (hi - lo) / grid > 2e6:
                    continue
                record(
                    'bounds-sample{}-{!r}-{!r}-{}'.format(
                        sample, lo, hi, grid
                    ),
                    lambda s=sample: H.loaded_connection(tree, s),
                    lambda connection, grid=grid: (
                        zeta_grid_mod.populate_zeta_grid(connection, grid)
                    ),
                    mutate=set_bounds,
                )

        # Called twice: singleton violation on zeta_grid
        def twice(connection):
            zeta_grid_mod.populate_zeta_grid(connection, 5.0)
            connection.commit()
            zeta_grid_mod.populate_zeta_grid(connection, 5.0)

        record(
            'grid-sample{}-twice'.format(sample),
            lambda s=sample: H.loaded_connection(tree, s),
            twice,
        )

        # discrete_zeta already has a number in the middle of the range
        # (foreign key to zeta_grid only satisfiable once the grid is set;
        # so this scenario differs between enforcement modes)
        def prepopulate(connection):
            try:
                connection.execute(
                    'INSERT INTO discrete_zeta (zeta_number) VALUES (-20)'
                )
                connection.commit()
            except Exception:  # pylint: disable=broad-except
                connection.rollback()

        record(
            'grid-sample{}-prepopulated'.format(sample),
            lambda s=sample: H.loaded_connection(tree, s),
            lambda connection: zeta_grid_mod.populate_zeta_grid(
                connection, 2.0
            ),
            mutate=prepopulate,
        )

        # Positional call, and on classified data followed by curvature
        curvature_values = [
            2.36,
            9.876,
            0,
            0.0,
            -1.5,
            3,
            np.float64(0.125),
            np.float32(0.1),
            '1.5',
            'abc',
            None,
            float('nan'),
            float('inf'),
            True,
            b'\x00\x01',
            [1.0],
            (1.0,),
            Unsupported(),
        ]
        for index, curvature in enumerate(curvature_values):
            record(
                'curvature-sample{}-{}-{!r}'.format(
                    sample,
                    index,
                    curvature if index < 17 else 'Unsupported',
                ),
                lambda s=sample: H.classified_connection(tree, s, 1.0),
                lambda connection, curvature=curvature: (
                    set_curvature_mod.set_curvature(connection, curvature)
                ),
            )

        def curvature_twice(connection):
            set_curvature_mod.set_curvature(
                connection, curvature_m_km2=1.0
            )
            set_curvature_mod.set_curvature(
                connection, curvature_m_km2=2.0
            )

        record(
            'curvature-sample{}-twice'.format(sample),
            lambda s=sample: H.classified_connection(tree, s, 1.0),
            curvature_twice,
        )

    # No water levels
    record(
        'grid-empty-db',
        lambda: H.empty_connection(tree),
        lambda connection: zeta_grid_mod.populate_zeta_grid(connection, 1.0),
    )
    record(
        'curvature-empty-db',
        lambda: H.empty_connection(tree),
        lambda connection: set_curvature_mod.set_curvature(connection, 1.0),
    )

    # No schema at all
    def bare():
        import sqlite3

        return sqlite3.connect(':memory:')

    record(
        'grid-no-schema',
        bare,
        lambda connection: zeta_grid_mod.populate_zeta_grid(connection, 1.0),
    )
    record(
        'curvature-no-schema',
        bare,
        lambda connection: set_curvature_mod.set_curvature(connection, 1.0),
    )

    # Closed connection
    def closed():
        connection = H.empty_connection(tree)
        connection.close()
        return connection

    record(
        'grid-closed',
        closed,
        lambda connection: zeta_grid_mod.populate_zeta_grid(connection, 1.0),
    )
    record(
        'curvature-closed',
        closed,
        lambda connection: set_curvature_mod.set_curvature(connection, 1.0),
    )

    # Command line: new connection per step, commits on success
    for sample in (1, 2):
        for step in (None, '2.5', '0.4'):

            def cli(s=sample, step=step):
                import sqlite3

                connection = H.classified_connection(tree, s, grid=False)
                db_path = os.path.join(os.getcwd(), 'cli5.sqlite3')
                with open(db_path, 'wb') as db_file:
                    db_file.write(connection.serialize())
                connection.close()
                statuses = [
                    ui_mod.main(
                        ['set-zeta-grid', db_path]
                        + ([] if step is None else ['-d', step])
                    ),
                    ui_mod.main(['set-curvature', db_path, '2.36']),
                ]
                try:
                    ui_mod.main(['set-curvature', db_path, '1.0'])
                except Exception as exc:  # pylint: disable=broad-except
                    statuses.append((type(exc).__name__, str(exc)))
                try:
                    ui_mod.main(['set-zeta-grid', db_path])
                except Exception as exc:  # pylint: disable=broad-except
                    statuses.append((type(exc).__name__, str(exc)))
                connection = sqlite3.connect(db_path)
                dump = H.dump_db(connection)
                connection.close()
                os.remove(db_path)
                return (statuses, dump)

            H.scenario(
                results, 'cli-sample{}-step{}'.format(sample, step), cli
            )


if __name__ == '__main__':
    H.main(
        os.path.abspath(__file__), 5, H.both_foreign_key_modes(build_results)
    )
