"""Differential check for refactor5.diff (match_all_storms)

Loads spowtd/classify.py twice, once from git HEAD and once from HEAD with
refactor5.diff applied (in a temporary directory), and compares

 - classify_intervals on the two sample data sets and on synthetic
   databases with many different time steps (full database dump, from the
   same connection and from a second one), together with the arguments that
   match_storms receives (bit pattern of the jump threshold derived from
   the time step);
 - the time step in hours computed by the original SQL expression and by
   the refactored CAST + Python division, for many integer time steps;
 - direct calls of match_all_storms: twice on the same interval (storm
   already present -> AssertionError with the same message), with a
   pre-existing storm row with the same start but another end (-> the same
   IntegrityError), with an empty time_grid table (-> the same TypeError);
   database contents after the failure are compared too.

Run as:  cd /tmp/rf_A && PYTHONPATH=/tmp/rf_A /venv/bin/python diff_check_5.py
"""

import copy
import importlib.util
import os
import random
import shutil
import sqlite3
import subprocess
import sys
import tempfile

import numpy as np

HERE = os.path.dirname(os.path.abspath(__file__))
K = 5


def load_variants():
    """Return (original module, refactored module)"""
    tmp = tempfile.mkdtemp(prefix="diffcheck_", dir=HERE)
    try:
        source = subprocess.check_output(
            ["git", "-C", HERE, "show", "HEAD:spowtd/classify.py"]
        )
        modules = []
        for name in ("orig", "new"):
            os.makedirs(os.path.join(tmp, name, "spowtd"))
            path = os.path.join(tmp, name, "spowtd", "classify.py")
            with open(path, "wb") as f:
                f.write(source)
            if name == "new":
                with open(os.path.join(HERE, f"refactor{K}.diff"), "rb") as patch:
                    subprocess.check_call(
                        ["patch", "-s", "-p1", "-d", os.path.join(tmp, name)],
                        stdin=patch,
                    )
                with open(path, "rb") as f:
                    assert f.read() != source, "patch changed nothing"
            spec = importlib.util.spec_from_file_location(f"classify_{name}", path)
            module = importlib.util.module_from_spec(spec)
            spec.loader.exec_module(module)
            modules.append(module)
        return tuple(modules)
    finally:
        shutil.rmtree(tmp)


def describe(obj):
    """Exact, type-revealing description of a nested result"""
    if isinstance(obj, dict):
        return ("dict", [(describe(k), describe(v)) for k, v in obj.items()])
    if isinstance(obj, (list, tuple)):
        return (type(obj).__name__, [describe(v) for v in obj])
    if isinstance(obj, np.ndarray):
        return ("ndarray", str(obj.dtype), obj.shape, obj.tobytes())
    return (type(obj).__name__, repr(obj))


def outcome(function, *args):
    """Result or exception of a call"""
    try:
        return ("ok", describe(function(*args)))
    except Exception as exc:  # pylint: disable=broad-except
        return ("raised", type(exc).__name__, str(exc))


def random_series(rng):
    """Random rain and head series with overlapping storms and rises"""
    n = rng.randint(2, 120)
    rain = np.zeros(n)
    head = np.zeros(n)
    level = 0.0
    raining = False
    rising = False
    for i in range(n):
        if rng.random() < 0.25:
            raining = not raining
        if rng.random() < 0.3:
            rising = not rising
        rain[i] = rng.choice([5.0, 9.0, 20.0]) if raining else rng.choice([0.0, 1.0])
        level += rng.choice([2.0, 3.0, 7.0]) if rising else rng.choice([-0.5, 0.0, 0.5])
        head[i] = level
    return rain, head



SCHEMA_PATH = os.path.join(HERE, "spowtd", "schema.sql")
DATA_DIR = os.path.join(HERE, "spowtd", "test", "sample_data")


def dump(connection):
    """All tables, all rows, in rowid order"""
    tables = [
        row[0]
        for row in connection.execute(
            "SELECT name FROM sqlite_master WHERE type = 'table' ORDER BY name"
        )
    ]
    return {
        table: [
            tuple((type(v).__name__, repr(v)) for v in row)
            for row in connection.execute(f"SELECT rowid, * FROM {table} ORDER BY rowid")
        ]
        for table in tables
    }


def load_sample(path, sample):
    """Create a database file with a sample data set loaded"""
    import spowtd.load as load_mod  # unchanged by the patch

    connection = sqlite3.connect(path)
    with open(
        os.path.join(DATA_DIR, f"precipitation_{sample}.txt"),
        "rt",
        encoding="utf-8-sig",
    ) as precip_f, open(
        os.path.join(DATA_DIR, f"evapotranspiration_{sample}.txt"),
        "rt",
        encoding="utf-8-sig",
    ) as et_f, open(
        os.path.join(DATA_DIR, f"water_level_{sample}.txt"),
        "rt",
        encoding="utf-8-sig",
    ) as zeta_f:
        load_mod.load_data(
            connection=connection,
            precipitation_data_file=precip_f,
            evapotranspiration_data_file=et_f,
            water_level_data_file=zeta_f,
            time_zone_name="Africa/Lagos",
        )
    connection.commit()
    connection.close()


def build_synthetic(path, segments, rng, time_step_s=3600):
    """Create a database with the given (label or None, length) segments"""
    connection = sqlite3.connect(path)
    cursor = connection.cursor()
    with open(SCHEMA_PATH, "rt") as schema_file:
        cursor.executescript(schema_file.read())
    cursor.execute(
        "INSERT INTO time_grid (source_time_zone, time_step_s) VALUES ('UTC', ?)",
        (time_step_s,),
    )
    epoch = 1_600_000_000
    grid = []
    for label, length in segments:
        rain, head = random_series(rng)
        if length is None:
            length = len(rain)
        while len(rain) < length:
            more_rain, more_head = random_series(rng)
            rain = np.concatenate((rain, more_rain))
            head = np.concatenate((head, more_head + head[-1]))
        rain, head = rain[:length], head[:length]
        for k in range(length):
            grid.append((epoch, label, float(rain[k]), float(head[k])))
            epoch += time_step_s
    grid.append((epoch, None, 0.0, 0.0))
    cursor.executemany(
        "INSERT INTO grid_time (epoch, data_interval) VALUES (?, ?)",
        [(t, label) for t, label, _, _ in grid],
    )
    cursor.executemany(
        "INSERT INTO rainfall_intensity (from_epoch, thru_epoch, "
        "rainfall_intensity_mm_h) VALUES (?, ?, ?)",
        [(t, t + time_step_s, rain) for t, _, rain, _ in grid[:-1]],
    )
    cursor.executemany(
        "INSERT INTO water_level (epoch, zeta_mm) VALUES (?, ?)",
        [(t, head) for t, label, _, head in grid if label is not None],
    )
    connection.commit()
    connection.close()


def run(module, template, workdir, name, thresholds, calls=1):
    """classify_intervals on a copy of template; outcome and dumps"""
    path = os.path.join(workdir, name + ".sqlite3")
    shutil.copyfile(template, path)
    connection = sqlite3.connect(path)
    connection.execute("PRAGMA foreign_keys = 1")
    outcomes = []
    for _ in range(calls):
        try:
            outcomes.append(("ok", repr(module.classify_intervals(connection, *thresholds))))
        except Exception as exc:  # pylint: disable=broad-except
            outcomes.append(("raised", type(exc).__name__, str(exc)))
    same_connection = dump(connection)
    other = sqlite3.connect(path)
    committed = dump(other)
    other.close()
    connection.close()
    os.remove(path)
    return (outcomes, same_connection, committed)



def run_spied(module, template, workdir, name, thresholds):
    """run(), also recording the arguments of match_storms"""
    seen = []
    inner = module.match_storms

    def spy(rain, head, rain_threshold, jump_threshold):
        seen.append(
            (
                describe(rain),
                describe(head),
                describe(rain_threshold),
                describe(jump_threshold),
                float(jump_threshold).hex(),
            )
        )
        return inner(rain, head, rain_threshold, jump_threshold)

    module.match_storms = spy
    try:
        result = run(module, template, workdir, name, thresholds)
    finally:
        module.match_storms = inner
    return (seen, result)


def run_direct(module, template, workdir, name, prepare, calls):
    """Direct calls of match_all_storms after classify_interstorms"""
    path = os.path.join(workdir, name + ".sqlite3")
    shutil.copyfile(template, path)
    connection = sqlite3.connect(path)
    connection.execute("PRAGMA foreign_keys = 1")
    cursor = connection.cursor()
    labels = [
        row[0]
        for row in cursor.execute(
            "SELECT DISTINCT data_interval FROM grid_time "
            "WHERE data_interval IS NOT NULL ORDER BY 1"
        ).fetchall()
    ]
    prepare(cursor)
    outcomes = []
    for label in labels:
        for _ in range(calls):
            try:
                outcomes.append(
                    ("ok", repr(module.match_all_storms(cursor, label, 4.0, 2.5)))
                )
            except Exception as exc:  # pylint: disable=broad-except
                outcomes.append(("raised", type(exc).__name__, str(exc)))
    state = dump(connection)
    connection.commit()
    connection.close()
    os.remove(path)
    return (outcomes, state)


def main():
    orig, new = load_variants()
    rng = random.Random(20260927)
    n_cases = 0

    # Time step in hours: SQL expression vs CAST + Python division
    connection = sqlite3.connect(":memory:")
    steps = (
        list(range(1, 4000))
        + [rng.randint(1, 10**6) for _ in range(3000)]
        + [86400, 2**31, 2**53 + 1, 2**62 + 12345, -600, 0]
    )
    for step in steps:
        (sql_h,) = connection.execute(
            "SELECT CAST(? AS double precision) / 3600.", (step,)
        ).fetchone()
        (cast_s,) = connection.execute(
            "SELECT CAST(? AS double precision)", (step,)
        ).fetchone()
        assert isinstance(cast_s, float) and isinstance(sql_h, float)
        assert (cast_s / 3600.0).hex() == sql_h.hex(), step
        n_cases += 1
    connection.close()

    workdir = tempfile.mkdtemp(prefix="diffcheck_db_", dir=HERE)
    try:
        template = os.path.join(workdir, "template.sqlite3")

        def compare(thresholds):
            nonlocal n_cases
            a = run_spied(orig, template, workdir, "orig", thresholds)
            b = run_spied(new, template, workdir, "new", thresholds)
            assert a == b, (thresholds, a[1][0], b[1][0])
            n_cases += 1
            return a

        for sample in (1, 2):
            load_sample(template, sample)
            for thresholds in [(8.0, 5.0), (), (1.0, 1.0), (0.3, 0.7)]:
                seen, result = compare(thresholds)
                assert result[0] == [("ok", "None")], result[0]
                assert result[2]["storm"], "no storm matched"
                assert seen
            os.remove(template)

        n_storms = 0
        for time_step_s in [3600, 1800, 600, 900, 7, 1, 3601, 86400, 1234]:
            for _ in range(8):
                labels = rng.sample(range(0, 40), rng.randint(1, 3))
                layout = []
                for label in labels:
                    if rng.random() < 0.5:
                        layout.append((None, rng.randint(1, 5)))
                    layout.append((label, None))
                build_synthetic(template, layout, rng, time_step_s)
                # thresholds in mm / h such that increments of 2-7 mm per
                # step straddle the jump threshold
                scale = 3600.0 / time_step_s
                for jump_mm in (1.0, 2.5, 5.0, 1 / 3):
                    seen, result = compare((4.0, jump_mm * scale))
                    n_storms += len(result[2]["storm"])
                os.remove(template)
        assert n_storms > 100, n_storms

        # Direct calls
        def nothing(cursor):
            del cursor

        def empty_time_grid(cursor):
            cursor.execute("DELETE FROM time_grid")

        def make_clashing_storm(same_end):
            def prepare(cursor):
                # Find a storm that will be inserted, then plant a row
                # with the same start
                cursor.execute("SAVEPOINT probe")
                labels = [
                    row[0]
                    for row in cursor.execute(
                        "SELECT DISTINCT data_interval FROM grid_time "
                        "WHERE data_interval IS NOT NULL ORDER BY 1"
                    ).fetchall()
                ]
                for label in labels:
                    orig.match_all_storms(cursor, label, 4.0, 2.5)
                rows = cursor.execute(
                    "SELECT start_epoch, thru_epoch FROM storm ORDER BY 1"
                ).fetchall()
                cursor.execute("ROLLBACK TO probe")
                cursor.execute("RELEASE probe")
                if rows:
                    start, thru = rows[len(rows) // 2]
                    if not same_end:
                        (thru,) = cursor.execute(
                            "SELECT max(epoch) FROM grid_time WHERE epoch != ?",
                            (thru,),
                        ).fetchone()
                    cursor.execute(
                        "INSERT INTO storm (start_epoch, thru_epoch) VALUES (?, ?)",
                        (start, thru),
                    )

            return prepare

        for _ in range(25):
            layout = [(1, None), (None, 2), (5, None)]
            build_synthetic(template, layout, rng, rng.choice([3600, 1800]))
            for prepare, calls in [
                (nothing, 1),
                (nothing, 2),  # second call: storms already there
                (empty_time_grid, 1),
                (make_clashing_storm(True), 1),  # AssertionError
                (make_clashing_storm(False), 1),  # IntegrityError
            ]:
                a = run_direct(orig, template, workdir, "orig", prepare, calls)
                b = run_direct(new, template, workdir, "new", prepare, calls)
                assert a == b, (prepare, a[0], b[0])
                if os.environ.get("DIFF_CHECK_VERBOSE"):
                    print(prepare.__name__, calls, [o[:2] for o in a[0]])
                n_cases += 1
            os.remove(template)
    finally:
        shutil.rmtree(workdir)
    print(f"diff_check_{K}: OK ({n_cases} cases identical)")


if __name__ == "__main__":
    sys.exit(main())
