"""Differential check for refactor4.diff (PEST template generators)

Placeholder lines made by one helper from the knot number; specific
yield section shared between the rise and curves templates.  Generates
every kind of PEST file for the sample parameters and databases and
for synthetic parameter sets (0 to 1000 knots, so that the 9 -> 10 and
99 -> 100 transitions and the padding are covered; mixed
parameterizations; missing, mistyped and odd entries), and compares the
text written, or the exception, exactly.

"""

import os
import sys

sys.path.insert(0, os.path.dirname(os.path.abspath(__file__)))
import dc_common  # noqa: E402
import dc_pest  # noqa: E402


def worker(rec):
    import io
    import yaml
    import spowtd.pestfiles as pestfiles_mod
    import spowtd.test.conftest as conftest

    texts = {}
    for kind in ('peatclsm', 'spline'):
        with open(conftest.get_parameter_file_path(kind), 'rt') as f:
            texts[kind] = f.read()
    peatclsm = yaml.safe_load(texts['peatclsm'])
    spline = yaml.safe_load(texts['spline'])

    def spline_sy(n, **extra):
        result = {
            'type': 'spline',
            'zeta_knots_mm': [-300.0 + 7 * i for i in range(n)],
            'sy_knots': [0.1 + 0.0005 * i for i in range(n)],
        }
        result.update(extra)
        return result

    def spline_T(n, **extra):
        result = {
            'type': 'spline',
            'zeta_knots_mm': [-300 + 11 * i for i in range(n)],
            'K_knots_km_d': [1.5 * (i + 1) for i in range(n)],
            'minimum_transmissivity_m2_d': 7.442,
        }
        result.update(extra)
        return result

    def without(mapping, key):
        return {k: v for k, v in mapping.items() if k != key}

    parameter_sets = [
        ('sample peatclsm', peatclsm),
        ('sample spline', spline),
        ('sy spline, T peatclsm', {
            'specific_yield': spline['specific_yield'],
            'transmissivity': peatclsm['transmissivity']}),
        ('sy peatclsm, T spline', {
            'specific_yield': peatclsm['specific_yield'],
            'transmissivity': spline['transmissivity']}),
    ]
    for n in (0, 1, 2, 9, 10, 11, 12, 99, 100, 101, 1000):
        parameter_sets.append(
            ('{} knots'.format(n), {
                'specific_yield': spline_sy(n),
                'transmissivity': spline_T(n)}))
    parameter_sets += [
        ('different knot counts', {
            'specific_yield': spline_sy(13),
            'transmissivity': spline_T(3)}),
        ('sy_knots longer than zeta', {
            'specific_yield': spline_sy(3, sy_knots=[0.1] * 12),
            'transmissivity': spline_T(2, K_knots_km_d=[1.0] * 11)}),
        ('odd knot values', {
            'specific_yield': spline_sy(
                3, zeta_knots_mm=[1, 2.50, '3', None, [4, 5], {'a': 1},
                                  1e-7, 1e22, True, '@x@', '{}']),
            'transmissivity': spline_T(
                3, zeta_knots_mm=['a', -0.0, float('inf')],
                K_knots_km_d=[None, 'x', 3],
                minimum_transmissivity_m2_d='{0}')}),
        ('knots as strings', {
            'specific_yield': spline_sy(
                3, zeta_knots_mm='abc', sy_knots='defgh'),
            'transmissivity': spline_T(
                3, zeta_knots_mm='xy', K_knots_km_d='0123456789A')}),
        ('knots as dicts', {
            'specific_yield': spline_sy(
                3, zeta_knots_mm={'a': 1, 'b': 2}, sy_knots={'c': 3}),
            'transmissivity': spline_T(
                3, zeta_knots_mm={}, K_knots_km_d={1: 2, 3: 4})}),
        ('sy_knots scalar', {
            'specific_yield': spline_sy(3, sy_knots=5),
            'transmissivity': spline_T(3)}),
        ('sy zeta scalar', {
            'specific_yield': spline_sy(3, zeta_knots_mm=5),
            'transmissivity': spline_T(3)}),
        ('sy zeta scalar and sy_knots missing', {
            'specific_yield': without(spline_sy(3, zeta_knots_mm=5),
                                      'sy_knots'),
            'transmissivity': spline_T(3)}),
        ('K_knots scalar', {
            'specific_yield': spline_sy(3),
            'transmissivity': spline_T(3, K_knots_km_d=2.5)}),
        ('K_knots none', {
            'specific_yield': spline_sy(3),
            'transmissivity': spline_T(3, K_knots_km_d=None)}),
        ('sy_knots none', {
            'specific_yield': spline_sy(3, sy_knots=None),
            'transmissivity': spline_T(3)}),
        ('sy type unknown', {
            'specific_yield': spline_sy(3, type='cubic'),
            'transmissivity': spline_T(3)}),
        ('T type unknown', {
            'specific_yield': spline_sy(3),
            'transmissivity': spline_T(3, type='cubic')}),
        ('both types unknown', {
            'specific_yield': spline_sy(3, type='a'),
            'transmissivity': spline_T(3, type='b')}),
        ('sy type missing', {
            'specific_yield': without(spline_sy(3), 'type'),
            'transmissivity': spline_T(3)}),
        ('T type missing', {
            'specific_yield': spline_sy(3),
            'transmissivity': without(spline_T(3), 'type')}),
        ('sy zeta missing', {
            'specific_yield': without(spline_sy(3), 'zeta_knots_mm'),
            'transmissivity': spline_T(3)}),
        ('sy_knots missing', {
            'specific_yield': without(spline_sy(3), 'sy_knots'),
            'transmissivity': spline_T(3)}),
        ('sy zeta and sy_knots missing', {
            'specific_yield': {'type': 'spline'},
            'transmissivity': spline_T(3)}),
        ('sy_knots missing and T missing', {
            'specific_yield': without(spline_sy(3), 'sy_knots')}),
        ('T zeta missing', {
            'specific_yield': spline_sy(3),
            'transmissivity': without(spline_T(3), 'zeta_knots_mm')}),
        ('K_knots missing', {
            'specific_yield': spline_sy(3),
            'transmissivity': without(spline_T(3), 'K_knots_km_d')}),
        ('T min missing', {
            'specific_yield': spline_sy(3),
            'transmissivity': without(
                spline_T(3), 'minimum_transmissivity_m2_d')}),
        ('peatclsm T entries missing', {
            'specific_yield': peatclsm['specific_yield'],
            'transmissivity': {'type': 'peatclsm', 'alpha': 3}}),
        ('peatclsm sy entries missing', {
            'specific_yield': {'type': 'peatclsm'},
            'transmissivity': peatclsm['transmissivity']}),
        ('specific_yield missing', {
            'transmissivity': spline_T(3)}),
        ('transmissivity missing', {
            'specific_yield': spline_sy(3)}),
        ('specific_yield is a list', {
            'specific_yield': ['type', 'spline'],
            'transmissivity': spline_T(3)}),
        ('specific_yield is a string', {
            'specific_yield': 'spline',
            'transmissivity': spline_T(3)}),
        ('specific_yield is none', {
            'specific_yield': None,
            'transmissivity': spline_T(3)}),
        ('transmissivity is none', {
            'specific_yield': spline_sy(3),
            'transmissivity': None}),
        ('sy type is a list', {
            'specific_yield': spline_sy(3, type=['spline']),
            'transmissivity': spline_T(3)}),
        ('empty mapping', {}),
        ('top-level list', [1, 2]),
        ('top-level none', None),
        ('top-level string', 'spline'),
    ]

    connections = [
        ('synthetic db', dc_pest.synthetic_connection(
            [(-10.0 + i, 0.5 * i) for i in range(4)],
            [(-10.0 + i, 3600 * i) for i in range(3)])),
        ('sample 1 (classified only)', dc_common.sample_connection(
            1, rise=False, recession=False)),
    ]
    for plabel, parameters in parameter_sets:
        text = yaml.safe_dump(parameters)
        for clabel, connection in connections[:1]:
            dc_pest.run_pestfiles(
                rec, '{} / {}'.format(plabel, clabel), connection, text,
                outfile_types=('tpl',),
            )
    # Direct calls with parameter objects that YAML would not produce
    for plabel, parameters in [
        ('tuples', {
            'specific_yield': spline_sy(
                3, zeta_knots_mm=(1, 2), sy_knots=(1, 2, 3)),
            'transmissivity': spline_T(
                3, zeta_knots_mm=(5,), K_knots_km_d=(1, 2))}),
        ('ranges and generators', {
            'specific_yield': spline_sy(
                3, zeta_knots_mm=(v for v in [1, 2]), sy_knots=range(11)),
            'transmissivity': spline_T(
                3, zeta_knots_mm=iter([5]), K_knots_km_d=range(2))}),
        ('unsized sy_knots', {
            'specific_yield': spline_sy(3, sy_knots=(v for v in [1, 2])),
            'transmissivity': spline_T(3)}),
    ]:
        for name in ('generate_rise_tpl_file', 'generate_curves_tpl_file'):
            if plabel.startswith('ranges'):
                parameters['specific_yield']['zeta_knots_mm'] = (
                    v for v in [1, 2])
                parameters['transmissivity']['zeta_knots_mm'] = iter([5])
            outfile = io.StringIO()
            rec.call(
                'direct {} {}'.format(name, plabel),
                getattr(pestfiles_mod, name),
                connection=None,
                parameters=parameters,
                configuration={},
                outfile=outfile,
                precision=17,
            )
            rec.add('  written', outfile.getvalue())

    # All file types on the sample databases (the other generators
    # live in the same module and must be unaffected)
    connections.append(('sample 1', dc_common.sample_connection(1)))
    connections.append(('sample 2', dc_common.sample_connection(2)))
    for clabel, connection in connections:
        for kind in ('peatclsm', 'spline'):
            dc_pest.run_pestfiles(
                rec, 'sample {} / {}'.format(kind, clabel), connection,
                texts[kind],
            )
        rec.add('  dump ' + clabel, dc_common.dump_database(connection))


if __name__ == '__main__':
    dc_common.main(4, worker, os.path.abspath(__file__))
