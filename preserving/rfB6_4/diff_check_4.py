"""Differential check for refactor4.diff

(load.populate_rainfall_intensity and load.populate_evapotranspiration)
"""

import sys

import diff_harness

WORKER = r'''
import pytz

import spowtd.load as load_mod

TZ = pytz.timezone('Africa/Lagos')

# 1. Sample data through load_data, recording the arguments of the calls
_rain = load_mod.populate_rainfall_intensity
_et = load_mod.populate_evapotranspiration


def _recording_rain(cursor, time_grid, time_step):
    RESULTS.append(('pipeline rain call', list(time_grid), time_step))
    return _rain(cursor, time_grid, time_step)


def _recording_et(cursor, time_grid, time_step, tz):
    RESULTS.append(('pipeline et call', list(time_grid), time_step, str(tz)))
    return _et(cursor, time_grid, time_step, tz)


load_mod.populate_rainfall_intensity = _recording_rain
load_mod.populate_evapotranspiration = _recording_et
for sample in (1, 2):
    connection = load_sample(sample)
    RESULTS.append(('database', sample, dump_database(connection)))
load_mod.populate_rainfall_intensity = _rain
load_mod.populate_evapotranspiration = _et


# 2. Direct calls on synthetic tables
def prepared(grid_epochs, rain_rows, et_rows, foreign_keys=1):
    connection = sqlite3.connect(':memory:')
    with open(load_mod.SCHEMA_PATH, 'rt') as schema_file:
        connection.executescript(schema_file.read())
    connection.execute('PRAGMA foreign_keys = {}'.format(foreign_keys))
    connection.executemany(
        'INSERT INTO rainfall_intensity_staging VALUES (?, ?)', rain_rows)
    connection.executemany(
        'INSERT INTO evapotranspiration_staging VALUES (?, ?)', et_rows)
    connection.executemany(
        'INSERT INTO grid_time (epoch) VALUES (?)',
        [(epoch,) for epoch in grid_epochs])
    connection.commit()
    return connection


def values(epochs, scale):
    return [(epoch, scale * ((i * 7) % 11)) for i, epoch in enumerate(epochs)]


def case(label, grid_epochs, rain_epochs, et_epochs, time_grid, time_step,
         foreign_keys=1, calls=1, order=('rain', 'et')):
    connection = prepared(grid_epochs, values(rain_epochs, 0.5),
                          values(et_epochs, 0.01), foreign_keys)
    cursor = connection.cursor()
    for call in range(calls):
        for which in order:
            if which == 'rain':
                record((label, 'rain', call), _rain, cursor, time_grid,
                       time_step)
            else:
                record((label, 'et', call), _et, cursor, time_grid,
                       time_step, TZ)
            # state of the database right after each call, including
            # whatever a failed statement left behind
            RESULTS.append((label, which, call, 'database',
                            dump_database(connection)))
    connection.commit()
    RESULTS.append((label, 'committed', dump_database(connection)))


H = 3600
grid = list(range(10 * H, 20 * H + 1, H))  # 11 grid times, last is the end
staging = list(range(0, 40 * H, H))
case('consistent', grid, staging, staging, grid, H)
case('consistent tuple grid', grid, staging, staging, tuple(grid), H)
case('consistent array grid', grid, staging, staging, np.array(grid), H)
case('consistent int64 step', grid, staging, staging, grid, np.int64(H))
case('consistent twice', grid, staging, staging, grid, H, calls=2)
case('et first', grid, staging, staging, grid, H, order=('et', 'rain'))
case('step too long', grid, staging, staging, grid, 2 * H)
case('step too short', grid, staging, staging, grid, H // 2)
case('step off by a second', grid, staging, staging, grid, H + 1)
case('step too long, no fk', grid, staging, staging, grid, 2 * H,
     foreign_keys=0)
case('zero step', grid, staging, staging, grid, 0)
case('negative step', grid, staging, staging, grid, -H)
case('negative step, no fk', grid, staging, staging, grid, -H,
     foreign_keys=0)
case('none step', grid, staging, staging, grid, None)
case('float step', grid, staging, staging, grid, float(H))
case('fractional step', grid, staging, staging, grid, H + 0.5)
case('fractional step, no fk', grid, staging, staging, grid, H + 0.5,
     foreign_keys=0)
case('text step', grid, staging, staging, grid, str(H))
case('junk text step', grid, staging, staging, grid, 'abc')
case('bytes step', grid, staging, staging, grid, b'3600')
case('short grid list', grid, staging, staging, grid[:1], H)
case('empty grid list', grid, staging, staging, [], H)
case('two-item grid list', grid, staging, staging, grid[:2], H)
case('earlier bound', grid, staging, staging, grid[:5], H)
case('bound past the grid', grid, staging, staging,
     grid + [21 * H, 22 * H, 23 * H], H)
case('float bound', grid, staging, staging,
     [float(epoch) for epoch in grid], H)
case('fractional bound', grid, staging, staging,
     [epoch + 0.5 for epoch in grid], H)
case('text bound', grid, staging, staging,
     [str(epoch) for epoch in grid], H)
case('none bound', grid, staging, staging, [None, None, None], H)
case('staging off grid', grid, [e + 5 for e in staging], staging, grid, H)
case('staging partly off grid', grid,
     [e + (5 if i % 3 == 0 else 0) for i, e in enumerate(staging)],
     staging, grid, H)
case('rain staging stops early', grid, staging[:15], staging, grid, H)
case('rain staging starts late', grid, staging[13:], staging, grid, H)
case('et missing some', grid, staging, staging[:12] + staging[14:], grid, H)
case('et missing last', grid, staging, staging[:20], grid, H)
case('et empty', grid, staging, [], grid, H)
case('rain empty', grid, [], staging, grid, H)
case('grid_time empty', [], staging, staging, grid, H)
case('grid_time sparse', grid[::2], staging, staging, grid, H)
case('grid_time sparse double step', grid[::2], staging, staging, grid,
     2 * H)
case('grid_time denser than list', list(range(10 * H, 20 * H + 1, H // 2)),
     list(range(0, 40 * H, H // 2)), list(range(0, 40 * H, H // 2)),
     grid, H)
case('negative epochs', [e - 30 * H for e in grid],
     [e - 30 * H for e in staging], [e - 30 * H for e in staging],
     [e - 30 * H for e in grid], H)
case('unordered grid list', grid, staging, staging, grid[::-1], H)

rng = np.random.default_rng(4)
for trial in range(120):
    step = int(rng.choice([60, 900, 3600]))
    n_grid = int(rng.integers(2, 15))
    start = int(rng.integers(0, 50)) * step
    grid_t = [start + i * step for i in range(n_grid)]
    lo = start - int(rng.integers(0, 4)) * step
    rain_t = [lo + i * step for i in range(int(rng.integers(0, 25)))]
    et_t = [lo + i * step for i in range(int(rng.integers(0, 25)))]
    if trial % 3 == 0 and rain_t:
        del rain_t[int(rng.integers(0, len(rain_t)))]
    if trial % 4 == 0 and et_t:
        del et_t[int(rng.integers(0, len(et_t)))]
    used_step = step if trial % 5 else int(rng.choice([step * 2, step - 1]))
    case(('random', trial), grid_t, rain_t, et_t, grid_t, used_step,
         foreign_keys=int(trial % 7 != 0))

finish()
'''

if __name__ == '__main__':
    sys.exit(diff_harness.main('refactor4.diff', WORKER))
