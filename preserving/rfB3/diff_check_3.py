"""Differential check for refactor3.diff (spowtd/regrid.py: crossing_targets
and find_crossing helpers extracted from regrid).

Usage: cd /tmp/rf_B && /venv/bin/python diff_check_3.py
"""

import warnings

import numpy as np

import dc_common


def run_regrid(x, y, y_step, *args, **kwargs):
    """Exhaust regrid, keeping whatever was yielded before any exception"""
    import spowtd.regrid as regrid_mod

    points = []
    error = None
    try:
        generator = regrid_mod.regrid(x, y, y_step, *args, **kwargs)
        assert type(generator).__name__ == 'generator'
        for point in generator:
            points.append(point)
    except BaseException as exc:  # pylint: disable=broad-except
        error = (type(exc).__name__, str(exc))
    return (points, error)


def worker():
    warnings.simplefilter('ignore')
    results = {}
    rng = np.random.default_rng(20240917)
    kinds = ('linear', 'nearest', 'zero', 'slinear', 'quadratic', 'cubic')

    # The example in the module's __main__ block
    ys = np.array([2.0, 5.2, -1.3, -1.2, 10.0])
    xs = list(range(len(ys)))
    for kind in kinds:
        results['main-example-' + kind] = run_regrid(
            xs, ys, 1.0, interpolant=kind
        )
    results['main-example-default'] = run_regrid(xs, ys, 1.0)
    results['main-example-positional'] = run_regrid(xs, ys, 1.0, 'linear')

    # Random walks, monotone series, plateaus, integer-valued knots
    for seed in range(12):
        n = int(rng.integers(2, 60))
        x = np.cumsum(rng.uniform(0.1, 3.0, size=n))
        y = np.cumsum(rng.normal(0, 2.5, size=n))
        for step in (1.0, 0.25, 3.7, -1.0):
            results['walk-{}-{}'.format(seed, step)] = run_regrid(x, y, step)
        results['walk-{}-cubic'.format(seed)] = run_regrid(
            x, y, 1.0, interpolant='cubic' if n > 3 else 'linear'
        )
        results['walk-{}-x-list'.format(seed)] = run_regrid(
            list(x), y, 0.5
        )
        results['walk-{}-x-tuple'.format(seed)] = run_regrid(
            tuple(x), y, 0.5
        )
    t = np.arange(40.0)
    results['falling'] = run_regrid(t, 20.0 - 0.83 * t, 1.0)
    results['rising'] = run_regrid(t, -20.0 + 0.83 * t, 1.0)
    results['plateau'] = run_regrid(
        t[:8], np.array([1.5, 1.5, 1.5, 2.5, 2.5, 0.5, 0.5, 0.5]), 1.0
    )
    results['integer-knots'] = run_regrid(
        t[:7], np.array([0.0, 1.0, 3.0, 3.0, 2.0, -2.0, -1.0]), 1.0
    )
    results['integer-knots-int-dtype'] = run_regrid(
        t[:7], np.array([0, 1, 3, 3, 2, -2, -1]), 1
    )
    results['within-one-cell'] = run_regrid(
        t[:5], np.array([0.1, 0.9, 0.5, 0.2, 0.8]), 1.0
    )
    results['two-points-up'] = run_regrid([0.0, 1.0], np.array([0.5, 4.5]), 1)
    results['two-points-down'] = run_regrid(
        [0.0, 1.0], np.array([4.5, 0.5]), 1
    )
    results['two-points-equal'] = run_regrid(
        [0.0, 1.0], np.array([4.5, 4.5]), 1
    )
    results['negative-heads'] = run_regrid(
        t[:6], np.array([-0.5, -3.2, -7.9, -8.0, -6.1, -9.4]), 0.5
    )
    results['decreasing-x'] = run_regrid(
        t[:6][::-1], np.array([0.5, 3.2, 7.9, 8.0, 6.1, 9.4]), 1.0
    )
    results['large-values'] = run_regrid(
        t[:4], np.array([1e6 + 0.5, 1e6 + 3.5, 1e6 - 2.5, 1e6]), 1.0
    )

    # Error paths and odd inputs
    results['length-mismatch'] = run_regrid([0, 1, 2], np.array([1.0, 2.0]), 1)
    results['empty'] = run_regrid([], np.array([]), 1.0)
    results['empty-lists'] = run_regrid([], [], 1.0)
    results['nan-in-y'] = run_regrid(
        [0, 1, 2], np.array([1.0, np.nan, 2.0]), 1.0
    )
    results['inf-in-y'] = run_regrid(
        [0, 1, 2], np.array([1.0, np.inf, 2.0]), 1.0
    )
    results['y-is-list'] = run_regrid([0, 1, 2], [1.0, 4.0, 2.0], 1.0)
    results['single-point'] = run_regrid([0.0], np.array([1.5]), 1.0)
    results['zero-step'] = run_regrid([0, 1, 2], np.array([1.0, 4.0, 2.0]), 0)
    results['nan-x'] = run_regrid(
        [0, np.nan, 2], np.array([1.0, 4.0, 2.0]), 1.0
    )
    results['duplicate-x'] = run_regrid(
        [0, 1, 1, 2], np.array([1.0, 4.0, 2.0, 7.0]), 1.0
    )
    results['unsorted-x'] = run_regrid(
        [0, 2, 1, 3], np.array([1.0, 4.0, 2.0, 7.0]), 1.0
    )
    results['bad-kind'] = run_regrid(
        [0, 1, 2], np.array([1.0, 4.0, 2.0]), 1.0, interpolant='bogus'
    )
    results['cubic-too-few'] = run_regrid(
        [0, 1, 2], np.array([1.0, 4.0, 2.0]), 1.0, interpolant='cubic'
    )
    results['2d-y'] = run_regrid(
        [0.0, 1.0], np.array([[0.5, 2.5], [3.5, 1.5]]), 1.0
    )
    results['string-step'] = run_regrid([0, 1], np.array([1.0, 4.0]), 'a')
    results['x-none'] = run_regrid(None, np.array([1.0, 4.0]), 1.0)
    # nearest / zero interpolants jump, so brentq brackets can fail
    for kind in ('nearest', 'zero', 'previous', 'next'):
        results['jumpy-' + kind] = run_regrid(
            t[:9],
            np.array([0.2, 2.7, 2.2, 5.5, 5.4, 1.1, 0.0, -3.0, 4.0]),
            1.0,
            interpolant=kind,
        )

    # Helper-level properties that the caller relies on: laziness
    import spowtd.regrid as regrid_mod

    lazy = regrid_mod.regrid([0, 1, 2], np.array([1.0]), 1.0)
    results['lazy-validation'] = dc_common.outcome(next, lazy)
    partial = regrid_mod.regrid(
        [0.0, 1.0, 2.0], np.array([0.5, 3.5, np.nan]), 1.0
    )
    results['lazy-nan'] = dc_common.outcome(next, partial)

    # Sample data through the callers (fit_offsets -> rise / recession)
    for sample in (1, 2):
        results['sample{}-rise-recession'.format(sample)] = (
            dc_common.rise_and_recession(sample)
        )
        series = dc_common.interstorm_series(sample)
        for i, (time, zeta) in enumerate(series):
            results['sample{}-series{}'.format(sample, i)] = run_regrid(
                time, zeta, 1.0
            )
    results['sample1-rise-recession-2.5mm'] = dc_common.rise_and_recession(
        1, grid_interval_mm=2.5
    )
    return results


if __name__ == '__main__':
    dc_common.main(3, worker, __file__)
