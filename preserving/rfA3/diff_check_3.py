"""Differential check for refactor3.diff

(get_candidate_match_intervals split into helpers; get_true_interval_masks)
"""
import numpy as np

from diff_common import (
    call, check_classify, freeze, load_variants, loaded_sample_db, same,
    synthetic_series,
)

orig, new = load_variants(3)

# 1. get_true_interval_masks: exhaustive up to length 12, then random
count = 0
for n in range(0, 13):
    for code in range(2 ** n):
        vec = np.array([(code >> i) & 1 for i in range(n)], dtype=bool)
        a = freeze(call(orig.get_true_interval_masks, vec))
        b = freeze(call(new.get_true_interval_masks, vec))
        same("masks exhaustive {}/{}".format(n, code), a, b)
        count += 1
rng = np.random.default_rng(3)
for trial in range(300):
    vec = rng.random(int(rng.integers(1, 3000))) < rng.random()
    a = freeze(call(orig.get_true_interval_masks, vec))
    b = freeze(call(new.get_true_interval_masks, vec))
    same("masks random {}".format(trial), a, b)
    count += 1
# views / non-contiguous input, input not modified
base = rng.random(50) < 0.5
for vec in (base[::2], base[::-1], base[5:40]):
    before = vec.copy()
    a = freeze(call(orig.get_true_interval_masks, vec))
    b = freeze(call(new.get_true_interval_masks, vec))
    same("masks view", a, b)
    assert (vec == before).all()
# bad input: same exception, raised at call time (not lazily)
for bad in (np.array([0, 1, 1]), np.array([0.0, 1.0]), [True, False], None):
    a = freeze(call(orig.get_true_interval_masks, bad))
    b = freeze(call(new.get_true_interval_masks, bad))
    same("masks bad input {!r}".format(bad), a, b)
    assert a[1][0][1] == "exc"
print("get_true_interval_masks: {} inputs identical".format(count + 7))


# 2. get_candidate_match_intervals, consistent inputs (as match_storms calls it)
def candidates(module, rain, head, rain_thr, jump_thr):
    is_raining = rain > rain_thr
    rain_masks = list(orig.get_true_interval_masks(is_raining))
    jump_masks = list(orig.get_true_interval_masks(np.diff(head) > jump_thr))
    out = []
    for jump_mask in jump_masks:
        for storm_index in range(len(rain_masks)):
            out.append(freeze(call(
                module.get_candidate_match_intervals,
                head, jump_thr, is_raining, rain_masks, jump_mask, storm_index)))
    return out


n_calls = 0
for trial in range(300):
    n = int(rng.integers(2, 80))
    rain, head = synthetic_series(rng, n, p_rain=0.3, p_jump=0.5)
    a = candidates(orig, rain, head, 4.0, 4.0)
    b = candidates(new, rain, head, 4.0, 4.0)
    same("candidates {}".format(trial), a, b)
    n_calls += len(a)
print("get_candidate_match_intervals: {} consistent calls identical".format(n_calls))

# 3. inconsistent inputs: every assertion and the IndexErrors, same messages
T, F = True, False
head = np.array([0.0, 10.0, 20.0, 20.0, 30.0, 30.0])
is_raining = np.array([T, T, F, T, F, F])
good_rain = [np.array([T, T, F, F, F, F]), np.array([F, F, F, T, F, F])]
good_jump = np.array([T, T, F, F, F])
cases = {
    "ok": (head, 5.0, is_raining, good_rain, good_jump, 0),
    "storm not raining": (head, 5.0, is_raining,
                          [np.array([T, T, T, F, F, F])], good_jump, 0),
    "rain before": (head, 5.0, is_raining,
                    [np.array([F, T, F, F, F, F])], good_jump, 0),
    "rain after": (head, 5.0, is_raining,
                   [np.array([T, F, F, F, F, F])], good_jump, 0),
    "empty rain mask": (head, 5.0, is_raining, [np.zeros(6, bool)], good_jump, 0),
    "empty jump mask": (head, 5.0, is_raining, good_rain, np.zeros(5, bool), 0),
    "head pair": (head, 5.0, is_raining, good_rain,
                  np.array([T, T, T, F, F]), 0),
    "jump starts before": (head, 5.0, is_raining, good_rain,
                           np.array([F, T, F, F, F]), 0),
    "jump ends after": (head, 5.0, is_raining, good_rain,
                        np.array([T, F, F, F, F]), 0),
    "jump to end": (head, 5.0, is_raining, good_rain,
                    np.array([F, F, F, T, F]), 1),
    "jump at very end": (np.array([0.0, 0.0, 0.0, 0.0, 0.0, 30.0]), 5.0,
                         is_raining, good_rain, np.array([F, F, F, F, T]), 1),
    "bad storm index": (head, 5.0, is_raining, good_rain, good_jump, 7),
    "int head": (head.astype(int), 5, is_raining, good_rain, good_jump, 0),
    "int head pair": (head.astype(int), 5, is_raining, good_rain,
                      np.array([F, T, F, F, F]), 0),
}
kinds = set()
for label, args in cases.items():
    a = freeze(call(orig.get_candidate_match_intervals, *args))
    b = freeze(call(new.get_candidate_match_intervals, *args))
    same("inconsistent: " + label, a, b)
    kinds.add(a[1][1:3] if a[1][0][1] == "exc" else "ok")
print("inconsistent inputs: {} cases identical, {} distinct outcomes".format(
    len(cases), len(kinds)))
for k in sorted(map(str, kinds)):
    print("   ", k[:110])

# 4. match_storms and the whole classification
for sample in (1, 2):
    conn = loaded_sample_db(sample)
    rows = conn.execute(
        """SELECT zeta_mm, rainfall_intensity_mm_h, data_interval
           FROM grid_time JOIN rainfall_intensity ON from_epoch = grid_time.epoch
           JOIN water_level ON from_epoch = water_level.epoch
           WHERE data_interval IS NOT NULL ORDER BY from_epoch""").fetchall()
    for interval in sorted({r[2] for r in rows}):
        head = np.array([r[0] for r in rows if r[2] == interval])
        rain = np.array([r[1] for r in rows if r[2] == interval])
        for thr in ((8.0, 2.5), (4.0, 4.0), (0.0, 0.0)):
            a = freeze(call(orig.match_storms, rain, head, *thr))
            b = freeze(call(new.match_storms, rain, head, *thr))
            same("match_storms sample {}/{}".format(sample, interval), a, b)
check_classify(orig, new)
print("diff_check_3 OK")
