"""Differential check for refactor3.diff (spowtd/transmissivity.py:
SplineTransmissivity and PeatclsmTransmissivity)"""

import sys

sys.path.insert(0, '/tmp/rf_D')
import diff_common  # noqa: E402

WORKER = r'''
import sqlite3
import numpy as np
import yaml
import spowtd.transmissivity as T_mod


def record(key, func, *args, **kwargs):
    assert key not in RESULTS, key
    RESULTS[key] = attempt(func, *args, **kwargs)


with open(SAMPLE_DIR + '/spline_parameters.yml') as f:
    spline_pars = yaml.safe_load(f)['transmissivity']
with open(SAMPLE_DIR + '/peatclsm_parameters.yml') as f:
    peatclsm_pars = yaml.safe_load(f)['transmissivity']


def exercise_spline(tag, make):
    try:
        T = make()
    except BaseException as exc:
        RESULTS[tag + '/construct'] = canon(exc)
        return
    record(tag + '/attrs', lambda: (T.zeta_knots_mm, T.K_knots_km_d,
                                    T.minimum_transmissivity_m2_d))
    record(tag + '/tck', lambda: tuple(T._spline._tck))
    lo = float(T.zeta_knots_mm.min())
    hi = float(T.zeta_knots_mm.max())
    span = hi - lo
    scalars = [lo - 100.0, lo, lo + 1e-9, lo + 0.25 * span, 0.5 * (lo + hi),
               hi - 1e-6, hi, hi + 50.0, 0, 0.0, -10, np.float64(lo + 0.1 * span),
               np.float32(lo + 10), np.int64(int(lo) + 5), float('nan'),
               float('inf'), float('-inf'), True]
    for i, level in enumerate(scalars):
        record('{}/call/{}'.format(tag, i), T, level)
        record('{}/call_scalar/{}'.format(tag, i), T.call_scalar, level)
        record('{}/conductivity/{}'.format(tag, i), T.conductivity, level)
    inside = np.linspace(lo - 0.2 * span, hi - 1e-3, 23)
    record(tag + '/call/array', T, inside)
    record(tag + '/call/list', T, list(inside[:7]))
    record(tag + '/call/tuple', T, tuple(inside[:5]))
    record(tag + '/call/generator', T, (v for v in inside[:5]))
    record(tag + '/call/int_array', T, np.arange(int(lo) - 3, int(lo) + 40, 7))
    record(tag + '/call/float32_array', T, inside[:6].astype('float32'))
    record(tag + '/call/all_below', T, np.array([lo - 5, lo - 1, lo]))
    record(tag + '/call/empty_array', T, np.array([]))
    record(tag + '/call/empty_list', T, [])
    record(tag + '/call/too_high', T, np.array([lo + 1, hi + 1, lo + 2]))
    record(tag + '/call/two_d', T, inside[:6].reshape(2, 3))
    record(tag + '/call/zero_d', T, np.array(lo + 1))
    record(tag + '/call/with_nan', T, np.array([lo + 1, np.nan]))
    record(tag + '/call/none', T, None)
    record(tag + '/call/str', T, 'abc')
    record(tag + '/call/list_with_none', T, [lo + 1, None])
    record(tag + '/call/list_of_str', T, ['1.0'])


exercise_spline('sample', lambda: T_mod.create_transmissivity_function(dict(spline_pars)))
exercise_spline('sample_direct', lambda: T_mod.SplineTransmissivity(
    spline_pars['zeta_knots_mm'], spline_pars['K_knots_km_d'],
    spline_pars['minimum_transmissivity_m2_d']))
exercise_spline('arrays', lambda: T_mod.SplineTransmissivity(
    np.array([-500.0, -200.0, -50.0, 0.0, 100.0]),
    np.array([1e-4, 3e-3, 0.2, 40.0, 40.0]), 0.5))
exercise_spline('int_min_T', lambda: T_mod.SplineTransmissivity(
    [-300, -100, 0, 200], [1, 2, 3, 10], 7))
exercise_spline('np_min_T', lambda: T_mod.SplineTransmissivity(
    (-300.0, -100.0, 50.0), (0.01, 2.0, 3.5), np.float64(1.25)))
exercise_spline('float32_knots', lambda: T_mod.SplineTransmissivity(
    np.array([-300.0, -100.0, 50.0], dtype='float32'),
    np.array([0.01, 2.0, 3.5], dtype='float32'), 1.25))
exercise_spline('two_knots', lambda: T_mod.SplineTransmissivity([-10.0, 10.0], [1.0, 5.0], 0.0))
exercise_spline('none_min_T', lambda: T_mod.SplineTransmissivity(
    [-300.0, -100.0, 50.0], [0.01, 2.0, 3.5], None))
exercise_spline('keywords', lambda: T_mod.SplineTransmissivity(
    minimum_transmissivity_m2_d=2.0, K_knots_km_d=[0.5, 0.7, 3.0],
    zeta_knots_mm=[-40.0, -20.0, 30.0]))
# Bad construction
exercise_spline('bad_negative_K', lambda: T_mod.SplineTransmissivity(
    [-300.0, -100.0, 50.0], [0.01, -2.0, 3.5], 1.0))
exercise_spline('bad_zero_K', lambda: T_mod.SplineTransmissivity(
    [-300.0, -100.0, 50.0], [0.0, 2.0, 3.5], 1.0))
exercise_spline('bad_unsorted', lambda: T_mod.SplineTransmissivity(
    [-100.0, -300.0, 50.0], [0.01, 2.0, 3.5], 1.0))
exercise_spline('bad_lengths', lambda: T_mod.SplineTransmissivity(
    [-300.0, -100.0, 50.0], [0.01, 2.0], 1.0))
exercise_spline('bad_one_knot', lambda: T_mod.SplineTransmissivity([-300.0], [0.01], 1.0))
exercise_spline('bad_empty', lambda: T_mod.SplineTransmissivity([], [], 1.0))
exercise_spline('bad_strings', lambda: T_mod.SplineTransmissivity(['a', 'b'], [1.0, 2.0], 1.0))
exercise_spline('bad_none', lambda: T_mod.SplineTransmissivity(None, None, 1.0))
exercise_spline('bad_missing', lambda: T_mod.create_transmissivity_function(
    {'type': 'spline', 'zeta_knots_mm': [0.0, 1.0]}))
exercise_spline('bad_no_type', lambda: T_mod.create_transmissivity_function(
    {'zeta_knots_mm': [0.0, 1.0]}))


def exercise_peatclsm(tag, make):
    tag = 'peatclsm_' + tag
    try:
        T = make()
    except BaseException as exc:
        RESULTS[tag + '/construct'] = canon(exc)
        return
    record(tag + '/attrs', lambda: (T.Ksmacz0, T.alpha, T.zeta_max_cm))
    inputs = {
        'zero': 0.0, 'int': -250, 'bool': True, 'at_max': 10.0, 'just_below': 9.999,
        'above': 10.5, 'far_above': 1e6, 'np64': np.float64(-33.3),
        'np32': np.float32(-33.3), 'nan': float('nan'), 'inf': float('inf'),
        'neg_inf': float('-inf'),
        'array': np.linspace(-1500.0, 0.0, 151)[::-1],
        'array_to_max': np.linspace(-500.0, 10.0, 18),
        'array_one_above': np.array([-100.0, 10.1, -5.0]),
        'array_all_above': np.array([11.0, 12.0]),
        'array_nan': np.array([-100.0, np.nan]),
        'int_array': np.arange(-400, 0, 37),
        'int_array_above': np.arange(-40, 40, 15),
        'float32_array': np.linspace(-300, 0, 7).astype('float32'),
        'list': [-100.0, -50.0, 0.0], 'list_above': [-100.0, 500.0],
        'tuple': (-20.0, -10.0), 'two_d': np.linspace(-90, 0, 6).reshape(2, 3),
        'two_d_above': np.linspace(-90, 90, 6).reshape(3, 2),
        'zero_d': np.array(-12.5), 'zero_d_above': np.array(125.0),
        'empty': np.array([]), 'empty_list': [],
        'none': None, 'str': 'abc', 'list_none': [1.0, None], 'ragged': [[1.0], [1.0, 2.0]],
    }
    for name, value in inputs.items():
        record('{}/call/{}'.format(tag, name), T, value)
    record(tag + '/call/keyword', lambda: T(water_level_mm=-5.0))


exercise_peatclsm('sample', lambda: T_mod.create_transmissivity_function(dict(peatclsm_pars)))
exercise_peatclsm('direct', lambda: T_mod.PeatclsmTransmissivity(7.3, 3, 1.0))
exercise_peatclsm('float_alpha', lambda: T_mod.PeatclsmTransmissivity(2.5, 2.75, 1.0))
exercise_peatclsm('alpha_one', lambda: T_mod.PeatclsmTransmissivity(2.5, 1, 1.0))
exercise_peatclsm('alpha_one_np', lambda: T_mod.PeatclsmTransmissivity(2.5, np.float64(1), 1.0))
exercise_peatclsm('alpha_small', lambda: T_mod.PeatclsmTransmissivity(2.5, 0.5, 1.0))
exercise_peatclsm('int_zeta_max', lambda: T_mod.PeatclsmTransmissivity(10, 3, 1))
exercise_peatclsm('negative_zeta_max', lambda: T_mod.PeatclsmTransmissivity(7.3, 3.0, -20.0))
exercise_peatclsm('np_pars', lambda: T_mod.PeatclsmTransmissivity(
    np.float64(7.3), np.float64(3.0), np.float64(1.0)))
exercise_peatclsm('np32_pars', lambda: T_mod.PeatclsmTransmissivity(
    np.float32(7.3), np.float32(3.0), np.float32(1.0)))
exercise_peatclsm('nan_zeta_max', lambda: T_mod.PeatclsmTransmissivity(7.3, 3.0, float('nan')))
exercise_peatclsm('array_zeta_max', lambda: T_mod.PeatclsmTransmissivity(
    7.3, 3.0, np.array([1.0, 2.0, 3.0])))
exercise_peatclsm('none_pars', lambda: T_mod.PeatclsmTransmissivity(None, None, None))
exercise_peatclsm('str_zeta_max', lambda: T_mod.PeatclsmTransmissivity(7.3, 3.0, '1.0'))
exercise_peatclsm('keywords', lambda: T_mod.PeatclsmTransmissivity(
    zeta_max_cm=2.0, alpha=4, Ksmacz0=1.5))
exercise_peatclsm('bad_missing', lambda: T_mod.PeatclsmTransmissivity(7.3, 3.0))

# CLI steps that reach the transmissivity classes: dump of the curve for
# both parameterizations and the recession simulation on sample data
import gc
import spowtd.user_interface as ui
for kind in ('spline', 'peatclsm'):
    dump_path = os.path.join(WORKDIR, kind + '_T_dump.txt')
    lo, hi = ('-29', '16') if kind == 'spline' else ('-150', '0')
    record('cli/dump/{}/returncode'.format(kind), ui.main, [
        'plot', 'transmissivity', '{}/{}_parameters.yml'.format(SAMPLE_DIR, kind),
        lo, hi, '-n', '19', '--dump', dump_path])
    gc.collect()
    record('cli/dump/{}/text'.format(kind), lambda: open(dump_path).read())

db = os.path.join(WORKDIR, 'sample1.sqlite3')
steps = [
    ['load', db, '-p', SAMPLE_DIR + '/precipitation_1.txt',
     '-e', SAMPLE_DIR + '/evapotranspiration_1.txt',
     '-z', SAMPLE_DIR + '/water_level_1.txt', '--timezone', 'Africa/Lagos'],
    ['classify', db, '-s', '8.0', '-j', '5.0'],
    ['set-zeta-grid', db, '-d', '1.0'],
    ['recession', db],
    ['set-curvature', db, '1.0'],
]
for step in steps:
    record('cli/' + step[0], ui.main, step)
gc.collect()
for kind in ('spline', 'peatclsm'):
    for flags in ([], ['--observations']):
        out_path = os.path.join(WORKDIR, 'sim_{}_{}.yml'.format(kind, len(flags)))
        record('cli/simulate_recession/{}/{}/returncode'.format(kind, len(flags)), ui.main, [
            'simulate', 'recession', db,
            '{}/{}_parameters.yml'.format(SAMPLE_DIR, kind), '-o', out_path] + flags)
        gc.collect()
        record('cli/simulate_recession/{}/{}/text'.format(kind, len(flags)),
               lambda: open(out_path).read())
'''

if __name__ == '__main__':
    diff_common.compare(3, WORKER)
