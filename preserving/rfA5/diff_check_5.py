"""Differential check for refactor5.diff (match_all_storms, record_storm_match)"""
import numpy as np

from diff_common import (
    call, check_classify, classify_cases, clone, dump, freeze, load_variants,
    loaded_sample_db, same, synthetic_db, synthetic_series,
)

orig, new = load_variants(5)

OLD_SQL = """
 SELECT water_level.epoch, zeta_mm, rainfall_intensity_mm_h
 FROM grid_time
 JOIN rainfall_intensity
   ON rainfall_intensity.from_epoch = grid_time.epoch
   AND grid_time.data_interval = ?
 JOIN water_level
   ON rainfall_intensity.from_epoch = water_level.epoch
 ORDER BY from_epoch"""
NEW_SQL = """
 SELECT wl.epoch, wl.zeta_mm, ri.rainfall_intensity_mm_h
 FROM water_level AS wl
 JOIN rainfall_intensity AS ri
   ON ri.from_epoch = wl.epoch
 WHERE wl.epoch IN (
   SELECT gt.epoch FROM grid_time AS gt WHERE gt.data_interval = ?
 )
 ORDER BY wl.epoch"""


def intervals_of(conn):
    return [r[0] for r in conn.execute(
        "SELECT DISTINCT data_interval FROM grid_time "
        "WHERE data_interval IS NOT NULL ORDER BY data_interval")]


# 1. the rewritten SELECT returns the same rows in the same order
n_queries = 0
rng = np.random.default_rng(5)
dbs = [loaded_sample_db(1), loaded_sample_db(2)]
dbs += [conn for _, conn, _, _ in classify_cases()][4:]
# partial joins: drop some rainfall / water-level rows (FKs off for the surgery)
for trial in range(10):
    rain, head = synthetic_series(rng, 60)
    conn = synthetic_db(rain, head, intervals=[(0, 20, 1), (22, 40, 2), (41, 60, 3)])
    conn.execute("PRAGMA foreign_keys = 0")
    epochs = [r[0] for r in conn.execute("SELECT epoch FROM grid_time ORDER BY epoch")]
    for e in rng.choice(epochs[:-1], 6, replace=False):
        conn.execute("DELETE FROM rainfall_intensity WHERE from_epoch = ?", (int(e),))
    for e in rng.choice(epochs[:-1], 6, replace=False):
        conn.execute("DELETE FROM water_level WHERE epoch = ?", (int(e),))
    conn.commit()
    dbs.append(conn)
for conn in dbs:
    for interval in intervals_of(conn) + [None, -1, 99]:
        a = conn.execute(OLD_SQL, (interval,)).fetchall()
        b = conn.execute(NEW_SQL, (interval,)).fetchall()
        same("select rows", freeze(a), freeze(b))
        n_queries += 1
print("SELECT rewrite: {} queries return identical rows".format(n_queries))


# 2. match_all_storms alone, after the original classify_interstorms
def run_match_all(module, conn, rain_thr, jump_thr, fake_match=None):
    db = clone(conn)
    cursor = db.cursor()
    outcomes = []
    saved = module.match_storms
    if fake_match is not None:
        module.match_storms = fake_match
    try:
        for interval in intervals_of(db):
            outcomes.append(freeze(call(
                orig.classify_interstorms, cursor, interval, jump_thr)))
            outcomes.append(freeze(call(
                module.match_all_storms, cursor, interval, rain_thr, jump_thr)))
    finally:
        module.match_storms = saved
    return outcomes, dump(db)


n_cases = 0
for label, conn, rain_thr, jump_thr in classify_cases():
    a = run_match_all(orig, conn, rain_thr, jump_thr)
    b = run_match_all(new, conn, rain_thr, jump_thr)
    same(label + " match_all_storms outcome", a[0], b[0])
    same(label + " match_all_storms db", a[1], b[1])
    n_cases += 1
print("match_all_storms: {} cases identical".format(n_cases))

# 3. safety checks inside the loop, reached with a doctored matching:
#    duplicate storm, storm interval that is not all rain, rise below threshold,
#    unequal numbers of intervals, storm in the last time step, FK violation
rain = np.array([0.0, 9.0, 9.0, 0.0, 0.0, 9.0, 0.0, 0.0, 0.0, 9.0])
head = np.array([0.0, 0.0, 10.0, 20.0, 20.0, 20.0, 30.0, 30.0, 30.0, 30.0])
conn = synthetic_db(rain, head)
i64 = np.int64
fakes = {
    "plain": ([(i64(1), i64(3)), (i64(5), i64(6))],
              [(i64(1), i64(4)), (i64(5), i64(7))]),
    "duplicate storm": ([(i64(1), i64(3)), (i64(1), i64(3))],
                        [(i64(1), i64(4)), (i64(5), i64(7))]),
    "duplicate rise": ([(i64(1), i64(3)), (i64(5), i64(6))],
                       [(i64(1), i64(4)), (i64(1), i64(4))]),
    "not all rain": ([(i64(1), i64(3)), (i64(4), i64(6))],
                     [(i64(1), i64(4)), (i64(5), i64(7))]),
    "flat rise": ([(i64(1), i64(3)), (i64(5), i64(6))],
                  [(i64(1), i64(4)), (i64(5), i64(8))]),
    "last step": ([(i64(9), i64(10))], [(i64(1), i64(4))]),
    "python ints": ([(1, 3), (5, 6)], [(1, 4), (5, 7)]),
    "thru before start": ([(i64(1), i64(3))], [(i64(4), i64(5))]),
    "empty": ([], []),
    "fewer rises": ([(i64(1), i64(3)), (i64(5), i64(6))], [(i64(1), i64(4))]),
    "fewer storms": ([(i64(1), i64(3))], [(i64(1), i64(4)), (i64(5), i64(7))]),
}
outcomes = set()
for label, (rains, jumps) in fakes.items():
    fake = lambda *args, rains=rains, jumps=jumps: (list(rains), list(jumps))
    a = run_match_all(orig, conn, 4.0, 8.0, fake)
    b = run_match_all(new, conn, 4.0, 8.0, fake)
    same("doctored " + label + " outcome", a[0], b[0])
    same("doctored " + label + " db", a[1], b[1])
    outcomes.add(str(a[0][-1][1][:3])[:160])
print("doctored matchings: {} cases identical; outcomes:".format(len(fakes)))
for o in sorted(outcomes):
    print("   ", o)

# 4. whole classification
check_classify(orig, new)
print("diff_check_5 OK")
