"""Differential check for refactor2.diff (get_candidate_match_intervals)

Loads spowtd/classify.py twice -- the committed version and the committed
version with refactor2.diff applied -- and asserts exactly equal results.
"""

import importlib.util
import os
import sqlite3
import subprocess
import sys
import tempfile
import types

import numpy as np

ROOT = os.path.dirname(os.path.abspath(__file__))
PATCH = os.path.join(ROOT, "refactor2.diff")
sys.path.insert(0, ROOT)


def load_variants():
    """Return (original module, refactored module)"""
    tmp = tempfile.mkdtemp(prefix="rfA_dc_")
    source = subprocess.check_output(
        ["git", "-C", ROOT, "show", "HEAD:spowtd/classify.py"]
    )
    mods = []
    for name in ("orig", "new"):
        pkg = os.path.join(tmp, name, "spowtd")
        os.makedirs(pkg)
        path = os.path.join(pkg, "classify.py")
        with open(path, "wb") as f:
            f.write(source)
        if name == "new":
            subprocess.check_call(["git", "apply", PATCH], cwd=os.path.join(tmp, name))
            with open(path, "rb") as f:
                assert f.read() != source, "patch changed nothing"
        spec = importlib.util.spec_from_file_location("classify_" + name, path)
        mod = importlib.util.module_from_spec(spec)
        spec.loader.exec_module(mod)
        mods.append(mod)
    return mods


def canon(value):
    """Type-strict canonical form"""
    if isinstance(value, np.ndarray):
        return ("ndarray", str(value.dtype), value.shape, value.tobytes())
    if isinstance(value, (list, tuple)):
        return (type(value).__name__, [canon(v) for v in value])
    if isinstance(value, dict):
        return ("dict", [(canon(k), canon(v)) for k, v in value.items()])
    if isinstance(value, types.GeneratorType):
        return ("generator", [canon(v) for v in value])
    return (type(value).__name__, repr(value))


def run(func, *args):
    """Result or exception of func(*args), canonical"""
    try:
        return ("ok", canon(func(*args)))
    except BaseException as exc:  # pylint: disable=broad-except
        return ("raise", type(exc).__name__, str(exc))


def dump_db(connection):
    """All rows (with storage classes) of the tables classify writes"""
    out = {}
    for table in (
        "thresholds",
        "grid_time_flags",
        "zeta_interval",
        "storm",
        "zeta_interval_storm",
    ):
        cursor = connection.execute(f"SELECT * FROM {table} ORDER BY rowid")
        cols = [d[0] for d in cursor.description]
        rows = cursor.fetchall()
        types_ = connection.execute(
            "SELECT {} FROM {} ORDER BY rowid".format(
                ", ".join(f"typeof({c})" for c in cols), table
            )
        ).fetchall()
        out[table] = (cols, rows, types_)
    return out


def classify_sample(mod, sample, storm_thr, jump_thr):
    """Load sample data and classify with mod; return DB dump or exception"""
    import spowtd.load as load_mod

    data_dir = os.path.join(ROOT, "spowtd", "test", "sample_data")
    connection = sqlite3.connect(":memory:")
    files = [
        open(os.path.join(data_dir, f"{kind}_{sample}.txt"), "rt", encoding="utf-8-sig")
        for kind in ("precipitation", "evapotranspiration", "water_level")
    ]
    try:
        load_mod.load_data(
            connection=connection,
            precipitation_data_file=files[0],
            evapotranspiration_data_file=files[1],
            water_level_data_file=files[2],
            time_zone_name="Africa/Lagos",
        )
    finally:
        for f in files:
            f.close()
    try:
        mod.classify_intervals(connection, storm_thr, jump_thr)
        return ("ok", dump_db(connection))
    except BaseException as exc:  # pylint: disable=broad-except
        return ("raise", type(exc).__name__, str(exc), dump_db(connection))


def get_call_args(mod, rain, head, rain_threshold, jump_threshold):
    """Arguments of every get_candidate_match_intervals call made by match_storms"""
    is_raining = rain > rain_threshold
    rain_masks = list(mod.get_true_interval_masks(is_raining))
    storm_indices = np.zeros(len(is_raining), np.int64) - 1
    for i, rain_mask in enumerate(rain_masks):
        storm_indices[rain_mask] = i
    is_jump = np.diff(head) > jump_threshold
    calls = []
    for jump_mask in mod.get_true_interval_masks(is_jump):
        intersection = is_raining[:-1] & jump_mask
        for storm_index in set(storm_indices[np.nonzero(intersection)[0]]):
            calls.append(
                (head, jump_threshold, is_raining, rain_masks, jump_mask, storm_index)
            )
    return calls


def main():
    orig, new = load_variants()
    n_cases = 0
    n_raise = 0
    rng = np.random.default_rng(20240928)

    def compare(args):
        nonlocal n_cases, n_raise
        res_o = run(orig.get_candidate_match_intervals, *args)
        res_n = run(new.get_candidate_match_intervals, *args)
        assert res_o == res_n, (args, res_o, res_n)
        n_cases += 1
        n_raise += res_o[0] == "raise"
        return res_o

    # Valid calls as made by match_storms, including jumps at either end
    for trial in range(300):
        n = int(rng.integers(2, 40))
        rain = np.where(rng.random(n) < 0.5, rng.random(n) * 20, 0.0)
        head = np.cumsum(np.where(rain > 4, rain, -0.3) + rng.normal(0, 0.5, n))
        if trial % 3 == 0:
            rain[0] = 10.0
            head[1:] += 10.0
        if trial % 3 == 1:
            rain[-2:] = 10.0
            head[-1] = head[-2] + 10.0
        for args in get_call_args(orig, rain, head, 4.0, 3.0):
            res = compare(args)
            assert res[0] == "ok", res
            # Perturbed calls reaching each assertion
            (head_, thr, is_raining, rain_masks, jump_mask, storm_index) = args
            compare((head_, thr, ~is_raining, rain_masks, jump_mask, storm_index))
            compare((head_, thr, np.ones_like(is_raining), rain_masks, jump_mask, storm_index))
            compare((head_, thr * 5, is_raining, rain_masks, jump_mask, storm_index))
            compare((head_, -100.0, is_raining, rain_masks, jump_mask, storm_index))
            compare((head_[::-1].copy(), thr, is_raining, rain_masks, jump_mask, storm_index))
            compare((head_, thr, is_raining, rain_masks, np.roll(jump_mask, 1), storm_index))
            compare((head_, thr, is_raining, rain_masks, np.roll(jump_mask, -1), storm_index))
            compare((head_, thr, is_raining, rain_masks, np.zeros_like(jump_mask), storm_index))
            compare((head_, thr, is_raining, rain_masks, np.ones_like(jump_mask), storm_index))
            compare((head_, thr, is_raining, rain_masks, jump_mask, len(rain_masks)))
            compare((head_[:-1], thr, is_raining, rain_masks, jump_mask, storm_index))
            shrunk = [m.copy() for m in rain_masks]
            first = np.flatnonzero(shrunk[storm_index])[0]
            shrunk[storm_index][first] = False
            compare((head_, thr, is_raining, shrunk, jump_mask, storm_index))
            last_false = [m.copy() for m in rain_masks]
            last_false[storm_index][np.flatnonzero(last_false[storm_index])[-1]] = False
            compare((head_, thr, is_raining, last_false, jump_mask, storm_index))
            empty = [np.zeros_like(m) for m in rain_masks]
            compare((head_, thr, is_raining, empty, jump_mask, storm_index))
    assert n_raise > 100, n_raise
    # Callers
    for _ in range(200):
        n = int(rng.integers(2, 60))
        rain = np.where(rng.random(n) < 0.4, rng.random(n) * 20, 0.0)
        head = np.cumsum(np.where(rain > 4, rain, -0.3) + rng.normal(0, 0.5, n))
        res_o = run(orig.match_storms, rain.copy(), head.copy(), 4.0, 3.0)
        res_n = run(new.match_storms, rain.copy(), head.copy(), 4.0, 3.0)
        assert res_o == res_n, (rain, head, res_o, res_n)
        n_cases += 1
    for sample in (1, 2):
        for thresholds in ((8.0, 5.0), (4.0, 8.0), (2.0, 2.0)):
            res_o = classify_sample(orig, sample, *thresholds)
            res_n = classify_sample(new, sample, *thresholds)
            assert res_o == res_n, (sample, thresholds)
            print(
                "sample", sample, thresholds, res_o[0],
                {k: len(v[1]) for k, v in res_o[-1].items()},
            )
            n_cases += 1
    print(f"diff_check_2: OK ({n_cases} cases identical, {n_raise} of them raising)")


if __name__ == "__main__":
    main()
