"""Shared helpers for diff_check_K.py (round 7, group D)

Each diff_check_K.py runs itself twice as a worker, once with PYTHONPATH
pointing at a pristine copy of the package (git HEAD) and once at a copy
with refactorK.diff applied, pickles everything it observed, and the
parent compares the two pickles for exact equality (floats by bit
pattern).

"""

import io
import os
import pickle
import random
import re
import shutil
import sqlite3
import struct
import subprocess
import sys

ROOT = '/tmp/rf_D'
WORK = os.path.join(ROOT, '_dc')
PYTHON = '/venv/bin/python'


# ---------------------------------------------------------------------
# Package copies
# ---------------------------------------------------------------------
def make_copy(name, patch=None):
    """Extract HEAD:spowtd into WORK/name, optionally apply a patch"""
    dest = os.path.join(WORK, name)
    if os.path.exists(dest):
        shutil.rmtree(dest)
    os.makedirs(dest)
    archive = subprocess.run(
        ['git', '-C', ROOT, 'archive', 'HEAD', 'spowtd'],
        check=True,
        stdout=subprocess.PIPE,
    ).stdout
    subprocess.run(['tar', '-x', '-C', dest], input=archive, check=True)
    if patch is not None:
        subprocess.run(
            ['patch', '-p1', '-s', '-d', dest, '-i', patch], check=True
        )
    return dest


def run_both(script, k):
    """Run script as worker against the original and refactored copy"""
    orig = make_copy('orig')
    new = make_copy('new%d' % k, os.path.join(ROOT, 'refactor%d.diff' % k))
    procs = []
    for label, path in (('orig', orig), ('new', new)):
        out = os.path.join(WORK, 'result_%d_%s.pkl' % (k, label))
        if os.path.exists(out):
            os.remove(out)
        env = dict(os.environ)
        env['PYTHONPATH'] = path + os.pathsep + ROOT
        env['PYTHONHASHSEED'] = '0'
        procs.append(
            (
                subprocess.Popen(
                    [PYTHON, script, '--worker', path, out], env=env
                ),
                out,
            )
        )
    results = []
    for proc, out in procs:
        assert proc.wait() == 0, proc.args
        with open(out, 'rb') as f:
            results.append(pickle.load(f))
    return results


def check_worker_package(path):
    """Assert that the imported spowtd is the copy under path"""
    # The script directory (the worktree itself) must not shadow the copy
    sys.path[:] = [path] + [
        entry
        for entry in sys.path
        if os.path.abspath(entry or '.') not in (ROOT, path)
    ]
    assert 'spowtd' not in sys.modules
    import spowtd

    assert os.path.dirname(os.path.dirname(spowtd.__file__)) == path, (
        spowtd.__file__,
        path,
    )


# ---------------------------------------------------------------------
# Exact encodings
# ---------------------------------------------------------------------
def enc(value):
    """Encode a value so that equality means bit-identical"""
    if isinstance(value, float):
        return ('f', struct.pack('>d', value).hex())
    if isinstance(value, bool):
        return ('b', value)
    if isinstance(value, int):
        return ('i', value)
    if value is None or isinstance(value, (str, bytes)):
        return (type(value).__name__, value)
    if isinstance(value, (tuple, list)):
        return (type(value).__name__, [enc(v) for v in value])
    if isinstance(value, dict):
        return ('dict', [(enc(k), enc(v)) for k, v in value.items()])
    try:
        import numpy as np

        if isinstance(value, np.ndarray):
            return (
                'nd',
                str(value.dtype),
                value.shape,
                value.tobytes().hex(),
            )
        if isinstance(value, np.generic):
            return ('npg', str(value.dtype), value.tobytes().hex())
    except ImportError:
        pass
    raise TypeError(type(value))


def call(func, *args, **kwargs):
    """Call func, return ('ok', encoded result) or ('exc', type, message)"""
    try:
        return ('ok', enc(func(*args, **kwargs)))
    except BaseException as exc:  # pylint: disable=broad-except
        return ('exc', type(exc).__name__, str(exc))


def dump(connection):
    """Full SQL dump of a database"""
    return list(connection.iterdump())


# ---------------------------------------------------------------------
# Recording connection
# ---------------------------------------------------------------------
class RecCursor(sqlite3.Cursor):
    """Cursor that logs statements, their query plans and fetched rows"""

    def execute(self, sql, parameters=()):
        entry = {'sql': sql, 'rows': [], 'plan': None, 'error': None}
        self.connection.log.append(entry)
        self._entry = entry
        head = sql.lstrip().split(None, 1)[0].upper()
        if head in ('SELECT', 'WITH'):
            try:
                plain = sqlite3.Cursor(self.connection)
                entry['plan'] = [
                    row[3]
                    for row in sqlite3.Cursor.execute(
                        plain, 'EXPLAIN QUERY PLAN ' + sql, parameters
                    )
                ]
                plain.close()
            except sqlite3.Error:
                entry['plan'] = None
        try:
            return super().execute(sql, parameters)
        except BaseException as exc:
            entry['error'] = (type(exc).__name__, str(exc))
            raise

    def fetchone(self):
        row = super().fetchone()
        self._entry['rows'].append(enc(row))
        return row

    def fetchall(self):
        rows = super().fetchall()
        self._entry['rows'].extend(enc(row) for row in rows)
        return rows

    def __iter__(self):
        return self

    def __next__(self):
        row = super().__next__()
        self._entry['rows'].append(enc(row))
        return row


class RecConnection(sqlite3.Connection):
    """Connection whose cursors are RecCursors"""

    def __init__(self, *args, **kwargs):
        super().__init__(*args, **kwargs)
        self.log = []

    def cursor(self, factory=RecCursor):
        return super().cursor(factory)


def open_copy(db_path, tag):
    """Open a private copy of a database file with a RecConnection"""
    private = os.path.join(WORK, 'tmp_%d_%s.db' % (os.getpid(), tag))
    if os.path.exists(private):
        os.remove(private)
    shutil.copyfile(db_path, private)
    return sqlite3.connect(private, factory=RecConnection), private


def flat_values(log):
    """All fetched values of a log, in order, rows and statements merged"""
    values = []
    for entry in log:
        for row in entry['rows']:
            if row[0] == 'NoneType':
                values.append(row)
            else:
                values.extend(row[1])
    return values


def scan_signature(plan, aliases):
    """Sequence of (SCAN|SEARCH, table, access path) of a query plan

    aliases maps alias / CTE names to the underlying table / view name so
    that plans of respelled statements can be compared.

    """
    sig = []
    for detail in plan:
        match = re.match(r'^(SCAN|SEARCH) (\S+)(.*)$', detail)
        if match:
            name = match.group(2)
            sig.append(
                (match.group(1), aliases.get(name, name), match.group(3))
            )
        elif detail.startswith('USE TEMP B-TREE'):
            sig.append(('TEMP', detail, ''))
    return sig


# ---------------------------------------------------------------------
# Databases
# ---------------------------------------------------------------------
def sample_db(sample):
    """Path to a fully processed sample database (built once, by HEAD)

    load, classify, zeta grid (1 mm), rise offsets, recession offsets; no
    curvature.

    """
    path = os.path.join(WORK, 'sample%d.db' % sample)
    if not os.path.exists(path):
        orig = os.path.join(WORK, 'orig')
        if not os.path.exists(orig):
            make_copy('orig')
        env = dict(os.environ)
        env['PYTHONPATH'] = orig
        subprocess.run(
            [PYTHON, '-c', _BUILD_SAMPLE, str(sample), path],
            check=True,
            env=env,
        )
    return path


_BUILD_SAMPLE = r'''
import sys, sqlite3
import spowtd.load as load_mod, spowtd.classify as classify_mod
import spowtd.zeta_grid as zeta_grid_mod
import spowtd.rise as rise_mod, spowtd.recession as recession_mod
from spowtd.test import conftest
sample = int(sys.argv[1])
conn = sqlite3.connect(sys.argv[2])
def op(kind):
    return open(conftest.get_sample_file_path(kind, sample), 'rt',
                encoding='utf-8-sig')
with op('precipitation') as p, op('evapotranspiration') as e, \
     op('water_level') as z:
    load_mod.load_data(connection=conn, precipitation_data_file=p,
                       evapotranspiration_data_file=e,
                       water_level_data_file=z,
                       time_zone_name='Africa/Lagos')
classify_mod.classify_intervals(conn, storm_rain_threshold_mm_h=8.0,
                                rising_jump_threshold_mm_h=5.0)
zeta_grid_mod.populate_zeta_grid(conn, grid_interval_mm=1.0)
rise_mod.find_rise_offsets(conn)
recession_mod.find_recession_offsets(conn)
conn.commit()
conn.close()
'''


def private_dir():
    """Directory for the databases of this worker process"""
    path = os.path.join(WORK, 'w_%d' % os.getpid())
    os.makedirs(path, exist_ok=True)
    return path


def schema_db(path):
    """Create an empty database with the schema of the imported package"""
    import spowtd.load as load_mod

    if os.path.exists(path):
        os.remove(path)
    connection = sqlite3.connect(path)
    with open(load_mod.SCHEMA_PATH, 'rt') as schema_file:
        connection.executescript(schema_file.read())
    connection.execute('PRAGMA foreign_keys = 0')
    return connection


def synthetic_db(
    path,
    seed,
    grid=2.5,
    n_rise=7,
    n_recession=6,
    zeta_range=(-60, 21),
    curvature=1.75,
    et_scale=1.0,
    with_et=True,
    wide=True,
    missing_levels=(),
    null_tolerant=False,
):
    """Synthetic database with shuffled insertion order

    Offsets span many orders of magnitude (wide=True) so that any change in
    the order in which AVG accumulates rows changes the low bits; zeta
    intervals overlap so that evapotranspiration rows are counted more
    than once; 'storm' zeta intervals are present and must be excluded;
    some crossing times are stored as integers, some as reals.

    """
    rng = random.Random(seed)
    connection = schema_db(path)
    cur = connection.cursor()
    step = 3600
    n_epochs = 400
    epochs = [1000000 + i * step for i in range(n_epochs)]
    cur.execute(
        "INSERT INTO time_grid (time_step_s, source_time_zone)"
        " VALUES (?, 'UTC')",
        (step,),
    )
    cur.executemany(
        'INSERT INTO grid_time (epoch, data_interval) VALUES (?, 0)',
        [(e,) for e in epochs],
    )
    cur.executemany(
        'INSERT INTO water_level (epoch, zeta_mm) VALUES (?, ?)',
        [(e, rng.uniform(-200, 50)) for e in epochs],
    )
    if grid is not None:
        cur.execute(
            'INSERT INTO zeta_grid (grid_interval_mm) VALUES (?)', (grid,)
        )
    levels = [
        z for z in range(zeta_range[0], zeta_range[1]) if z not in
        missing_levels
    ]
    shuffled = levels[:]
    rng.shuffle(shuffled)
    cur.executemany(
        'INSERT INTO discrete_zeta (zeta_number) VALUES (?)',
        [(z,) for z in shuffled],
    )

    def magnitude():
        if wide:
            return rng.choice([1e-6, 1e-3, 1.0, 1e3, 1e7, 1e11])
        return 1.0

    # Zeta intervals: alternate, overlapping
    n_intervals = 2 * max(n_rise, n_recession) + 2
    starts = sorted(rng.sample(range(0, n_epochs - 60), n_intervals))
    intervals = []
    for i, s in enumerate(starts):
        kind = 'storm' if i % 2 == 0 else 'interstorm'
        thru = s + rng.randint(5, 55)
        intervals.append((epochs[s], kind, epochs[thru]))
    order = intervals[:]
    rng.shuffle(order)
    cur.executemany(
        'INSERT INTO zeta_interval (start_epoch, interval_type, thru_epoch)'
        ' VALUES (?, ?, ?)',
        order,
    )
    storms = [iv for iv in intervals if iv[1] == 'storm'][:n_rise]
    interstorms = [iv for iv in intervals if iv[1] == 'interstorm'][
        :n_recession
    ]
    rising = [(iv[0], rng.uniform(-1, 1) * magnitude()) for iv in storms]
    rng.shuffle(rising)
    cur.executemany(
        'INSERT INTO rising_interval (start_epoch, rain_depth_offset_mm)'
        ' VALUES (?, ?)',
        rising,
    )
    recession = [
        (iv[0], rng.uniform(-1, 1) * magnitude() * 86400)
        for iv in interstorms
    ]
    rng.shuffle(recession)
    cur.executemany(
        'INSERT INTO recession_interval (start_epoch, time_offset_s)'
        ' VALUES (?, ?)',
        recession,
    )
    all_levels = list(range(zeta_range[0], zeta_range[1]))
    rows = []
    for (start, _) in rising:
        lo = rng.randrange(max(len(all_levels) - 1, 1))
        hi = rng.randrange(lo + 1, len(all_levels) + 1)
        for z in all_levels[lo:hi]:
            rows.append((start, z, rng.uniform(0, 300) * magnitude()))
    rng.shuffle(rows)
    cur.executemany(
        'INSERT INTO rising_interval_zeta'
        ' (start_epoch, zeta_number, mean_crossing_depth_mm)'
        ' VALUES (?, ?, ?)',
        rows,
    )
    rows = []
    for (start, _) in recession:
        lo = rng.randrange(max(len(all_levels) - 1, 1))
        hi = rng.randrange(lo + 1, len(all_levels) + 1)
        for z in all_levels[lo:hi]:
            if rng.random() < 0.3:
                value = rng.randrange(0, 10 ** 6)
            else:
                value = rng.uniform(0, 30 * 86400) * magnitude()
            rows.append((start, z, value))
    rng.shuffle(rows)
    cur.executemany(
        'INSERT INTO recession_interval_zeta'
        ' (start_epoch, zeta_number, mean_crossing_time)'
        ' VALUES (?, ?, ?)',
        rows,
    )
    if with_et:
        et = [
            (
                epochs[i],
                epochs[i + 1],
                et_scale * rng.uniform(0, 0.4) * magnitude(),
            )
            for i in range(n_epochs - 1)
        ]
        rng.shuffle(et)
        cur.executemany(
            'INSERT INTO evapotranspiration'
            ' (from_epoch, thru_epoch, evapotranspiration_mm_h)'
            ' VALUES (?, ?, ?)',
            et,
        )
    if curvature is not None:
        cur.execute(
            'INSERT INTO curvature (curvature_m_km2) VALUES (?)',
            (curvature,),
        )
    cur.close()
    connection.commit()
    connection.close()
    return path


def parameter_text(kind):
    """Text of a sample parameter file"""
    from spowtd.test import conftest

    with open(conftest.get_parameter_file_path(kind), 'rt') as f:
        return f.read()


def compare(orig, new, what='results'):
    """Assert two nested structures are equal, with a useful message"""
    if orig == new:
        return
    if isinstance(orig, dict) and isinstance(new, dict):
        assert sorted(orig) == sorted(new), (what, sorted(orig), sorted(new))
        for key in orig:
            compare(orig[key], new[key], '%s[%r]' % (what, key))
    if (
        isinstance(orig, (list, tuple))
        and isinstance(new, (list, tuple))
        and len(orig) == len(new)
    ):
        for i, (a, b) in enumerate(zip(orig, new)):
            compare(a, b, '%s[%d]' % (what, i))
    raise AssertionError('%s differ:\n%r\n%r' % (what, orig, new))


def main(script, k, worker, check):
    """Entry point shared by the diff checks"""
    if len(sys.argv) > 1 and sys.argv[1] == '--worker':
        check_worker_package(sys.argv[2])
        result = worker()
        with open(sys.argv[3], 'wb') as f:
            pickle.dump(result, f)
        shutil.rmtree(private_dir(), ignore_errors=True)
        return
    # Make sure the shared sample databases exist before the workers run
    sample_db(1)
    sample_db(2)
    (orig, new) = run_both(script, k)
    check(orig, new)
    print('diff_check_%d: OK' % k)


# ---------------------------------------------------------------------
# Shared scenario list for the pestfiles checks (3 and 4)
# ---------------------------------------------------------------------
NULLABLE_CROSSINGS = [
    # Same tables without NOT NULL / PRIMARY KEY, so that NULL levels and
    # duplicate (interval, level) pairs can be stored; the views resolve
    # the names when they are used
    "DROP TABLE rising_interval_zeta",
    "CREATE TABLE rising_interval_zeta (start_epoch integer, "
    "zeta_number integer, mean_crossing_depth_mm double precision)",
    "DROP TABLE recession_interval_zeta",
    "CREATE TABLE recession_interval_zeta (start_epoch integer, "
    "zeta_number integer, mean_crossing_time interval)",
    "INSERT INTO rising_interval_zeta "
    "SELECT start_epoch, NULL, 1.5 FROM rising_interval",
    "INSERT INTO rising_interval_zeta "
    "SELECT start_epoch, 3, 0.1 * start_epoch FROM rising_interval",
    "INSERT INTO rising_interval_zeta "
    "SELECT start_epoch, 3, 0.3 FROM rising_interval",
    "INSERT INTO rising_interval_zeta "
    "SELECT start_epoch, -2, 7.25 FROM rising_interval LIMIT 2",
    "INSERT INTO rising_interval_zeta VALUES (NULL, NULL, NULL)",
    "INSERT INTO rising_interval_zeta VALUES (NULL, 5, 2.0)",
    "INSERT INTO rising_interval_zeta VALUES (12345, 6, 2.0)",
    "INSERT INTO recession_interval_zeta "
    "SELECT start_epoch, NULL, 100 FROM recession_interval",
    "INSERT INTO recession_interval_zeta "
    "SELECT start_epoch, 4, 0.7 * start_epoch FROM recession_interval",
    "INSERT INTO recession_interval_zeta "
    "SELECT start_epoch, 4, 11 FROM recession_interval",
    "INSERT INTO recession_interval_zeta "
    "SELECT start_epoch, 0, 86400 FROM recession_interval LIMIT 3",
    "INSERT INTO recession_interval_zeta VALUES (NULL, NULL, NULL)",
    "INSERT INTO recession_interval_zeta VALUES (NULL, 9, 1)",
]


def pest_databases(prefix):
    """(name, path, statements to run first) for the pestfiles checks"""
    work = private_dir()
    dbs = [
        ('sample1', sample_db(1), []),
        ('sample2', sample_db(2), []),
    ]
    specs = {
        'synth_a': (dict(seed=61), []),
        'synth_b': (dict(seed=62, n_rise=12, n_recession=11, grid=1.0), []),
        'synth_c': (dict(seed=63, wide=False, grid=0.5), []),
        'grid_zero': (dict(seed=64, grid=0.0), []),
        'grid_negative': (dict(seed=65, grid=-2.5), []),
        'grid_inf': (dict(seed=66, grid=9e999), []),
        'grid_text': (dict(seed=67, grid='abc'), []),
        # Levels counted by the count queries but absent from the views
        'missing_levels': (
            dict(seed=68, missing_levels=(-3, 0, 7, 8)),
            [],
        ),
        'single_interval': (dict(seed=69, n_rise=1, n_recession=1), []),
        'no_grid': (dict(seed=70, grid=None), []),
        'no_rise': (dict(seed=71, n_rise=0), []),
        'no_recession': (dict(seed=72, n_recession=0), []),
        'nullable': (dict(seed=73), NULLABLE_CROSSINGS),
        'only_nulls': (
            dict(seed=74),
            NULLABLE_CROSSINGS
            + [
                "DELETE FROM rising_interval_zeta "
                "WHERE zeta_number IS NOT NULL",
                "DELETE FROM recession_interval_zeta "
                "WHERE zeta_number IS NOT NULL",
            ],
        ),
        # Infinite offsets: AVG over +Inf and -Inf is NaN, stored as NULL
        'nan_means': (
            dict(seed=75),
            [
                "UPDATE rising_interval SET rain_depth_offset_mm = "
                "CASE WHEN start_epoch = (SELECT min(start_epoch) FROM "
                "rising_interval) THEN 9e999 ELSE -9e999 END",
                "UPDATE recession_interval SET time_offset_s = "
                "CASE WHEN start_epoch = (SELECT min(start_epoch) FROM "
                "recession_interval) THEN 9e999 ELSE -9e999 END",
            ],
        ),
        'no_recession_table': (
            dict(seed=76),
            ["DROP TABLE recession_interval_zeta"],
        ),
        'no_rise_table': (dict(seed=77), ["DROP TABLE rising_interval_zeta"]),
    }
    for name, (spec, post) in specs.items():
        path = os.path.join(work, '%s_%s.db' % (prefix, name))
        synthetic_db(path, **spec)
        dbs.append((name, path, post))
    path = os.path.join(work, '%s_one_level.db' % prefix)
    synthetic_db(path, seed=78, zeta_range=(4, 5))
    dbs.append(('one_level', path, []))
    path = os.path.join(work, '%s_empty.db' % prefix)
    schema_db(path).close()
    dbs.append(('empty', path, []))
    return dbs


def pest_worker(prefix, outfile_type):
    """Run both pestfiles generators of one file type on every database"""
    import spowtd.pestfiles as pestfiles_mod

    results = {}
    for name, path, post in pest_databases(prefix):
        for kind in ('peatclsm', 'spline'):
            for target in ('rise', 'curves'):
                for precision in (0, 7):  # 0: default
                    connection, private = open_copy(path, prefix)
                    for statement in post:
                        sqlite3.Cursor(connection).execute(statement)
                    connection.commit()
                    outfile = io.StringIO()
                    generate = {
                        'rise': pestfiles_mod.generate_rise_pestfiles,
                        'curves': pestfiles_mod.generate_curves_pestfiles,
                    }[target]
                    kwargs = {} if precision == 0 else {
                        'precision': precision
                    }
                    outcome = call(
                        generate,
                        connection,
                        io.StringIO(parameter_text(kind)),
                        outfile_type,
                        None,
                        outfile,
                        **kwargs
                    )
                    log = connection.log
                    results[(name, kind, target, precision)] = {
                        'outcome': outcome,
                        'text': outfile.getvalue(),
                        'values': flat_values(log),
                        'plans': [e['plan'] for e in log],
                        'sql': [e['sql'] for e in log],
                        'errors': [e['error'] for e in log],
                        'in_transaction': connection.in_transaction,
                        'dump': dump(connection),
                    }
                    connection.close()
                    os.remove(private)
    return results
