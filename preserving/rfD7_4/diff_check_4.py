"""Differential check for refactor4.diff

pestfiles.generate_rise_ins_file / generate_curves_ins_file: the count
queries (two statements merged into one in the curves variant).

Run: cd /tmp/rf_D && /venv/bin/python diff_check_4.py

"""

import os
import sys

sys.path.insert(0, '/tmp/rf_D')
import dc_common as dc  # noqa: E402


def worker():
    return dc.pest_worker('c4', 'ins')


def check(orig, new):
    assert sorted(orig) == sorted(new)
    tally = {}
    for key in sorted(orig):
        (o, n) = (orig[key], new[key])
        for field in ('outcome', 'text', 'in_transaction', 'dump'):
            dc.compare(o[field], n[field], '%r %s' % (key, field))
        assert o['sql'] != n['sql'], 'refactored SQL was not exercised'
        if o['outcome'][0] == 'ok':
            # Same counts in the same order, whether fetched by one
            # statement or two
            dc.compare(o['values'], n['values'], '%r values' % (key,))
            if key[2] == 'curves':
                assert len(o['sql']) == 2 and len(n['sql']) == 1
                assert len(o['values']) == 2
            else:
                assert len(o['sql']) == len(n['sql']) == 1
        else:
            # A missing table fails the (first failing) statement with
            # the same error; the merged statement fetches nothing
            o_err = [e for e in o['errors'] if e is not None]
            n_err = [e for e in n['errors'] if e is not None]
            dc.compare(o_err, n_err, '%r errors' % (key,))
            assert len(o_err) == 1
        tag = (key[2], o['outcome'][0],
               o['outcome'][1] if o['outcome'][0] == 'exc' else '')
        tally[tag] = tally.get(tag, 0) + 1
    for key in sorted(orig):
        if key[1] == 'spline' and key[3] == 0:
            o = orig[key]
            print(key[0], key[2], o['outcome'][:2],
                  'counts=%s' % [v[1] for v in o['values']],
                  'text=%d bytes' % len(o['text']))
    for tag in sorted(tally):
        print(tag, tally[tag])
    assert tally[('rise', 'ok', '')] >= 60, tally
    assert tally[('curves', 'ok', '')] >= 60, tally
    assert sum(v for (k, v) in tally.items() if k[1] == 'exc') >= 8, tally


if __name__ == '__main__':
    dc.main(os.path.abspath(__file__), 4, worker, check)
