"""Differential check for refactor1.diff (disambiguate_matching)

Loads spowtd/classify.py twice, once from git HEAD and once from HEAD with
refactor1.diff applied (in a temporary directory), and compares

 - the arguments handed to find_stable_matching (key order, list order,
   value types) and the result of disambiguate_matching on random
   many-to-many candidate lists (ties in duration, duplicated pairs, numpy
   and Python integers, empty input);
 - match_storms on the two sample data sets and on random rain / head
   series.

Run as:  cd /tmp/rf_A && PYTHONPATH=/tmp/rf_A /venv/bin/python diff_check_1.py
"""

import copy
import importlib.util
import os
import random
import shutil
import sqlite3
import subprocess
import sys
import tempfile

import numpy as np

HERE = os.path.dirname(os.path.abspath(__file__))
K = 1


def load_variants():
    """Return (original module, refactored module)"""
    tmp = tempfile.mkdtemp(prefix="diffcheck_", dir=HERE)
    try:
        source = subprocess.check_output(
            ["git", "-C", HERE, "show", "HEAD:spowtd/classify.py"]
        )
        modules = []
        for name in ("orig", "new"):
            os.makedirs(os.path.join(tmp, name, "spowtd"))
            path = os.path.join(tmp, name, "spowtd", "classify.py")
            with open(path, "wb") as f:
                f.write(source)
            if name == "new":
                with open(os.path.join(HERE, f"refactor{K}.diff"), "rb") as patch:
                    subprocess.check_call(
                        ["patch", "-s", "-p1", "-d", os.path.join(tmp, name)],
                        stdin=patch,
                    )
                with open(path, "rb") as f:
                    assert f.read() != source, "patch changed nothing"
            spec = importlib.util.spec_from_file_location(f"classify_{name}", path)
            module = importlib.util.module_from_spec(spec)
            spec.loader.exec_module(module)
            modules.append(module)
        return tuple(modules)
    finally:
        shutil.rmtree(tmp)


def describe(obj):
    """Exact, type-revealing description of a nested result"""
    if isinstance(obj, dict):
        return ("dict", [(describe(k), describe(v)) for k, v in obj.items()])
    if isinstance(obj, (list, tuple)):
        return (type(obj).__name__, [describe(v) for v in obj])
    if isinstance(obj, np.ndarray):
        return ("ndarray", str(obj.dtype), obj.shape, obj.tobytes())
    return (type(obj).__name__, repr(obj))


def outcome(function, *args):
    """Result or exception of a call"""
    try:
        return ("ok", describe(function(*args)))
    except Exception as exc:  # pylint: disable=broad-except
        return ("raised", type(exc).__name__, str(exc))


def run_disambiguate(module, rain_intervals, jump_intervals):
    """disambiguate_matching, recording what find_stable_matching receives"""
    seen = []
    inner = module.find_stable_matching

    def spy(storm_candidates, jump_preferences):
        seen.append(
            (describe(storm_candidates), describe(jump_preferences))
        )
        return inner(storm_candidates, jump_preferences)

    module.find_stable_matching = spy
    try:
        result = outcome(
            module.disambiguate_matching,
            copy.deepcopy(rain_intervals),
            copy.deepcopy(jump_intervals),
        )
    finally:
        module.find_stable_matching = inner
    return (seen, result)


def random_candidates(rng, as_numpy):
    """Random many-to-many relation between storms and jumps"""
    n_storms = rng.randint(1, 12)
    n_jumps = rng.randint(1, 12)
    scale = rng.choice([1, 1, 3, 8])  # 8: hash collisions in small sets
    storms = {}
    start = rng.randint(0, 5)
    for _ in range(n_storms):
        start += rng.randint(1, 4) * scale
        storms[start] = start + rng.randint(1, 4)
    jumps = {}
    start = rng.randint(0, 5)
    for _ in range(n_jumps):
        start += rng.randint(1, 4) * scale
        jumps[start] = start + rng.randint(2, 5)
    pairs = [
        (s, j)
        for s in storms
        for j in jumps
        if rng.random() < rng.choice([0.15, 0.4, 0.9])
    ]
    rng.shuffle(pairs)
    if pairs and rng.random() < 0.3:
        pairs.append(rng.choice(pairs))  # duplicated pair
    conv = np.int64 if as_numpy else int
    rain_intervals = [(conv(s), conv(storms[s])) for s, _ in pairs]
    jump_intervals = [(conv(j), conv(jumps[j])) for _, j in pairs]
    return rain_intervals, jump_intervals


def sample_series(sample):
    """(rain, head, time step in h) for each data interval of a sample"""
    import spowtd.load as load_mod  # unchanged by the patch

    data_dir = os.path.join(HERE, "spowtd", "test", "sample_data")
    connection = sqlite3.connect(":memory:")
    with open(
        os.path.join(data_dir, f"precipitation_{sample}.txt"),
        "rt",
        encoding="utf-8-sig",
    ) as precip_f, open(
        os.path.join(data_dir, f"evapotranspiration_{sample}.txt"),
        "rt",
        encoding="utf-8-sig",
    ) as et_f, open(
        os.path.join(data_dir, f"water_level_{sample}.txt"),
        "rt",
        encoding="utf-8-sig",
    ) as zeta_f:
        load_mod.load_data(
            connection=connection,
            precipitation_data_file=precip_f,
            evapotranspiration_data_file=et_f,
            water_level_data_file=zeta_f,
            time_zone_name="Africa/Lagos",
        )
    cursor = connection.cursor()
    (time_step_h,) = cursor.execute(
        "SELECT CAST(time_step_s AS double precision) / 3600. FROM time_grid"
    ).fetchone()
    labels = [
        row[0]
        for row in cursor.execute(
            "SELECT DISTINCT data_interval FROM grid_time "
            "WHERE data_interval IS NOT NULL ORDER BY 1"
        ).fetchall()
    ]
    for label in labels:
        rows = cursor.execute(
            """
            SELECT zeta_mm, rainfall_intensity_mm_h
            FROM grid_time
            JOIN rainfall_intensity
              ON rainfall_intensity.from_epoch = grid_time.epoch
              AND grid_time.data_interval = ?
            JOIN water_level
              ON rainfall_intensity.from_epoch = water_level.epoch
            ORDER BY from_epoch""",
            (label,),
        ).fetchall()
        head, rain = (np.array(v) for v in zip(*rows))
        yield rain, head, time_step_h
    connection.close()


def random_series(rng):
    """Random rain and head series with overlapping storms and rises"""
    n = rng.randint(2, 120)
    rain = np.zeros(n)
    head = np.zeros(n)
    level = 0.0
    raining = False
    rising = False
    for i in range(n):
        if rng.random() < 0.25:
            raining = not raining
        if rng.random() < 0.3:
            rising = not rising
        rain[i] = rng.choice([5.0, 9.0, 20.0]) if raining else rng.choice([0.0, 1.0])
        level += rng.choice([2.0, 3.0, 7.0]) if rising else rng.choice([-0.5, 0.0, 0.5])
        head[i] = level
    return rain, head


def main():
    orig, new = load_variants()
    rng = random.Random(20260927)
    n_cases = 0

    # Hand-written cases
    hand = [
        ([], []),
        ([(0, 2)], [(0, 3)]),
        # one storm, two rises with the same duration difference
        ([(0, 4), (0, 4)], [(1, 3), (6, 8)]),
        # two storms, one rise, same distance in start time
        ([(2, 4), (6, 8)], [(4, 8), (4, 8)]),
        # storms colliding in a small hash table
        ([(8, 9), (0, 1), (16, 18), (8, 9)], [(3, 6), (3, 6), (3, 6), (9, 12)]),
        # unequal lengths -> AssertionError
        ([(0, 2)], []),
        # malformed interval -> ValueError
        ([(0, 2, 3)], [(0, 3)]),
        ([(0, 2)], [(0,)]),
    ]
    for rain_intervals, jump_intervals in hand:
        a = run_disambiguate(orig, rain_intervals, jump_intervals)
        b = run_disambiguate(new, rain_intervals, jump_intervals)
        assert a == b, (rain_intervals, jump_intervals, a, b)
        n_cases += 1

    for _ in range(4000):
        rain_intervals, jump_intervals = random_candidates(
            rng, as_numpy=rng.random() < 0.5
        )
        a = run_disambiguate(orig, rain_intervals, jump_intervals)
        b = run_disambiguate(new, rain_intervals, jump_intervals)
        assert a == b, (rain_intervals, jump_intervals, a, b)
        assert a[1][0] == "ok"
        n_cases += 1

    # match_storms end to end
    for sample in (1, 2):
        for rain, head, time_step_h in sample_series(sample):
            for rain_threshold, jump_threshold_mm_h in [
                (8.0, 5.0),
                (4.0, 8.0),
                (1.0, 1.0),
                (0.0, 0.5),
            ]:
                args = (rain, head, rain_threshold, jump_threshold_mm_h * time_step_h)
                a = outcome(orig.match_storms, *args)
                b = outcome(new.match_storms, *args)
                assert a == b, (sample, rain_threshold, jump_threshold_mm_h)
                assert a[0] == "ok"
                n_cases += 1
    for _ in range(1500):
        rain, head = random_series(rng)
        args = (rain, head, rng.choice([4.0, 8.0]), rng.choice([1.0, 2.5, 5.0]))
        a = outcome(orig.match_storms, *args)
        b = outcome(new.match_storms, *args)
        assert a == b, (rain, head, a, b)
        n_cases += 1

    print(f"diff_check_{K}: OK ({n_cases} cases identical)")


if __name__ == "__main__":
    sys.exit(main())
