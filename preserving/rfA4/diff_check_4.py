"""Differential check for refactor4.diff (disambiguate_matching, find_stable_matching)"""
import copy

import numpy as np

from diff_common import (
    call, check_classify, freeze, load_variants, loaded_sample_db, same,
    synthetic_series,
)

orig, new = load_variants(4)
rng = np.random.default_rng(4)


# 1. find_stable_matching on random preference structures; the candidate lists
#    are consumed in place, so compare them afterwards as well
def run_fsm(module, storm_candidates, jump_preferences):
    sc = copy.deepcopy(storm_candidates)
    jp = copy.deepcopy(jump_preferences)
    outcome = freeze(call(module.find_stable_matching, sc, jp))
    return (outcome, freeze(sc), freeze(jp))


n_ok = n_exc = n_contested = 0
for trial in range(6000):
    n_storms = int(rng.integers(0, 9))
    n_jumps = int(rng.integers(1, 9))
    as_numpy = trial % 2 == 0
    storms = rng.choice(200, n_storms, replace=False)
    jumps = rng.choice(200, n_jumps, replace=False)
    if not as_numpy:
        storms = [int(x) for x in storms]
        jumps = [int(x) for x in jumps]
    storm_candidates = {}
    jump_preferences = {j: {} for j in jumps}
    for s in storms:
        k = int(rng.integers(0, n_jumps + 1))
        cands = list(rng.permutation(np.array(jumps))[:k])
        if not as_numpy:
            cands = [int(x) for x in cands]
        if trial % 7 == 0 and cands:
            cands.append(cands[0])  # duplicate candidate
        storm_candidates[s] = cands
        for j in cands:
            # ties are possible
            jump_preferences[j][s] = -int(rng.integers(0, 4))
    if trial % 11 == 0 and storm_candidates:
        # missing preference -> KeyError on contest
        for j in jump_preferences:
            if len(jump_preferences[j]) > 1:
                jump_preferences[j].pop(next(iter(jump_preferences[j])))
                break
    a = run_fsm(orig, storm_candidates, jump_preferences)
    b = run_fsm(new, storm_candidates, jump_preferences)
    same("find_stable_matching {}".format(trial), a, b)
    if a[0][1][0][1] == "ok":
        n_ok += 1
        if sum(len(c) for c in storm_candidates.values()) > len(a[0][1][1][1]):
            n_contested += 1
    else:
        n_exc += 1
print("find_stable_matching: {} ok ({} with rejected proposals) / {} raising, "
      "identical".format(n_ok, n_contested, n_exc))


# 2. disambiguate_matching on random many-to-many interval relations
def run_dm(module, rain_intervals, jump_intervals):
    r = copy.deepcopy(rain_intervals)
    j = copy.deepcopy(jump_intervals)
    outcome = freeze(call(module.disambiguate_matching, r, j))
    return (outcome, freeze(r), freeze(j))


n_ok = n_exc = n_reduced = 0
for trial in range(6000):
    n_storms = int(rng.integers(1, 7))
    n_jumps = int(rng.integers(1, 7))
    conv = np.int64 if trial % 2 == 0 else int
    starts = np.sort(rng.choice(300, n_storms, replace=False))
    storms = [(conv(s), conv(s + rng.integers(1, 20))) for s in starts]
    starts = np.sort(rng.choice(300, n_jumps, replace=False))
    jumps = [(conv(s), conv(s + rng.integers(2, 20))) for s in starts]
    n_pairs = int(rng.integers(0, 12))
    rain_intervals = []
    jump_intervals = []
    for _ in range(n_pairs):
        rain_intervals.append(storms[int(rng.integers(n_storms))])
        jump_intervals.append(jumps[int(rng.integers(n_jumps))])
    if trial % 13 == 0:
        jump_intervals = jump_intervals[:-1] + [] if jump_intervals else [(1, 3)]
    if trial % 17 == 0 and rain_intervals:
        rain_intervals[0] = rain_intervals[0] + (5,)  # malformed interval
    a = run_dm(orig, rain_intervals, jump_intervals)
    b = run_dm(new, rain_intervals, jump_intervals)
    same("disambiguate_matching {}".format(trial), a, b)
    if a[0][1][0][1] == "ok":
        n_ok += 1
        if len(a[0][1][1][1][0][1]) < len(set(zip(rain_intervals, jump_intervals))):
            n_reduced += 1
    else:
        n_exc += 1
print("disambiguate_matching: {} ok ({} with pairs dropped) / {} raising, "
      "identical".format(n_ok, n_reduced, n_exc))

# 3. match_storms on sample data and synthetic series with many-to-many overlaps
n_calls = 0
for sample in (1, 2):
    conn = loaded_sample_db(sample)
    rows = conn.execute(
        """SELECT zeta_mm, rainfall_intensity_mm_h, data_interval
           FROM grid_time JOIN rainfall_intensity ON from_epoch = grid_time.epoch
           JOIN water_level ON from_epoch = water_level.epoch
           WHERE data_interval IS NOT NULL ORDER BY from_epoch""").fetchall()
    for interval in sorted({r[2] for r in rows}):
        head = np.array([r[0] for r in rows if r[2] == interval])
        rain = np.array([r[1] for r in rows if r[2] == interval])
        for thr in ((8.0, 2.5), (4.0, 4.0), (0.0, 0.0), (1.0, 0.5), (0.1, 0.1)):
            a = freeze(call(orig.match_storms, rain, head, *thr))
            b = freeze(call(new.match_storms, rain, head, *thr))
            same("match_storms sample {}/{}".format(sample, interval), a, b)
            n_calls += 1
for trial in range(1000):
    n = int(rng.integers(2, 200))
    if trial % 2:
        rain, head = synthetic_series(rng, n, p_rain=0.4, p_jump=0.6)
    else:
        rain = np.where(rng.random(n) < 0.6, 10.0, 0.0)
        head = np.cumsum(np.where(rng.random(n) < 0.7, 10.0, -1.0))
    a = freeze(call(orig.match_storms, rain, head, 4.0, 4.0))
    b = freeze(call(new.match_storms, rain, head, 4.0, 4.0))
    same("match_storms synthetic {}".format(trial), a, b)
    n_calls += 1
print("match_storms: {} calls identical".format(n_calls))

check_classify(orig, new)
print("diff_check_4 OK")
