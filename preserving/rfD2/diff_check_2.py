"""Differential check for refactor2.diff (spowtd/specific_yield.py)"""

import diff_common

PROBE = r'''
import io
import os
import warnings
import yaml
import spowtd.specific_yield as sy_mod
import spowtd.plot_specific_yield as sy_plot_mod
import spowtd.test.conftest as conftest


def load_params(name):
    with open(os.path.join(conftest.SAMPLE_DATA_DIR,
                           name + '_parameters.yml')) as f:
        return yaml.safe_load(f)['specific_yield']


def build(params):
    sy = sy_mod.create_specific_yield_function(dict(params))
    grid = np.linspace(-1500, 1500, 301)
    return {
        'zeta': np.asarray(sy.zeta_knots_mm, dtype='float64'),
        'sy': np.asarray(sy.sy_knots, dtype='float64'),
        'values': sy(grid),
        'integrals': [sy.integrate(a, b) for a, b in
                      [(-1200., 300.), (-50., 40.), (40., -50.), (0., 0.),
                       (900., 1100.), (-2000., -1100.)]],
    }


def probe():
    warnings.simplefilter('ignore')
    out = {}
    # Sample parameter files, through the factory
    for name in ('peatclsm', 'spline'):
        out['sample_' + name] = attempt(build, load_params(name))
    # CLI dump step that reaches the class
    for name in ('peatclsm', 'spline'):
        buf = io.StringIO()
        with open(os.path.join(conftest.SAMPLE_DATA_DIR,
                               name + '_parameters.yml')) as f:
            out['dump_exc_' + name] = attempt(
                sy_plot_mod.dump_specific_yield, parameters=f,
                water_level_min_cm=-80, water_level_max_cm=20,
                n_points=57, outfile=buf)
        out['dump_' + name] = buf.getvalue()
    # Synthetic PEATCLSM parameters, including degenerate ones
    rng = np.random.default_rng(7)
    base = load_params('peatclsm')
    variants = [
        dict(sd=0.05, theta_s=0.5, b=2.0, psi_s=-0.3),
        dict(sd=0.5, theta_s=0.95, b=12.0, psi_s=-0.001),
        dict(sd=0.162, theta_s=0.88, b=7.4, psi_s=0.024),   # positive psi_s
        dict(sd=0.162, theta_s=0.88, b=-3.0, psi_s=-0.024),  # negative b
        dict(sd=0.162, theta_s=0.88, b=0, psi_s=-0.024),     # 1 / 0
        dict(sd=0.162, theta_s=0.88, b=0.0, psi_s=-0.024),
        dict(sd=0.162, theta_s=0.88, b=7.4, psi_s=0.0),      # 0 / 0
        dict(sd=0.162, theta_s=0.88, b=7.4, psi_s=0),
        dict(sd=0.162, theta_s=float('nan'), b=7.4, psi_s=-0.024),
        dict(sd=0.162, theta_s=0.88, b=7.4, psi_s=float('nan')),
        dict(sd=0.0, theta_s=0.88, b=7.4, psi_s=-0.024),
        dict(sd=-1.0, theta_s=0.88, b=7.4, psi_s=-0.024),
        dict(sd=0.162, theta_s='x', b=7.4, psi_s=-0.024),
        dict(sd=0.162, theta_s=0.88, b='x', psi_s=-0.024),
        dict(sd=0.162, theta_s=0.88, b=7.4, psi_s=None),
        dict(sd=0.162, theta_s=1, b=3, psi_s=-1),            # ints
    ]
    for _ in range(4):
        variants.append(dict(sd=float(rng.uniform(0.01, 0.4)),
                             theta_s=float(rng.uniform(0.3, 0.99)),
                             b=float(rng.uniform(1, 15)),
                             psi_s=float(-rng.uniform(0.001, 0.5))))
    for k, variant in enumerate(variants):
        params = dict(variant, type='peatclsm')
        out['synthetic_{}'.format(k)] = attempt(build, params)
    # Factory error paths
    out['factory_no_type'] = attempt(
        sy_mod.create_specific_yield_function, {'sd': 1})
    out['factory_bad_type'] = attempt(
        sy_mod.create_specific_yield_function, {'type': 'nope'})
    # get_Sy_soil called directly with odd shapes
    sy = sy_mod.create_specific_yield_function(dict(base))

    def soil(n_out, zl, zu, as_list=False):
        target = np.full((n_out,), np.nan)
        if as_list:
            target = list(target)
        result = attempt(sy.get_Sy_soil, target, zl, zu)
        return [result, target]

    zl = np.linspace(-1, 1, 21)
    zu = np.linspace(-0.9, 1.1, 21)
    out['soil_regular'] = soil(21, zl, zu)
    out['soil_short_out'] = soil(5, zl, zu)          # fewer layers summed
    out['soil_long_out'] = soil(30, zl, zu)          # IndexError
    out['soil_empty_out'] = soil(0, zl, zu)
    out['soil_empty_in'] = soil(3, zl[:0], zu[:0])
    out['soil_broadcast_zu'] = soil(21, zl, zu[:1])  # length-1 zu
    out['soil_broadcast_zl'] = soil(21, zl[:1], zu)
    out['soil_scalar'] = soil(3, 0.5, 0.6)
    out['soil_lists'] = soil(3, [0., 1., 2.], [1., 2., 3.])
    out['soil_list_target'] = soil(21, zl, zu, as_list=True)
    out['soil_short_list_target'] = soil(5, zl, zu, as_list=True)
    out['soil_equal_levels'] = soil(21, zl, zl)      # dz == 0
    out['soil_2d'] = soil(2, zl.reshape(3, 7), zu.reshape(3, 7))
    out['soil_nan'] = soil(21, np.where(zl > 0.5, np.nan, zl), zu)
    # campbell_1d_az directly, both branches, scalars and bad input
    values = [-1.0, -0.5, -0.024, -0.0241, -0.0239, 0.0, 0.01, 0.3,
              float('nan'), float('inf'), np.float64(-0.2), 1, 0]
    k = 0
    for z_ in values[:8]:
        for zlu in values:
            for psi_s in (-0.024, 0.024, 0.0, -1, float('nan')):
                out['campbell_{}'.format(k)] = attempt(
                    sy_mod.campbell_1d_az, 0.3, z_, zlu, 0.88, psi_s, 7.4,
                    0.162)
                k += 1
    for k, args in enumerate([
            ('s', 0.0, -1.0, 0.88, -0.024, 0, 0.1),
            ('s', 0.0, 1.0, 0.88, -0.024, 0, 0.1),
            (0.2, 0.0, -1.0, 'ts', -0.024, 0, 0.1),
            (0.2, 'z', -1.0, 0.88, -0.024, 2, 0.1),
            (0.2, 0.0, -1.0, 0.88, None, 2, 0.1),
            (np.array([0.1, 0.2]), 0.0, -1.0, 0.88, -0.024, 2.0, 0.1),
            (0.2, np.array([0.1, 0.2]), -1.0, 0.88, -0.024, 2.0, 0.1),
            (0.2, 0.0, -1.0, 0.88, -0.024, 2.0, None)]):
        out['campbell_bad_{}'.format(k)] = attempt(
            sy_mod.campbell_1d_az, *args)
    out['campbell_kw'] = attempt(
        sy_mod.campbell_1d_az, Fs=0.1, z_=0.2, zlu=-0.4, theta_s=0.8,
        psi_s=-0.03, b=5.0, sd=0.1)
    return out
'''

if __name__ == '__main__':
    diff_common.compare('refactor2.diff', PROBE)
