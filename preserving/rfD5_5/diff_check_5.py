"""Differential check for refactor5.diff (spowtd/user_interface.py:
main and create_parsers)"""

import sys

sys.path.insert(0, '/tmp/rf_D')
import diff_common  # noqa: E402

WORKER = r'''
import argparse
import contextlib
import gc
import io
import logging
import sqlite3
import types
import spowtd.user_interface as ui


def record(key, func, *args, **kwargs):
    assert key not in RESULTS, key
    RESULTS[key] = attempt(func, *args, **kwargs)


def describe_value(value):
    if isinstance(value, io.IOBase):
        description = ('file', getattr(value, 'name', None), getattr(value, 'mode', None),
                       getattr(value, 'encoding', None))
        if value not in (sys.stdout, sys.stderr, sys.__stdout__, sys.__stderr__):
            value.close()
        return description
    return value


def captured(func, *args, **kwargs):
    """Run func capturing stdout, stderr and SystemExit"""
    out, err = io.StringIO(), io.StringIO()
    outcome = None
    with contextlib.redirect_stdout(out), contextlib.redirect_stderr(err):
        try:
            outcome = ('returned', func(*args, **kwargs))
        except SystemExit as exc:
            outcome = ('exit', exc.code)
        except BaseException as exc:
            outcome = ('raised', exc)
    return (outcome, out.getvalue(), err.getvalue())


# --- 1. structure of the parsers ------------------------------------------
def describe_parser(parser, depth=0):
    actions = []
    children = []
    for action in parser._actions:
        actions.append((
            type(action).__name__, tuple(action.option_strings), action.dest,
            repr(action.nargs), repr(action.const), repr(action.default),
            repr(action.type),
            None if action.choices is None else list(action.choices),
            action.required, action.help, repr(action.metavar),
        ))
        if isinstance(action, argparse._SubParsersAction):
            for name, child in action.choices.items():
                children.append((name, describe_parser(child, depth + 1)))
            actions.append(('choices_actions', [
                (a.dest, a.help, repr(a.metavar)) for a in action._choices_actions]))
    return {
        'prog': parser.prog, 'description': parser.description,
        'usage': parser.format_usage(), 'help': parser.format_help(),
        'defaults': repr(sorted(parser._defaults.items())),
        'actions': actions, 'children': children,
    }


def parser_structure():
    result = ui.create_parsers()
    parser = result[0]
    (subparsers_action,) = [a for a in parser._actions
                            if isinstance(a, argparse._SubParsersAction)]
    return {
        'type': type(result).__name__,
        'len': len(result),
        'element_types': [type(element).__name__ for element in result],
        'identity': [
            result[1] is subparsers_action.choices['plot'],
            result[2] is subparsers_action.choices['simulate'],
            result[3] is subparsers_action.choices['pestfiles'],
        ],
        'fresh_each_call': ui.create_parsers()[0] is not parser,
        'tree': describe_parser(parser),
    }


record('parsers/structure', parser_structure)
record('module/constants', lambda: (ui.LEVELS, ui.get_version()))

# --- 2. parse_args on many command lines -----------------------------------
P = SAMPLE_DIR + '/precipitation_1.txt'
E = SAMPLE_DIR + '/evapotranspiration_1.txt'
Z = SAMPLE_DIR + '/water_level_1.txt'
SPLINE = SAMPLE_DIR + '/spline_parameters.yml'
PEATCLSM = SAMPLE_DIR + '/peatclsm_parameters.yml'
LOG = os.path.join(WORKDIR, 'parse.log')
OUT = os.path.join(WORKDIR, 'parse.out')
COMMAND_LINES = [
    [], ['--version'], ['--help'], ['-h'], ['--bogus'], ['bogus'], ['--version', 'load'],
    ['load'], ['load', '--help'], ['load', 'a.db'],
    ['load', 'a.db', '-p', P, '-e', E, '-z', Z, '--timezone', 'Africa/Lagos'],
    ['load', 'a.db', '--precipitation', P, '--evapotranspiration', E,
     '--water-level', Z, '--timezone', 'UTC', '-vv', '--logfile', LOG],
    ['load', 'a.db', '-p', '/nonexistent/file', '-e', E, '-z', Z, '--timezone', 'UTC'],
    ['classify'], ['classify', '--help'], ['classify', 'a.db'],
    ['classify', 'a.db', '-s', '8', '-j', '5.5'],
    ['classify', 'a.db', '--storm-rain-threshold-mm-h', '4e0',
     '--rising-jump-threshold-mm-h', '8', '-v'],
    ['classify', 'a.db', '-s', 'eight', '-j', '5'],
    ['set-zeta-grid'], ['set-zeta-grid', '-h'], ['set-zeta-grid', 'a.db'],
    ['set-zeta-grid', 'a.db', '-d', '2.5'], ['set-zeta-grid', 'a.db', '--water-level-step-mm', '5', '-vvv'],
    ['recession'], ['recession', '--help'], ['recession', 'a.db'], ['recession', 'a.db', '-r', '-12.5'],
    ['recession', 'a.db', '--reference-zeta-mm=-3'],
    ['rise'], ['rise', '--help'], ['rise', 'a.db'], ['rise', 'a.db', '-r', '4'], ['rise', 'a.db', '-vvvvvv'],
    ['plot'], ['plot', '--help'], ['plot', '-v'], ['plot', '--logfile', LOG], ['plot', 'bogus'],
    ['plot', 'specific-yield'], ['plot', 'specific-yield', '--help'],
    ['plot', 'specific-yield', SPLINE, '-30', '10'],
    ['plot', 'specific-yield', SPLINE, '-30', '10', '-n', '7', '-d', OUT],
    ['plot', 'conductivity', '--help'], ['plot', 'conductivity', SPLINE, '-30', '10'],
    ['plot', 'transmissivity', '--help'],
    ['plot', 'transmissivity', PEATCLSM, '-30', '0', '--n-points', '3', '--dump', OUT],
    ['plot', 'transmissivity', PEATCLSM, 'low', '0'],
    ['plot', 'time-series', '--help'], ['plot', 'time-series'], ['plot', 'time-series', 'a.db'],
    ['plot', 'time-series', 'a.db', '-e', '-f', '-w', '1.5', '--timezone', 'UTC'],
    ['plot', 'time-series', 'a.db', '--plot-evapotranspiration', '--flags', '--highlight-weight', '2'],
    ['plot', 'time-series', 'a.db', '-v'], ['plot', '-v', 'time-series', 'a.db'],
    ['plot', 'recession', '--help'], ['plot', 'recession', 'a.db'], ['plot', 'recession', 'a.db', '-p', SPLINE],
    ['plot', 'rise', '--help'], ['plot', 'rise', 'a.db'], ['plot', 'rise', 'a.db', '--parameters', PEATCLSM],
    ['set-curvature'], ['set-curvature', '--help'], ['set-curvature', 'a.db'],
    ['set-curvature', 'a.db', '1.5'], ['set-curvature', 'a.db', 'x'], ['set-curvature', 'a.db', '1', '-v'],
    ['simulate'], ['simulate', '--help'], ['simulate', '-vv'], ['simulate', 'bogus'],
    ['simulate', 'rise', '--help'], ['simulate', 'rise'], ['simulate', 'rise', 'a.db'],
    ['simulate', 'rise', 'a.db', SPLINE], ['simulate', 'rise', 'a.db', SPLINE, '-o', OUT, '--observations'],
    ['simulate', 'recession', '--help'], ['simulate', 'recession', 'a.db', PEATCLSM],
    ['simulate', 'recession', 'a.db', PEATCLSM, '--output', OUT, '--observations'],
    ['simulate', '-v', 'recession', 'a.db', PEATCLSM],
    ['pestfiles'], ['pestfiles', '--help'], ['pestfiles', '--logfile', LOG], ['pestfiles', 'bogus'],
    ['pestfiles', 'rise', '--help'], ['pestfiles', 'rise', 'a.db', SPLINE],
    ['pestfiles', 'rise', 'a.db', SPLINE, 'tpl'], ['pestfiles', 'rise', 'a.db', SPLINE, 'xyz'],
    ['pestfiles', 'rise', 'a.db', SPLINE, 'pst', '-c', PEATCLSM, '-o', OUT],
    ['pestfiles', 'curves', '--help'], ['pestfiles', 'curves', 'a.db', PEATCLSM, 'ins'],
    ['pestfiles', 'curves', 'a.db', PEATCLSM, 'pst', '--configuration', SPLINE, '--output', OUT],
    ['pestfiles', '-vvv', 'curves', 'a.db', PEATCLSM, 'ins'],
]


def parse(argv):
    namespace = ui.create_parsers()[0].parse_args(argv)
    return sorted((name, describe_value(value)) for name, value in vars(namespace).items())


for i, argv in enumerate(COMMAND_LINES):
    record('parse/{}/{}'.format(i, ' '.join(argv[:3])), captured, parse, argv)
    gc.collect()

# --- 3. main() with every task replaced by a recorder -----------------------
CALLS = []


def recorder(name):
    def recording(*args, **kwargs):
        described = []
        for key, value in list(enumerate(args)) + sorted(kwargs.items()):
            if isinstance(value, sqlite3.Connection):
                value = ('connection', value.execute('PRAGMA database_list').fetchall()[0][2])
            elif isinstance(value, argparse.Namespace):
                value = ('namespace', sorted(
                    (k, describe_value(v)) for k, v in vars(value).items()))
            else:
                value = describe_value(value)
            described.append((key, value))
        CALLS.append((name, described))
    return recording


def main_with_recorders(argv):
    del CALLS[:]
    saved = {}
    targets = [
        (ui, 'plot'), (ui, 'simulate'), (ui, 'pestfiles'), (ui, 'set_curvature'),
        (ui.load_mod, 'load_data'), (ui.classify_mod, 'classify_intervals'),
        (ui.zeta_grid_mod, 'populate_zeta_grid'),
        (ui.recession_mod, 'find_recession_offsets'), (ui.rise_mod, 'find_rise_offsets'),
    ]
    for owner, name in targets:
        saved[(owner, name)] = getattr(owner, name)
        setattr(owner, name, recorder(name))
    try:
        result = captured(ui.main, argv)
    finally:
        for (owner, name), original in saved.items():
            setattr(owner, name, original)
    root = logging.getLogger()
    return (result, list(CALLS), root.level,
            [type(handler).__name__ for handler in root.handlers])


DB = os.path.join(WORKDIR, 'recorded.sqlite3')
for i, argv in enumerate(COMMAND_LINES):
    argv = [DB if arg == 'a.db' else arg for arg in argv]
    record('main_recorded/{}/{}'.format(i, ' '.join(argv[:2])), main_with_recorders, argv)
    gc.collect()
record('main_recorded/db_files', lambda: sorted(os.listdir(WORKDIR)))
record('main_recorded/logfile', lambda: open(LOG).read())

# main(None) falls back on sys.argv
saved_argv = sys.argv
for i, fake in enumerate([['spowtd'], ['spowtd', '--version'], ['spowtd', 'plot'],
                          ['spowtd', 'rise', DB, '-r', '3']]):
    sys.argv = fake
    record('main_none/{}'.format(i), main_with_recorders, None)
sys.argv = saved_argv

# A task the dispatch does not know about
original_create_parsers = ui.create_parsers


def create_parsers_with_extra_task():
    parsers = original_create_parsers()
    (action,) = [a for a in parsers[0]._actions if isinstance(a, argparse._SubParsersAction)]
    ui.add_shared_args(action.add_parser('bogus{}'))
    return parsers


ui.create_parsers = create_parsers_with_extra_task
record('main/unknown_task', captured, ui.main, ['bogus{}'])
record('main/unknown_task_verbose', captured, ui.main, ['bogus{}', '-vvvvv'])
ui.create_parsers = original_create_parsers

# --- 4. the real thing: the whole workflow on sample data through main() -----
def db_dump(path):
    with sqlite3.connect(path) as connection:
        lines = list(connection.iterdump())
    connection.close()
    return lines


for sample in (1, 2):
    db = os.path.join(WORKDIR, 'workflow{}.sqlite3'.format(sample))
    log = os.path.join(WORKDIR, 'workflow{}.log'.format(sample))
    files = {}
    workflow = [
        ['load', db, '-p', '{}/precipitation_{}.txt'.format(SAMPLE_DIR, sample),
         '-e', '{}/evapotranspiration_{}.txt'.format(SAMPLE_DIR, sample),
         '-z', '{}/water_level_{}.txt'.format(SAMPLE_DIR, sample),
         '--timezone', 'Africa/Lagos'],
        ['classify', db, '-s', '8.0', '-j', '5.0', '-vvvv', '--logfile', log],
        ['set-zeta-grid', db, '-d', '1.0'],
        ['recession', db, '-v'],
        ['rise', db],
        ['set-curvature', db, '1.0'],
        ['simulate', 'rise', db, SPLINE, '-o', 'OUT'],
        ['simulate', 'rise', db, PEATCLSM, '--observations', '-o', 'OUT'],
        ['simulate', 'recession', db, SPLINE, '-o', 'OUT'],
        ['simulate', 'recession', db, PEATCLSM, '-o', 'OUT'],
        ['pestfiles', 'rise', db, SPLINE, 'tpl', '-o', 'OUT'],
        ['pestfiles', 'rise', db, PEATCLSM, 'ins', '-o', 'OUT'],
        ['pestfiles', 'rise', db, SPLINE, 'pst', '-o', 'OUT'],
        ['pestfiles', 'curves', db, PEATCLSM, 'tpl', '-o', 'OUT'],
        ['pestfiles', 'curves', db, SPLINE, 'ins', '-o', 'OUT'],
        ['pestfiles', 'curves', db, PEATCLSM, 'pst', '-o', 'OUT'],
        ['pestfiles', 'curves', db, SPLINE, 'pst'],
        ['plot', 'specific-yield', SPLINE, '-29', '16', '-n', '9', '-d', 'OUT'],
        ['plot', 'specific-yield', PEATCLSM, '-50', '20', '-n', '9', '-d', 'OUT'],
        ['plot', 'transmissivity', SPLINE, '-29', '16', '-n', '9', '-d', 'OUT'],
        ['plot', 'transmissivity', PEATCLSM, '-50', '0', '-n', '9', '-d', 'OUT'],
        ['plot', 'conductivity', SPLINE, '-29', '16'],
        ['simulate', 'rise', db + '.missing', SPLINE],
        ['rise', db, '-r', '0.0'],
        ['recession', os.path.join(WORKDIR, 'no_such_dir', 'x.sqlite3')],
    ]
    for i, argv in enumerate(workflow):
        out_path = os.path.join(WORKDIR, 'workflow{}_{}.out'.format(sample, i))
        argv = [out_path if arg == 'OUT' else arg for arg in argv]
        key = 'workflow{}/{}/{}'.format(sample, i, ' '.join(argv[:2]))
        record(key + '/main', captured, ui.main, argv)
        gc.collect()
        if out_path in argv:
            record(key + '/output', lambda: open(out_path, 'rb').read())
        if i < 6:
            record(key + '/db', db_dump, db)
    record('workflow{}/final_db'.format(sample), db_dump, db)
    record('workflow{}/log'.format(sample), lambda: open(log).read())
'''

if __name__ == '__main__':
    diff_common.compare(5, WORKER)
