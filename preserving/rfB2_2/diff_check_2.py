"""Differential check for refactor2.diff (load.py: populate_rainfall_intensity
and populate_evapotranspiration SQL rewrites)"""

import datetime
import io
import sqlite3

import pytz

import diff_common as dc

orig, new = dc.load_pair(2, 'load')
n = 0

# 1. Whole load on the sample data
for sample in (1, 2):
    for tzname in ('Africa/Lagos', 'Asia/Kolkata'):
        a = dc.dump_db(dc.loaded_db(orig, sample, tzname))
        b = dc.dump_db(dc.loaded_db(new, sample, tzname))
        assert a == b, (sample, tzname)
        n += 1


# 2. Synthetic CSV inputs through load_data
def csv(header, start, step_s, values, skip=()):
    t0 = datetime.datetime.strptime(start, '%Y-%m-%d %H:%M:%S')
    lines = [header]
    for i, v in enumerate(values):
        if i in skip:
            continue
        t = t0 + datetime.timedelta(seconds=i * step_s)
        lines.append('{},{}'.format(t.strftime('%Y-%m-%d %H:%M:%S'), v))
    return '\n'.join(lines) + '\n'


rain = csv('datetime,p', '2020-01-01 00:00:00', 1800,
           [0.0, 1.5, 0.0, 9.25, 3.0, 0.0, 0.0, 0.1, 0.0, 0.0, 2.0, 0.0])
wl = csv('datetime,z', '2020-01-01 01:00:00', 600,
         [-10.0 - 0.37 * i for i in range(19)])
wl_gap = csv('datetime,z', '2020-01-01 01:00:00', 600,
             [-10.0 - 0.37 * i for i in range(19)], skip=(7, 8, 9))
et_vals = [0.01 * (i % 5) + 1e-3 / 3 for i in range(16)]
CASES = {
    'et_exact': csv('datetime,e', '2020-01-01 00:00:00', 1800, et_vals[:12]),
    'et_wider': csv('datetime,e', '2019-12-31 22:00:00', 1800, et_vals),
    'et_finer': csv('datetime,e', '2020-01-01 00:00:00', 900, et_vals * 2),
    'et_hole': csv('datetime,e', '2020-01-01 00:00:00', 1800, et_vals[:12],
                   skip=(4,)),
    'et_holes': csv('datetime,e', '2020-01-01 00:00:00', 1800, et_vals[:12],
                    skip=(2, 3, 5, 6, 7)),
    'et_late': csv('datetime,e', '2020-01-01 03:00:00', 1800, et_vals),
    'et_short': csv('datetime,e', '2020-01-01 00:00:00', 1800, et_vals[:5]),
    'et_shifted': csv('datetime,e', '2020-01-01 00:10:00', 1800, et_vals),
    'et_empty': 'datetime,e\n',
}
raised = 0
for name, et in CASES.items():
    for water in (wl, wl_gap):
        for tzname in ('UTC', 'Africa/Lagos', 'America/St_Johns'):
            texts = [rain, et, water]
            ca = sqlite3.connect(':memory:')
            cb = sqlite3.connect(':memory:')
            a = dc.outcome(orig.load_data, ca,
                           *map(io.StringIO, texts), tzname)
            b = dc.outcome(new.load_data, cb,
                           *map(io.StringIO, texts), tzname)
            assert a == b, (name, tzname, a, b)
            assert dc.dump_db(ca) == dc.dump_db(cb), (name, tzname)
            raised += a[0] == 'exc'
            n += 1
assert raised >= 6 * 5, raised  # the missing-ET branch was reached


# 3. Direct calls on hand-built tables
def handmade(grid, ris, es):
    conn = sqlite3.connect(':memory:')
    conn.execute('PRAGMA foreign_keys = 1')
    cur = conn.cursor()
    with open(orig.SCHEMA_PATH, 'rt') as f:
        cur.executescript(f.read())
    cur.executemany('INSERT INTO grid_time (epoch) VALUES (?)',
                    [(t,) for t in grid])
    cur.executemany('INSERT INTO rainfall_intensity_staging VALUES (?, ?)',
                    ris)
    cur.executemany('INSERT INTO evapotranspiration_staging VALUES (?, ?)',
                    es)
    return conn, cur


GRIDS = [
    list(range(0, 70, 10)),
    [0, 10, 20, 40, 50],  # irregular
    [5, 15],
    [7],  # too short: IndexError
    [],
]
STAGINGS = [
    [(t, t / 7.0) for t in range(-20, 100, 10)],
    [(t, t / 7.0) for t in range(0, 100, 5)],
    [(t, 1.0) for t in (60, 30, 0, 10)],  # inserted out of order
    [],
]
tz = pytz.timezone('Asia/Tokyo')
for grid in GRIDS:
    for staging in STAGINGS:
        for step in (10, 5, 0, -10, 7):
            results = []
            for mod in (orig, new):
                conn, cur = handmade(grid, staging, staging)
                r1 = dc.outcome(mod.populate_rainfall_intensity, cur, grid,
                                step)
                r2 = dc.outcome(mod.populate_evapotranspiration, cur, grid,
                                step, tz)
                results.append((r1, r2, dc.dump_db(conn)))
            assert results[0] == results[1], (grid, staging, step,
                                              results[0][:2], results[1][:2])
            n += 1
# keyword call style and unsupported parameter types give the same errors
for args in [dict(time_grid=[0, 10, 20], time_step=10),
             dict(time_grid=[0, 10, 20], time_step=[10]),
             dict(time_grid=[0, [10], 20], time_step=10),
             dict(time_grid=[0, 10, 20], time_step=None),
             dict(time_grid=[0, 10.0, 20], time_step=10.0),
             dict(time_grid=[0, '10', 20], time_step='10')]:
    results = []
    for mod in (orig, new):
        conn, cur = handmade(GRIDS[0], STAGINGS[0], STAGINGS[0])
        r1 = dc.outcome(mod.populate_rainfall_intensity, cursor=cur, **args)
        r2 = dc.outcome(mod.populate_evapotranspiration, cursor=cur, tz=tz,
                        **args)
        results.append((r1, r2, dc.dump_db(conn)))
    assert results[0] == results[1], (args, results[0][:2], results[1][:2])
    n += 1
print('diff_check_2 OK ({} comparisons)'.format(n))
