"""Differential check for refactor5.diff (regrid.py: enumerate/zip over knot
pairs, conditional expression, residual function hoisted out of the loop)"""

import itertools
import struct
import warnings

import numpy as np

import diff_common as dc

orig, new = dc.load_pair(5, 'regrid')
n = 0
stats = {'ok': 0, 'exc': 0, 'points': 0}


def bits(value):
    return (type(value).__name__,
            struct.pack('<d', value) if isinstance(value, float) else value)


def run(mod, x, y, y_step, **kwargs):
    """Consume the generator item by item so that partial output before an
    exception is compared too"""
    items = []
    try:
        for y_target, x_target in mod.regrid(x, y, y_step, **kwargs):
            items.append((bits(y_target), bits(x_target)))
    except BaseException as e:  # pylint: disable=broad-except
        return (items, type(e).__name__, repr(e.args))
    return (items, None, None)


def same(x, y, y_step, **kwargs):
    global n
    with warnings.catch_warnings(record=True) as wa:
        warnings.simplefilter('always')
        a = run(orig, x, y, y_step, **kwargs)
    with warnings.catch_warnings(record=True) as wb:
        warnings.simplefilter('always')
        b = run(new, x, y, y_step, **kwargs)
    assert a == b, (x, y, y_step, kwargs, a[1:], b[1:], len(a[0]), len(b[0]))
    assert [str(w.message) for w in wa] == [str(w.message) for w in wb]
    stats['ok' if a[1] is None else 'exc'] += 1
    stats['points'] += len(a[0])
    n += 1
    return a


KINDS = ['linear', 'nearest', 'zero', 'slinear', 'quadratic', 'cubic']
rng = np.random.default_rng(5)

# 1. Random series
for trial in range(240):
    length = int(rng.integers(1, 25))
    x = np.cumsum(rng.uniform(0.05, 2.0, size=length)) + rng.uniform(-5, 1e5)
    shape = trial % 4
    if shape == 0:
        y = rng.uniform(-20, 20) - np.cumsum(rng.uniform(0, 3, size=length))
    elif shape == 1:
        y = rng.uniform(-20, 20) + np.cumsum(rng.uniform(0, 3, size=length))
    elif shape == 2:
        y = rng.uniform(-20, 20) + np.cumsum(rng.normal(0, 2, size=length))
    else:  # values that sit exactly on grid points, plateaus included
        y = np.round(rng.normal(0, 3, size=length))
    y_step = [1.0, 0.5, 0.37, 2.0, -1.0, 3][trial % 6]
    kind = KINDS[trial % len(KINDS)]
    same(x, y, y_step, interpolant=kind)
    same(x, y, y_step)
    same(list(x), y, y_step)  # x as a list
    same(tuple(x), y, y_step, interpolant=kind)

# 2. The module's own demo input and other hand-made inputs
ys = np.array([2.0, 5.2, -1.3, -1.2, 10.0])
xs = list(range(len(ys)))
for kind in KINDS:
    same(xs, ys, 1.0, interpolant=kind)
    same(xs, ys, 0.25, interpolant=kind)
    same(np.array(xs, dtype=float), ys[::-1], 0.7, interpolant=kind)
same([0, 1], np.array([0.0, 0.0]), 1.0)
same([0, 1, 2], np.array([1.0, 1.0, 1.0]), 1.0)
same([0, 1, 2], np.array([3.0, 0.0, 3.0]), 1.0)
same([0, 1, 2], np.array([0.5, 0.6, 0.7]), 1.0)  # no crossings at all
same([0, 1, 2], np.array([3, 0, 3]), 1)  # integer y and step
same([0, 1, 2], np.array([3, 0, 3]), 2)
same(np.array([0, 1, 2]), np.array([3, 0, 3], dtype=np.int32), 1.0)
same([2, 1, 0], np.array([3.0, 0.0, -3.0]), 1.0)  # decreasing x

# 3. Error / degenerate inputs
same([], np.array([]), 1.0)
same([], [], 1.0)
same([0], np.array([1.5]), 1.0)
same([0, 1], np.array([1.0]), 1.0)
same([0, 1], np.array([1.0, np.nan]), 1.0)
same([0, 1], np.array([1.0, np.inf]), 1.0)
same([0, 1], [1.0, 4.0], 1.0)  # list / float: TypeError
same([0, 1], np.array([1.0, 4.0]), 0.0)  # division by zero -> inf/nan
same([0, 1], np.array([0.0, 4.0]), 0.0)
same([0, 0], np.array([1.0, 4.0]), 1.0)  # repeated x
same([0, 1, 2], np.array([1.0, 4.0, 2.0]), 1.0, interpolant='bogus')
same([0, 1], np.array([1.0, 4.0]), 1.0, interpolant='cubic')  # too few pts
same([0, 1, 2], np.array([[1.0, 4.0], [2.0, 0.0], [3.0, 3.0]]), 1.0)
same(np.array([[0, 1, 2]]), np.array([[1.0, 4.0, 2.0]]), 1.0)
same(5, np.array([1.0]), 1.0)
same([0, 1, 2], np.array([1.0, 4.0, 2.0]), 'a')
same([0, 1], np.array([1e300, -1e300]), 1e-10)  # int64 overflow on cast
# overshooting splines: brentq may fail to bracket
for trial in range(40):
    length = int(rng.integers(4, 9))
    x = np.arange(length, dtype=float)
    y = rng.choice([0.0, 0.0, 10.0, 9.99, -7.5, 0.01], size=length)
    for kind in ('quadratic', 'cubic', 'nearest', 'zero'):
        same(x, y, 1.0, interpolant=kind)

# 4. Laziness: first items are available before a later failure, and the
# generator does not run ahead
for mod in (orig, new):
    g = mod.regrid([0, 1, 2], np.array([0.5, 3.5, np.nan]), 1.0)
    try:
        next(g)
        raise SystemExit('expected ValueError')
    except ValueError:
        pass
    g = mod.regrid([0, 1, 2, 3], np.array([0.5, 3.5, 0.5, 9.0]), 1.0)
    first = list(itertools.islice(g, 4))
    assert [p[0] for p in first] == [1, 2, 3, 3], first
    x_mutable = [0, 1, 2, 3]
    g = mod.regrid(x_mutable, np.array([0.5, 3.5, 0.5, 9.0]), 1.0)
    head = list(itertools.islice(g, 3))
    assert [p[0] for p in head] == [1, 2, 3]

assert stats['ok'] > 800 and stats['exc'] > 20 and stats['points'] > 5000, stats
print('diff_check_5 OK ({} comparisons; {})'.format(n, stats))
