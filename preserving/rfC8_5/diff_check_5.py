"""Differential check for refactor5.diff (spowtd/simulate_recession.py:
compute_recession_curve).

Loads simulate_recession.py from HEAD and HEAD+refactor5.diff side by side,
runs both on the same inputs and asserts bit-identical results, identical
sequences of calls into the specific-yield and transmissivity objects,
identical warnings and identical exceptions.

Run: cd /tmp/rf_C && PYTHONPATH=/tmp/rf_C /venv/bin/python diff_check_5.py
"""
import importlib.util
import io
import os

os.environ.setdefault('OMP_NUM_THREADS', '1')
os.environ.setdefault('OPENBLAS_NUM_THREADS', '1')
import sqlite3
import subprocess
import tempfile
import warnings

import numpy as np
import yaml

ROOT = '/tmp/rf_C'
MODULE = 'spowtd/simulate_recession.py'
PATCH = os.path.join(ROOT, 'refactor5.diff')


def load_variants(prefix='rfC_dc5_'):
    tmp = tempfile.mkdtemp(prefix=prefix)
    mods = {}
    for name in ('old', 'new'):
        base = os.path.join(tmp, name)
        os.makedirs(os.path.join(base, 'spowtd'))
        src = subprocess.check_output(
            ['git', '-C', ROOT, 'show', 'HEAD:' + MODULE])
        with open(os.path.join(base, MODULE), 'wb') as f:
            f.write(src)
        if name == 'new':
            subprocess.check_call(['patch', '-s', '-p1', '-d', base, '-i', PATCH])
        spec = importlib.util.spec_from_file_location(
            'simulate_recession_' + name, os.path.join(base, MODULE))
        mod = importlib.util.module_from_spec(spec)
        spec.loader.exec_module(mod)
        mods[name] = mod
    assert open(mods['old'].__file__).read() != open(mods['new'].__file__).read()
    return mods['old'], mods['new']


OLD, NEW = load_variants()

import spowtd.classify as classify_mod  # noqa: E402
import spowtd.load as load_mod  # noqa: E402
import spowtd.recession as recession_mod  # noqa: E402
import spowtd.set_curvature as set_curvature_mod  # noqa: E402
import spowtd.specific_yield as specific_yield_mod  # noqa: E402
import spowtd.transmissivity as transmissivity_mod  # noqa: E402
import spowtd.zeta_grid as zeta_grid_mod  # noqa: E402

SAMPLE = os.path.join(ROOT, 'spowtd/test/sample_data')
N_CASES = 0


def freeze(value):
    """Exact, type-aware description of a value"""
    if isinstance(value, np.ndarray):
        return ('ndarray', value.dtype.str, value.shape, value.tobytes(),
                value.flags.writeable, value.flags.owndata)
    if isinstance(value, np.generic):
        return (type(value).__name__, value.tobytes())
    if isinstance(value, float):
        return ('float', value.hex())
    return (type(value).__name__, repr(value))


SCHEMA = open(os.path.join(ROOT, 'spowtd/schema.sql')).read()
PARAMETERS = {
    kind: open(os.path.join(SAMPLE, kind + '_parameters.yml')).read()
    for kind in ('peatclsm', 'spline')
}
PARAMETERS['peatclsm high'] = PARAMETERS['peatclsm'].replace(
    'zeta_max_cm: 1.0', 'zeta_max_cm: 50.0')
PARAMETERS['no transmissivity'] = 'specific_yield:\n  type: spline\n'
PARAMETERS['unknown type'] = PARAMETERS['spline'].replace(
    'type: spline', 'type: cubic')
PARAMETERS['not yaml'] = 'a: [1, 2'
PARAMETERS['empty'] = ''


def dump_db(conn):
    out = []
    for (name,) in conn.execute(
            "SELECT name FROM sqlite_master WHERE type='table' ORDER BY name"
    ).fetchall():
        rows = conn.execute('SELECT * FROM "%s"' % name).fetchall()
        out.append((name, [tuple((type(v).__name__, repr(v)) for v in row)
                           for row in rows]))
    return out


def outcome(mod, conn, kind, func, observations_only=None):
    before = (dump_db(conn), conn.in_transaction, conn.total_changes)
    parameter_file = io.StringIO(PARAMETERS[kind])
    out = io.StringIO()
    with warnings.catch_warnings(record=True) as caught:
        warnings.simplefilter('always')
        try:
            if func == 'simulate':
                result = mod.simulate_recession(conn, parameter_file)
                status = ('ok', tuple(freeze(v) for v in result))
            else:
                result = mod.dump_simulated_recession(
                    conn, parameter_file, out, observations_only)
                status = ('ok', repr(result))
        except BaseException as exc:  # pylint: disable=broad-except
            status = ('exc', type(exc).__name__, str(exc))
    after = (dump_db(conn), conn.in_transaction, conn.total_changes)
    assert before == after, 'database touched'
    return (status, out.getvalue(), parameter_file.tell(),
            [(w.category.__name__, str(w.message)) for w in caught])


def compare(label, conn, kinds=('spline', 'peatclsm'), expect=None):
    global N_CASES
    for kind in kinds:
        for func, flag in (('simulate', None), ('dump', False), ('dump', True)):
            a = outcome(OLD, conn, kind, func, flag)
            b = outcome(NEW, conn, kind, func, flag)
            assert a == b, (label, kind, func, flag, a[0][:3], b[0][:3])
            if expect == '*':
                pass
            elif expect is None:
                assert a[0][0] == 'ok', (label, kind, a[0])
            else:
                assert a[0][0] == 'exc' and a[0][1] == expect, (label, a[0])
            if func == 'dump' and a[0][0] == 'ok':
                assert a[1], 'no output written'
            N_CASES += 1
        print('  %-50s %-14s %s' % (
            label, kind, 'ok' if a[0][0] == 'ok' else a[0][1:3]))


def synthetic(levels_mm, times_s, et=(0.1, 0.2, 0.15), curvature=(2.36,),
              grid=1.0, extra_sql=(), intervals=2):
    """Database with a ready-made master recession curve.

    levels_mm: zeta numbers (ints); times_s: per level, one crossing time
    per interval (sequence) -- the average is taken by the view.
    """
    conn = sqlite3.connect(':memory:')
    conn.executescript(SCHEMA)
    conn.execute('PRAGMA foreign_keys = 0')
    conn.execute('PRAGMA ignore_check_constraints = 1')
    conn.execute('INSERT INTO zeta_grid (grid_interval_mm) VALUES (?)', (grid,))
    step = 3600
    for k in range(intervals):
        start = k * 10 * step
        conn.execute("INSERT INTO zeta_interval VALUES (?, 'interstorm', ?)",
                     (start, start + len(et) * step))
        conn.execute('INSERT INTO recession_interval (start_epoch, '
                     'time_offset_s) VALUES (?, ?)', (start, 1000.5 * k))
        for j, value in enumerate(et):
            conn.execute('INSERT INTO evapotranspiration VALUES (?, ?, ?)',
                         (start + j * step, start + (j + 1) * step,
                          value * (k + 1) if value is not None else None))
    for number, times in zip(levels_mm, times_s):
        conn.execute('INSERT INTO discrete_zeta (zeta_number) VALUES (?)',
                     (number,))
        for k, time in enumerate(times):
            conn.execute('INSERT INTO recession_interval_zeta VALUES (?, ?, ?)',
                         (k * 10 * step, number, time))
    for row in curvature:
        if isinstance(row, tuple):
            conn.execute('INSERT INTO curvature (curvature_m_km2, is_valid) '
                         'VALUES (?, ?)', row)
        else:
            conn.execute('INSERT INTO curvature (curvature_m_km2) VALUES (?)',
                         (row,))
    for stmt in extra_sql:
        conn.execute(stmt)
    conn.commit()
    return conn


def sample_db(sample):
    conn = sqlite3.connect(':memory:')
    def path(kind):
        return os.path.join(SAMPLE, '%s_%d.txt' % (kind, sample))
    with open(path('precipitation'), encoding='utf-8-sig') as p, \
            open(path('evapotranspiration'), encoding='utf-8-sig') as e, \
            open(path('water_level'), encoding='utf-8-sig') as z:
        load_mod.load_data(connection=conn, precipitation_data_file=p,
                           evapotranspiration_data_file=e,
                           water_level_data_file=z,
                           time_zone_name='Africa/Lagos')
    classify_mod.classify_intervals(conn, storm_rain_threshold_mm_h=8.0,
                                    rising_jump_threshold_mm_h=5.0)
    zeta_grid_mod.populate_zeta_grid(conn, grid_interval_mm=1.0)
    recession_mod.find_recession_offsets(conn)
    return conn


def main():
    global N_CASES
    print('synthetic databases')
    rng = np.random.default_rng(5)
    numbers = list(range(-280, -10, 30))
    times = [(86400.0 * (len(numbers) - i) + float(rng.random() * 3e4),
              86400.0 * (len(numbers) - i) - float(rng.random() * 3e4))
             for i in range(len(numbers))]
    every = ('spline', 'peatclsm', 'peatclsm high')
    compare('nine levels', synthetic(numbers, times), every)
    compare('nine levels, grid 0.5', synthetic(numbers, times, grid=0.5), every)
    compare('nine levels, grid 2 (integer)', synthetic(numbers, times, grid=2),
            every)
    compare('levels above zero', synthetic(list(range(-40, 41, 10)), times),
            every, expect='*')
    compare('single level', synthetic(numbers[:1], times[:1]), every)
    compare('two levels', synthetic(numbers[:2], times[:2]), every)
    compare('integer times', synthetic(
        numbers, [(int(a), int(b)) for a, b in times]), every)
    compare('integer-valued times', synthetic(
        numbers, [(float(int(a)), float(int(b))) for a, b in times]), every)
    compare('one interval only', synthetic(
        numbers, [t[:1] for t in times], intervals=1), every)
    compare('tied times', synthetic(numbers, [(5e4, 5e4)] * len(numbers)),
            every)
    compare('many levels', synthetic(
        list(range(-290, -5, 3)),
        [(1e6 - 7e3 * i, 1e6 - 7.5e3 * i) for i in range(95)]), ('peatclsm',))
    print('curvature table')
    compare('no curvature row', synthetic(numbers, times, curvature=()),
            every, expect='ValueError')
    for value in (0.0, 0, 1, 2.36, 1e-12, 5e3):
        compare('curvature %r' % value,
                synthetic(numbers, times, curvature=(value,)), ('peatclsm',))
    compare('negative curvature', synthetic(numbers, times, curvature=(-1.0,)),
            every, expect='AssertionError')
    compare('text curvature', synthetic(numbers, times, curvature=('abc',)),
            every, expect='*')
    compare('curvature table dropped',
            synthetic(numbers, times, extra_sql=['DROP TABLE curvature']),
            every, expect='OperationalError')
    # states that the CHECK constraint normally excludes
    compare('only an invalid row', synthetic(
        numbers, times, curvature=((3.5, 0),)), every, expect='ValueError')
    compare('invalid row before the valid one', synthetic(
        numbers, times, curvature=((3.5, 0), (2.36, 1))), ('peatclsm',))
    compare('valid row then is_valid = 2', synthetic(
        numbers, times, curvature=((2.36, 1), (7.0, 2))), ('peatclsm',))
    compare('negative is_valid first', synthetic(
        numbers, times, curvature=((0.5, -3), (2.36, 1))), ('peatclsm',))
    compare('only is_valid = 2', synthetic(
        numbers, times, curvature=((1.25, 2),)), ('peatclsm',))
    print('master curve and evapotranspiration')
    compare('no recession rows', synthetic([], []), every, expect='ValueError')
    compare('no recession rows, no curvature', synthetic([], [], curvature=()),
            every, expect='ValueError')
    compare('no evapotranspiration rows', synthetic(numbers, times, et=()),
            every, expect='TypeError')
    compare('zero evapotranspiration', synthetic(numbers, times, et=(0.0, 0.0)),
            every, expect='*')
    compare('zero ET and zero curvature', synthetic(
        numbers, times, et=(0.0,), curvature=(0.0,)), every, expect='*')
    compare('negative evapotranspiration', synthetic(
        numbers, times, et=(-0.1, -0.2)), every, expect='AssertionError')
    compare('integer evapotranspiration', synthetic(numbers, times, et=(1, 2)),
            every)
    compare('ET outside the recession intervals', synthetic(
        numbers, times,
        extra_sql=['UPDATE evapotranspiration SET from_epoch = from_epoch + '
                   '1000000, thru_epoch = thru_epoch + 1000000']),
            every, expect='TypeError')
    compare('interval type mismatch', synthetic(
        numbers, times,
        extra_sql=["UPDATE zeta_interval SET interval_type = 'storm'"]),
            every, expect='TypeError')
    compare('text crossing time', synthetic(
        numbers, times,
        extra_sql=['UPDATE recession_interval_zeta SET mean_crossing_time = '
                   "'abc' WHERE zeta_number = -250"]), every, expect='*')
    compare('no zeta grid', synthetic(
        numbers, times, extra_sql=['DELETE FROM zeta_grid']), every,
            expect='ValueError')
    print('parameter files')
    conn = synthetic(numbers, times)
    for kind in ('no transmissivity', 'unknown type', 'not yaml', 'empty'):
        compare('parameters: ' + kind, conn, (kind,), expect='*')
    compare('bad parameters and no curvature',
            synthetic(numbers, times, curvature=()), ('not yaml', 'empty'),
            expect='ValueError')
    print('repeated calls on one connection')
    for turn in range(3):
        compare('turn %d' % turn, conn, every)

    print('sample data')
    for sample in (1, 2):
        conn = sample_db(sample)
        conn.commit()
        compare('sample %d, curvature not set' % sample, conn,
                expect='ValueError')
        set_curvature_mod.set_curvature(conn, curvature_m_km2=2.36)
        conn.commit()
        compare('sample %d' % sample, conn, ('spline',))
        compare('sample %d' % sample, conn, ('peatclsm',), expect='ValueError')
        compare('sample %d' % sample, conn, ('peatclsm high',))
    print('diff_check_5: %d comparisons identical' % N_CASES)


if __name__ == '__main__':
    main()
