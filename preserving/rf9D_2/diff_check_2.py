#!/venv/bin/python
"""Differential check for refactor2.diff (spowtd/transmissivity.py)

SplineTransmissivity.conductivity / __call__ / call_scalar.

Builds the original module (git show HEAD:...) and the refactored one
(original + refactor2.diff) in a temporary directory, imports both
under private names and compares them exactly: synthetic inputs, edge
and error cases, the quadrature calls and the points at which the
spline is evaluated, and the whole recession simulation on both
sample data sets (database dumps included).

"""

import importlib.util
import io
import itertools
import os
import sqlite3
import subprocess
import sys
import tempfile

import numpy as np

import scipy.integrate

import yaml

HERE = os.path.dirname(os.path.abspath(__file__))
# (DIFF_CHECK_PATCH: another patch, to try the check on a mutant)
PATCH = os.environ.get(
    'DIFF_CHECK_PATCH', os.path.join(HERE, 'refactor2.diff')
)
PATHS = ['spowtd/transmissivity.py']
SAMPLE_DATA_DIR = os.path.join(HERE, 'spowtd', 'test', 'sample_data')


def build_trees():
    """Return (orig_dir, new_dir) holding original and patched files"""
    root = tempfile.mkdtemp(prefix='dc2_')
    dirs = []
    for label in ('orig', 'new'):
        top = os.path.join(root, label)
        for path in PATHS:
            dest = os.path.join(top, path)
            os.makedirs(os.path.dirname(dest), exist_ok=True)
            text = subprocess.check_output(
                ['git', 'show', 'HEAD:' + path], cwd=HERE
            )
            with open(dest, 'wb') as f:
                f.write(text)
        dirs.append(top)
    subprocess.check_call(['git', 'apply', PATCH], cwd=dirs[1])
    for path in PATHS:
        with open(os.path.join(dirs[0], path), 'rb') as f0, open(
            os.path.join(dirs[1], path), 'rb'
        ) as f1:
            assert f0.read() != f1.read(), 'patch changed nothing'
    return dirs


def load(top, path, name):
    spec = importlib.util.spec_from_file_location(
        name, os.path.join(top, path)
    )
    module = importlib.util.module_from_spec(spec)
    sys.modules[name] = module
    spec.loader.exec_module(module)
    return module


def describe(value):
    """Exact, comparable description of a value"""
    if isinstance(value, np.ndarray) and value.dtype == object:
        return ('ndarray', type(value).__name__, 'object', repr(value))
    if isinstance(value, np.ndarray):
        return (
            'ndarray',
            type(value).__name__,
            str(value.dtype),
            value.shape,
            value.tobytes(),
        )
    if isinstance(value, np.generic):
        return ('npscalar', type(value).__name__, value.tobytes())
    if isinstance(value, float):
        return ('float', value.hex())
    if isinstance(value, (tuple, list)):
        return (type(value).__name__, tuple(describe(v) for v in value))
    return (type(value).__name__, repr(value))


def outcome(function, *args, **kwargs):
    """Description of the return value or of the exception raised"""
    try:
        with np.errstate(all='ignore'):
            return ('returned', describe(function(*args, **kwargs)))
    except BaseException as exc:  # pylint: disable=broad-except
        return ('raised', type(exc).__name__, str(exc))


TRACE = []
REAL_QUAD = scipy.integrate.quad


def recording_quad(func, a, b, *args, **kwargs):
    """scipy.integrate.quad, with the call recorded"""
    TRACE.append(('quad', describe(a), describe(b), args, sorted(kwargs)))
    return REAL_QUAD(func, a, b, *args, **kwargs)


class RecordingSpline:
    """Records the points at which the log-conductivity is evaluated"""

    def __init__(self, spline):
        self.spline = spline

    def __call__(self, *args, **kwargs):
        TRACE.append(('spline', describe(list(args)), sorted(kwargs)))
        return self.spline(*args, **kwargs)


def traced(function, *args, **kwargs):
    """Outcome and trace of a call"""
    del TRACE[:]
    result = outcome(function, *args, **kwargs)
    return (result, list(TRACE))


def make(module, zeta, K, tmin):
    obj = module.SplineTransmissivity(zeta, K, tmin)
    obj._spline = RecordingSpline(obj._spline)
    return obj


def build_database(sample):
    """Database with classified sample data, offsets and curvature"""
    import spowtd.classify as classify_mod
    import spowtd.load as load_mod
    import spowtd.recession as recession_mod
    import spowtd.rise as rise_mod
    import spowtd.set_curvature as set_curvature_mod
    import spowtd.zeta_grid as zeta_grid_mod

    connection = sqlite3.connect(':memory:')

    def path(kind):
        return os.path.join(SAMPLE_DATA_DIR, '{}_{}.txt'.format(kind, sample))

    with open(path('precipitation'), 'rt', encoding='utf-8-sig') as p_f, open(
        path('evapotranspiration'), 'rt', encoding='utf-8-sig'
    ) as e_f, open(path('water_level'), 'rt', encoding='utf-8-sig') as z_f:
        load_mod.load_data(
            connection=connection,
            precipitation_data_file=p_f,
            evapotranspiration_data_file=e_f,
            water_level_data_file=z_f,
            time_zone_name='Africa/Lagos',
        )
    classify_mod.classify_intervals(
        connection,
        storm_rain_threshold_mm_h=8.0,
        rising_jump_threshold_mm_h=5.0,
    )
    zeta_grid_mod.populate_zeta_grid(connection, grid_interval_mm=1.0)
    rise_mod.find_rise_offsets(connection)
    recession_mod.find_recession_offsets(connection)
    set_curvature_mod.set_curvature(connection, curvature_m_km2=2.36)
    connection.commit()
    return connection


def dump(connection):
    return '\n'.join(connection.iterdump())


def main():
    orig_dir, new_dir = build_trees()
    orig = load(orig_dir, PATHS[0], 'dc2_transmissivity_orig')
    new = load(new_dir, PATHS[0], 'dc2_transmissivity_new')
    assert orig.integrate_mod is new.integrate_mod is scipy.integrate
    scipy.integrate.quad = recording_quad
    n_cases = 0

    with open(os.path.join(SAMPLE_DATA_DIR, 'spline_parameters.yml')) as f:
        sample_pars = yaml.safe_load(f)['transmissivity']
    knot_sets = {
        'sample': (
            sample_pars['zeta_knots_mm'],
            sample_pars['K_knots_km_d'],
        ),
        'two': ([0.0, 10.0], [1.0, 1.0]),
        'ints': ([-100, -10, 0, 50], [1, 2, 30, 400]),
        'arrays': (
            np.array([-50.0, 0.0, 25.0]),
            np.array([0.5, 5.0, 50.0], dtype='float32'),
        ),
    }
    tmins = [
        7.442,
        0,
        1,
        np.float32(2.5),
        np.float64(3.0),
        np.array(1.5),
        np.array([1.0, 2.0]),
        None,
        'text',
        True,
    ]
    rng = np.random.default_rng(20240927)
    for label, (zeta, K) in knot_sets.items():
        zmin = float(np.min(zeta))
        zmax = float(np.max(zeta))
        span = zmax - zmin
        scalars = [
            zmin,
            zmax,
            np.nextafter(zmin, -np.inf),
            np.nextafter(zmin, np.inf),
            np.nextafter(zmax, -np.inf),
            np.nextafter(zmax, np.inf),
            zmin - 1,
            zmax + 1,
            int(zmin),
            int(zmin) + 1,
            0,
            -0.0,
            np.float32(zmin + 0.5 * span),
            np.float64(zmin + 0.25 * span),
            np.int64(int(zmin) + 2),
            np.inf,
            -np.inf,
            np.nan,
            True,
            'a',
            b'a',
            1 + 1j,
        ] + list(rng.uniform(zmin - 0.2 * span, zmax + 0.2 * span, size=12))
        nonscalars = [
            None,
            [],
            (),
            np.array([]),
            np.array(zmin + 0.5 * span),
            np.array([zmin + 0.5 * span]),
            [zmin - 1, zmin, zmin + 0.1 * span, zmin + 0.9 * span],
            (zmin + 0.3 * span, zmin - 5),
            np.linspace(zmin - 10, zmax - 1e-3, 7),
            np.linspace(zmin, zmax + 10, 5),
            np.array([[zmin, zmin + 1.0]]),
            np.array([zmin, int(zmin) + 1], dtype=object),
            [zmin + 1.0, 'a'],
            [zmin + 1.0, None],
            iter([zmin, zmin + 0.5 * span]),
            {zmin + 1.0: 1},
            range(int(zmin) - 1, int(zmin) + 3),
        ]
        for tmin in tmins:
            t_orig = make(orig, zeta, K, tmin)
            t_new = make(new, zeta, K, tmin)
            for name in ('zeta_knots_mm', 'K_knots_km_d'):
                assert describe(getattr(t_orig, name)) == describe(
                    getattr(t_new, name)
                )
            for index, value in enumerate(scalars + nonscalars):
                for method in ('__call__', 'call_scalar', 'conductivity'):
                    if isinstance(value, type(iter([]))):
                        # One-shot iterator: give each side its own
                        args_orig = (iter([zmin, zmin + 0.5 * span]),)
                        args_new = (iter([zmin, zmin + 0.5 * span]),)
                    else:
                        args_orig = args_new = (value,)
                    r_orig = traced(getattr(t_orig, method), *args_orig)
                    r_new = traced(getattr(t_new, method), *args_new)
                    assert r_orig == r_new, (
                        label,
                        tmin,
                        method,
                        value,
                        r_orig[0],
                        r_new[0],
                    )
                    n_cases += 1

        # State changed between construction and call: attributes
        # deleted or replaced
        for attribute, replacement in itertools.product(
            ('minimum_transmissivity_m2_d', 'zeta_knots_mm', '_spline'),
            ('delete', None, np.array([]), np.array([zmin - 5, zmax + 5])),
        ):
            pair = []
            for module in (orig, new):
                obj = make(module, zeta, K, 1.25)
                if isinstance(replacement, str):
                    delattr(obj, attribute)
                else:
                    setattr(obj, attribute, replacement)
                results = []
                for value in (zmin - 1, zmin + 0.5 * span, [zmin, zmax - 1]):
                    for method in ('__call__', 'call_scalar', 'conductivity'):
                        results.append(traced(getattr(obj, method), value))
                        n_cases += 1
                pair.append(results)
            assert pair[0] == pair[1], (label, attribute, replacement)

        # A subclass that overrides conductivity is integrated through
        # its own conductivity in both
        pair = []
        for module in (orig, new):

            class Doubled(module.SplineTransmissivity):
                __slots__ = []

                def conductivity(self, water_level_mm):
                    return 2 * super().conductivity(water_level_mm)

            obj = Doubled(zeta, K, 0.5)
            pair.append(
                [
                    traced(obj, value)
                    for value in (zmin - 1, zmin + 0.5 * span, [zmin, zmax - 1])
                ]
            )
            n_cases += 3
        assert pair[0] == pair[1]

    # The factory and the (untouched) PEATCLSM class
    for parameters in (
        {},
        {'type': 'spline'},
        {'type': 'nonesuch', 'a': 1},
        dict(sample_pars),
        {'type': 'peatclsm', 'Ksmacz0': 7.3, 'alpha': 3, 'zeta_max_cm': 1.0},
    ):
        pair = []
        for module in (orig, new):
            pars = dict(parameters)
            created = outcome(
                lambda p=pars, m=module: type(
                    m.create_transmissivity_function(p)
                ).__name__
            )
            values = None
            if created[0] == 'returned':
                function = module.create_transmissivity_function(
                    dict(parameters)
                )
                values = [
                    outcome(function, v)
                    for v in (-300.0, -5.0, 5, 20.0, [-20.0, 3.0], [0.0, 11.0])
                ]
            pair.append((created, sorted(pars), values))
            n_cases += 1
        assert pair[0] == pair[1], parameters

    # Whole recession simulation on the sample data
    import spowtd.simulate_recession as simulate_recession_mod

    scipy.integrate.quad = REAL_QUAD
    saved = simulate_recession_mod.transmissivity_mod
    try:
        for sample in (1, 2):
            connection = build_database(sample)
            before = dump(connection)
            for parameterization in ('spline', 'peatclsm'):
                for observations_only in (True, False):
                    pair = []
                    for module in (orig, new):
                        simulate_recession_mod.transmissivity_mod = module
                        outfile = io.StringIO()
                        with open(
                            os.path.join(
                                SAMPLE_DATA_DIR,
                                '{}_parameters.yml'.format(parameterization),
                            ),
                            'rt',
                        ) as parameter_file:
                            result = outcome(
                                simulate_recession_mod.dump_simulated_recession,
                                connection,
                                parameter_file,
                                outfile,
                                observations_only,
                            )
                        pair.append(
                            (result, outfile.getvalue(), dump(connection))
                        )
                        n_cases += 1
                    assert pair[0] == pair[1], (sample, parameterization)
                    assert pair[0][2] == before
                    print(
                        'sample {} {} observations_only={}: {} ({} chars)'.format(
                            sample,
                            parameterization,
                            observations_only,
                            pair[0][0][0]
                            if pair[0][0][0] == 'returned'
                            else pair[0][0],
                            len(pair[0][1]),
                        )
                    )
    finally:
        simulate_recession_mod.transmissivity_mod = saved

    print('compared {} cases'.format(n_cases))
    print('OK')


if __name__ == '__main__':
    main()
