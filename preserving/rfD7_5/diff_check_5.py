"""Differential check for refactor5.diff

set_curvature.set_curvature (the INSERT) and the curvature lookup of
simulate_recession.simulate_recession.

Run: cd /tmp/rf_D && /venv/bin/python diff_check_5.py

"""

import io
import os
import shutil
import sqlite3
import sys
import warnings

sys.path.insert(0, '/tmp/rf_D')
import dc_common as dc  # noqa: E402


VALUES = [
    ('float', 2.36),
    ('zero', 0.0),
    ('negative_zero', -0.0),
    ('negative', -1.5),
    ('tiny', 5e-324),
    ('int', 3),
    ('bool', True),
    ('numeric_text', '2.5'),
    ('padded_text', ' 7e-1 '),
    ('text', 'steep'),
    ('blob', b'\x01\x02'),
    ('inf', float('inf')),
    ('nan', float('nan')),  # stored as NULL: NOT NULL constraint fails
    ('none', None),
    ('huge_int', 2 ** 70),  # OverflowError while binding
    ('list', [1.0]),  # unsupported type while binding
]


def start_states():
    """(name, path) of the databases set_curvature is applied to"""
    work = dc.private_dir()
    states = []
    path = os.path.join(work, 'c5_empty.db')
    dc.schema_db(path).close()
    states.append(('empty', path))
    path = os.path.join(work, 'c5_unset.db')
    dc.synthetic_db(path, seed=81, curvature=None, zeta_range=(-10, 3),
                    grid=10.0)
    states.append(('unset', path))
    path = os.path.join(work, 'c5_set.db')
    dc.synthetic_db(path, seed=81, curvature=9.876, zeta_range=(-10, 3),
                    grid=10.0)
    states.append(('already_set', path))
    # No curvature table at all
    path = os.path.join(work, 'c5_no_table.db')
    connection = dc.schema_db(path)
    connection.execute('DROP TABLE curvature')
    connection.commit()
    connection.close()
    states.append(('no_table', path))
    return states


def binding_error(outcome):
    """Binding errors name the parameter (0 / :curvature_m_km2): keep type"""
    if outcome[0] == 'exc' and outcome[1] in (
        'ProgrammingError',
        'InterfaceError',
        'OverflowError',
    ):
        return outcome[:2]
    return outcome


def table(connection):
    """Stored curvature rows with storage class and exact value"""
    try:
        return [
            dc.enc(row)
            for row in sqlite3.Cursor(connection).execute(
                'SELECT is_valid, typeof(curvature_m_km2), curvature_m_km2 '
                'FROM curvature ORDER BY rowid'
            )
        ]
    except sqlite3.OperationalError as exc:
        return str(exc)


def worker():
    import spowtd.set_curvature as set_curvature_mod
    import spowtd.simulate_recession as simulate_recession_mod
    import spowtd.user_interface as user_interface_mod

    warnings.simplefilter('ignore')
    results = {}
    for state, path in start_states():
        for label, value in VALUES:
            key = ('set', state, label)
            record = {}
            # 1. implicit transaction, then roll back
            connection, private = dc.open_copy(path, 'c5')
            record['call'] = binding_error(
                dc.call(set_curvature_mod.set_curvature, connection, value)
            )
            record['in_transaction'] = connection.in_transaction
            record['pending'] = table(connection)
            record['pending_dump'] = dc.dump(connection)
            connection.rollback()
            record['rolled_back_dump'] = dc.dump(connection)
            # 2. again, commit, then a second time (singleton)
            record['call2'] = binding_error(
                dc.call(
                    set_curvature_mod.set_curvature,
                    connection,
                    curvature_m_km2=value,
                )
            )
            connection.commit()
            record['committed'] = table(connection)
            record['committed_dump'] = dc.dump(connection)
            record['call3'] = binding_error(
                dc.call(set_curvature_mod.set_curvature, connection, 1.25)
            )
            record['in_transaction3'] = connection.in_transaction
            connection.commit()
            record['final'] = table(connection)
            record['statements'] = len(connection.log)
            record['log_errors'] = [
                None if e['error'] is None else e['error'][0]
                for e in connection.log
            ]
            connection.close()
            # a fresh connection sees what was committed
            plain = sqlite3.connect(private)
            record['reopened'] = dc.dump(plain)
            plain.close()
            os.remove(private)
            # 3. pending work of the caller survives a failing call and
            #    is committed / rolled back together with a good one
            connection, private = dc.open_copy(path, 'c5')
            sqlite3.Cursor(connection).execute(
                "INSERT INTO grid_time (epoch, data_interval) VALUES (7, 7)"
            )
            assert connection.in_transaction
            record['nested_call'] = binding_error(
                dc.call(set_curvature_mod.set_curvature, connection, value)
            )
            record['nested_in_transaction'] = connection.in_transaction
            record['nested_pending_dump'] = dc.dump(connection)
            connection.rollback()
            record['nested_rolled_back_dump'] = dc.dump(connection)
            connection.close()
            os.remove(private)
            # 4. autocommit connection
            connection, private = dc.open_copy(path, 'c5')
            connection.isolation_level = None
            record['auto_call'] = binding_error(
                dc.call(set_curvature_mod.set_curvature, connection, value)
            )
            record['auto_in_transaction'] = connection.in_transaction
            connection.close()
            plain = sqlite3.connect(private)
            record['auto_reopened'] = dc.dump(plain)
            plain.close()
            os.remove(private)
            results[key] = record
        # 5. through the command line, twice
        for argument in ('2.36', '-0.5', '1e400', 'nan'):
            private = os.path.join(dc.private_dir(), 'cli.db')
            shutil.copyfile(path, private)
            record = {}
            for attempt in (1, 2):
                record['main%d' % attempt] = dc.call(
                    user_interface_mod.main,
                    ['set-curvature', private, '--', argument],
                )
                plain = sqlite3.connect(private)
                record['dump%d' % attempt] = dc.dump(plain)
                plain.close()
            os.remove(private)
            results[('cli', state, argument)] = record
    # 6. the lookup in simulate_recession
    lookups = {
        'unset': [],
        'set': ["INSERT INTO curvature (curvature_m_km2) VALUES (2.36)"],
        'set_zero': ["INSERT INTO curvature (curvature_m_km2) VALUES (0)"],
        'set_text': [
            "INSERT INTO curvature (curvature_m_km2) VALUES ('steep')"
        ],
        'set_negative': [
            "INSERT INTO curvature (curvature_m_km2) VALUES (-1)"
        ],
        # Unreachable while the CHECK holds; included to show the two
        # spellings agree row for row even then
        'invalid_only': [
            "PRAGMA ignore_check_constraints = 1",
            "INSERT INTO curvature (is_valid, curvature_m_km2) "
            "VALUES (0, 4.5)",
        ],
        'invalid_first': [
            "PRAGMA ignore_check_constraints = 1",
            "INSERT INTO curvature (is_valid, curvature_m_km2) "
            "VALUES (1, 2.36)",
            "INSERT INTO curvature (is_valid, curvature_m_km2) "
            "VALUES (0, 4.5)",
        ],
        'three_rows': [
            "PRAGMA ignore_check_constraints = 1",
            "INSERT INTO curvature (is_valid, curvature_m_km2) "
            "VALUES (2, 1.5)",
            "INSERT INTO curvature (is_valid, curvature_m_km2) "
            "VALUES (1, 2.36)",
            "INSERT INTO curvature (is_valid, curvature_m_km2) "
            "VALUES (-1, 0.75)",
        ],
        'two_only': [
            "PRAGMA ignore_check_constraints = 1",
            "INSERT INTO curvature (is_valid, curvature_m_km2) "
            "VALUES (2, 1.5)",
        ],
        'no_table': ["DROP TABLE curvature"],
    }
    base = dict(start_states())['unset']
    for name, statements in lookups.items():
        for kind in ('peatclsm', 'spline'):
            connection, private = dc.open_copy(base, 'c5')
            for statement in statements:
                sqlite3.Cursor(connection).execute(statement)
            connection.commit()
            outcome = dc.call(
                simulate_recession_mod.simulate_recession,
                connection,
                io.StringIO(dc.parameter_text(kind)),
            )
            log = connection.log
            results[('lookup', name, kind)] = {
                'outcome': outcome,
                'values': dc.flat_values(log),
                'sql': [e['sql'] for e in log],
                'errors': [e['error'] for e in log],
                'in_transaction': connection.in_transaction,
                'dump': dc.dump(connection),
            }
            connection.close()
            os.remove(private)
    # 7. set through the module, then looked up by the simulation
    for label, value in VALUES:
        for kind in ('spline',):
            connection, private = dc.open_copy(base, 'c5')
            first = binding_error(
                dc.call(set_curvature_mod.set_curvature, connection, value)
            )
            outcome = dc.call(
                simulate_recession_mod.simulate_recession,
                connection,
                io.StringIO(dc.parameter_text(kind)),
            )
            results[('roundtrip', label, kind)] = {
                'set': first,
                'outcome': outcome,
                'values': dc.flat_values(connection.log)[1:],
                'in_transaction': connection.in_transaction,
            }
            connection.close()
            os.remove(private)
    return results


def check(orig, new):
    assert sorted(orig) == sorted(new)
    tally = {}
    for key in sorted(orig):
        (o, n) = (orig[key], new[key])
        if key[0] == 'lookup':
            for field in ('outcome', 'errors', 'in_transaction', 'dump'):
                dc.compare(o[field], n[field], '%r %s' % (key, field))
            assert o['sql'][:2] != n['sql'][:2], 'SQL was not exercised'
            dc.compare(o['sql'][2:], n['sql'][2:], '%r later sql' % (key,))
            # EXISTS is 0/1, count(*) is 0..n: same truth value; every
            # later value (the curvature first) is identical
            if o['values']:
                assert bool(o['values'][0][1]) == bool(n['values'][0][1])
                if key[1] not in ('three_rows', 'invalid_first'):
                    assert o['values'][0] == n['values'][0]
            dc.compare(o['values'][1:], n['values'][1:],
                       '%r values' % (key,))
            tag = ('lookup', o['outcome'][0],
                   o['outcome'][1] if o['outcome'][0] == 'exc' else '')
        else:
            dc.compare(o, n, repr(key))
            first = o.get('call', o.get('main1', o.get('set')))
            tag = (key[0], first[0], first[1] if first[0] == 'exc' else '')
        tally[tag] = tally.get(tag, 0) + 1
    for key in sorted(orig):
        o = orig[key]
        if key[0] == 'set':
            print(key, o['call'][:2], o['in_transaction'], o['pending'],
                  '| 2nd:', o['call3'][:2])
        elif key[0] == 'cli':
            print(key, o['main1'][:2], o['main2'][:2])
        elif key[0] == 'lookup':
            print(key, o['outcome'][:2] if o['outcome'][0] == 'exc'
                  else 'ok', o['values'][:2])
        else:
            print(key, o['set'][:2], o['outcome'][:2]
                  if o['outcome'][0] == 'exc' else 'ok', o['values'][:1])
    for tag in sorted(tally):
        print(tag, tally[tag])
    assert tally[('set', 'ok', '')] >= 20, tally
    assert tally[('set', 'exc', 'IntegrityError')] >= 10, tally
    assert tally[('set', 'exc', 'OperationalError')] >= 10, tally
    assert tally[('lookup', 'ok', '')] >= 5, tally
    assert tally[('lookup', 'exc', 'ValueError')] >= 2, tally


if __name__ == '__main__':
    dc.main(os.path.abspath(__file__), 5, worker, check)
