"""Differential check for refactor2.diff (classify_interstorms split into
get_interstorm_flags / insert_grid_time_flags / get_interstorm_series /
insert_interstorm_intervals, data handed on through return values).

Shared scenario set, pristine package against patched copy: classify_intervals
on sample data 1 and 2 with six threshold pairs, 40 random synthetic databases
(1-3 data intervals, mystery jumps, dry and wet spells, series of length 1
that must be dropped) x 4 threshold pairs, direct calls of
classify_interstorms on a cursor (existing, missing data interval, one-row,
nonuniform), edge databases (all rain, all dry, two dry rows, ...).  Compared
exactly: outcome / exception type and text, every row of grid_time_flags and
zeta_interval with rowids and in natural order, and the log records
("N series found").
"""
import dc_common

orig, new = dc_common.main(2)
n_flags = n_series = 0
for key, value in orig.items():
    if key.startswith(("cursor/classify_interstorms", "synthetic", "sample")) and not key.endswith("twice"):
        tables = dict((k, v) for k, v in value[1][1])
        n_flags += len(tables["grid_time_flags"][1])
        n_series += len(tables["zeta_interval"][1])
assert n_flags > 10000 and n_series > 1000, (n_flags, n_series)
print("rows compared: grid_time_flags", n_flags, "zeta_interval", n_series)
