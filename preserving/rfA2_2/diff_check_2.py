"""Differential check for refactor2.diff (classify_interstorms)"""
import diff_common as dc

orig, new = dc.load_variants(2)
assert new.SECONDS_PER_HOUR == 3600.0 and isinstance(new.SECONDS_PER_HOUR, float)


def typed_dump(connection):
    """Dump including storage classes of the flag and interval tables"""
    result = dc.dump(connection)
    result["#flag types"] = connection.execute(
        """SELECT typeof(start_epoch), typeof(is_jump), typeof(is_mystery_jump),
                  typeof(is_interstorm), count(*)
           FROM grid_time_flags GROUP BY 1, 2, 3, 4"""
    ).fetchall()
    result["#interval types"] = connection.execute(
        """SELECT typeof(start_epoch), typeof(interval_type), typeof(thru_epoch), count(*)
           FROM zeta_interval GROUP BY 1, 2, 3"""
    ).fetchall()
    return result


def direct(base, label, thresholds=(5.0, 0.5, 50.0, -1.0), intervals=(1, 2, 3)):
    """classify_interstorms alone, per data interval, for several thresholds"""
    for threshold in thresholds:
        results = []
        for module in (orig, new):
            connection = dc.clone(base)
            cursor = connection.cursor()
            outcomes = [
                dc.run(module.classify_interstorms, cursor, interval, threshold)
                for interval in intervals
            ]
            results.append((outcomes, typed_dump(connection)))
            connection.close()
        assert results[0] == results[1], (label, threshold)
        print(
            f"  {label} threshold {threshold}:",
            [o[0][0] for o in results[0][0]],
            [o[1] for o in results[0][0] if o[1]],
            len(results[0][1]["zeta_interval"]), "intervals",
        )


print("classify_interstorms alone:")
for sample in (1, 2):
    base = dc.sample_db(sample)
    direct(base, f"sample {sample}", thresholds=(5.0, 8.0), intervals=(1, 2, 3, 99))
    base.close()
for seed in range(8):
    base = dc.synthetic_db(seed, gap=seed % 2 == 0)
    direct(base, f"synthetic {seed}")
    base.close()
# Data that are mostly interstorm (many series, including one-point series that
# must be dropped): no rain except isolated single steps
import io, sqlite3, random
import spowtd.load as load_mod
rng = random.Random(42)
n = 300
rain = [0.0] * n
for j in range(5, n, 7):
    rain[j] = 2.0
    if j % 3 == 0 and j + 2 < n:
        rain[j + 2] = 1.0   # leaves a one-point dry series between two wet steps
head = [-100.0]
for j in range(n):
    head.append(head[-1] + (6.0 if j % 41 == 0 else -0.2 * rng.random()))
precip = io.StringIO("datetime,p\n" + "".join(f"{dc._fmt(j * 1800)},{v!r}\n" for j, v in enumerate(rain + [0.0])))
et = io.StringIO("datetime,e\n" + "".join(f"{dc._fmt(j * 1800)},0.0\n" for j in range(n + 2)))
zeta = io.StringIO("datetime,z\n" + "".join(f"{dc._fmt(j * 1800)},{v!r}\n" for j, v in enumerate(head)))
base = sqlite3.connect(":memory:")
load_mod.load_data(base, precip, et, zeta, "UTC")
direct(base, "many short series", thresholds=(5.0, 0.05), intervals=(1,))
# Bad inputs reaching classify_interstorms directly
direct(base, "threshold None", thresholds=(None,), intervals=(1,))
direct(base, "interval None", thresholds=(5.0,), intervals=(None, "1", 1.0))
base.execute("UPDATE water_level SET zeta_mm = 9e999 WHERE epoch = 3600")
direct(base, "non-finite head", thresholds=(5.0,), intervals=(1,))
base.close()
# classifying the same interval twice violates the primary key of grid_time_flags
base = dc.synthetic_db(3, n_steps=80, gap=False)
direct(base, "same interval twice", thresholds=(5.0,), intervals=(1, 1))

print("end-to-end classify_intervals:")
dc.standard_db_checks(orig, new)
dc.cleanup()
print("diff_check_2 OK")
