"""Differential check for refactor3.diff (populate_water_level split in three)"""

import sqlite3

import diffcheck_harness as H


class FakeCursor:
    """Cursor stand-in that serves preset rows and records what is written"""

    def __init__(self, rows):
        self.rows = rows
        self.log = []

    def execute(self, sql, parameters=()):
        self.log.append(('execute', sql, list(parameters)))
        return self

    def fetchall(self):
        self.log.append(('fetchall',))
        return list(self.rows)

    def executemany(self, sql, parameters):
        self.log.append(('executemany', sql, [tuple(p) for p in parameters]))


def with_fake_cursor(time_grid, rows):
    import spowtd.load as load_mod

    cursor = FakeCursor(rows)
    outcome = H.capture(load_mod.populate_water_level, cursor, time_grid)
    return (outcome, H.norm(cursor.log))


def with_database(time_grid, rows, grid_rows=None):
    import spowtd.load as load_mod

    connection = sqlite3.connect(':memory:')
    cursor = connection.cursor()
    with open(load_mod.SCHEMA_PATH, 'rt') as schema_file:
        cursor.executescript(schema_file.read())
    cursor.executemany(
        'INSERT INTO grid_time (epoch) VALUES (?)',
        [(int(t),) for t in (time_grid if grid_rows is None else grid_rows)],
    )
    cursor.executemany('INSERT INTO water_level_staging VALUES (?, ?)', rows)
    outcome = H.capture(load_mod.populate_water_level, cursor, time_grid)
    return (outcome, H.norm(H.dump_db(connection)))


def scenarios():
    import numpy as np

    yield 'sample 1', lambda: H.load_sample(1)
    yield 'sample 2', lambda: H.load_sample(2)
    precip, et, zeta = H.synthetic_series(seed=5)
    yield 'synthetic no gap', lambda: H.load_rows(precip, et, zeta)
    yield 'synthetic gaps', lambda: H.load_rows(
        precip, et, zeta[3:10] + zeta[14:30] + zeta[31:32] + zeta[40:55]
    )
    yield 'synthetic 30 min levels', lambda: H.load_rows(
        precip,
        et,
        sorted(zeta + [(t + 1800, z + 0.5) for t, z in zeta[:-1]]),
    )
    rng = np.random.default_rng(7)
    grid = list(range(1000, 1000 + 25 * 60, 60))
    level_t = list(range(1000, 1000 + 25 * 60, 60))
    levels = [float(v) for v in rng.normal(size=len(level_t))]
    full = list(zip(level_t, levels))
    for fixture in (with_database, with_fake_cursor):
        tag = fixture.__name__ + ': '
        yield tag + 'no gap', lambda f=fixture: f(grid, full)
        yield tag + 'one gap', lambda f=fixture: f(grid, full[:8] + full[12:])
        yield tag + 'three gaps, unequal', lambda f=fixture: f(
            grid, full[:4] + full[5:9] + full[15:16] + full[20:]
        )
        yield tag + 'gap at start and end of grid', lambda f=fixture: f(
            grid, full[3:10] + full[13:-4]
        )
        yield tag + 'levels beyond grid', lambda f=fixture: f(
            grid[5:15], full[:9] + full[11:]
        )
        yield tag + 'levels off grid', lambda f=fixture: f(
            grid, [(t + 17, z) for t, z in full[:8] + full[12:]]
        )
        yield tag + 'ndarray grid', lambda f=fixture: f(
            np.array(grid, dtype='int32'), full[:8] + full[12:]
        )
        yield tag + 'tuple grid', lambda f=fixture: f(tuple(grid), full)
        yield tag + 'two levels', lambda f=fixture: f(grid, full[:2])
        yield tag + 'one level', lambda f=fixture: f(grid, full[:1])
        yield tag + 'no levels', lambda f=fixture: f(grid, [])
        yield tag + 'two grid times', lambda f=fixture: f(grid[:2], full)
        yield tag + 'one grid time', lambda f=fixture: f(grid[:1], full)
        yield tag + 'empty grid', lambda f=fixture: f([], full)
        yield tag + 'float grid', lambda f=fixture: f(
            [float(t) for t in grid], full
        )
        yield tag + 'integer levels', lambda f=fixture: f(
            grid, [(t, int(10 * z)) for t, z in full]
        )
    yield 'database: grid not in grid_time', lambda: with_database(
        grid, full, grid_rows=grid[:10]
    )
    # Only the fake cursor can serve these
    yield 'fake: float epochs', lambda: with_fake_cursor(
        grid, [(float(t), z) for t, z in full]
    )
    yield 'fake: unsorted levels', lambda: with_fake_cursor(
        grid, full[10:] + full[:10]
    )
    yield 'fake: repeated epoch', lambda: with_fake_cursor(
        grid, full[:5] + full[4:]
    )
    yield 'fake: three columns', lambda: with_fake_cursor(
        grid, [(t, z, 0) for t, z in full]
    )
    yield 'fake: NaN level', lambda: with_fake_cursor(
        grid, full[:3] + [(level_t[3], float('nan'))] + full[4:]
    )
    yield 'fake: None level', lambda: with_fake_cursor(
        grid, full[:3] + [(level_t[3], None)] + full[4:]
    )
    yield 'fake: scalar grid', lambda: with_fake_cursor(5, full)
    yield 'fake: 2-d grid', lambda: with_fake_cursor([grid, grid], full)


if __name__ == '__main__':
    H.main(__file__, 'refactor3.diff', scenarios)
