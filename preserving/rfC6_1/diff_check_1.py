"""Differential check for refactor1.diff (rise.compute_rise_offsets:
reading of the epoch / water-level arrays and epoch position lookup)

Run as:  cd /tmp/rf_C && /venv/bin/python diff_check_1.py

"""

import os
import sys

sys.path.insert(0, os.path.dirname(os.path.abspath(__file__)))
import dc_common as dc  # noqa: E402

TABLES = ['rising_interval', 'rising_interval_zeta']


def run_rise(connection, reference_zeta_mm, direct=False):
    """Run the rise step; report outcome, transaction state and tables"""
    import spowtd.rise as rise_mod

    if direct:
        cursor = connection.cursor()
        result = dc.outcome(
            rise_mod.compute_rise_offsets, cursor, reference_zeta_mm
        )
    else:
        result = dc.outcome(
            rise_mod.find_rise_offsets, connection, reference_zeta_mm
        )
    state = (
        result,
        connection.in_transaction,
        dc.dump_tables(connection, TABLES),
    )
    connection.rollback()
    state += (dc.dump_tables(connection, TABLES),)
    return state


def handmade(tree, levels, storms, grid_interval_mm=1.0, step=600):
    """Small hand-made database

    levels: water levels at epochs 0, step, 2 * step...
    storms: (storm_start_i, storm_thru_i, zeta_start_i, zeta_thru_i,
             intensity_mm_h) in units of time steps

    """
    connection = dc.empty_schema_db(tree)
    connection.execute('PRAGMA foreign_keys = 0')
    connection.execute('PRAGMA ignore_check_constraints = 1')
    cursor = connection.cursor()
    n = len(levels)
    cursor.executemany(
        'INSERT INTO grid_time (epoch, data_interval) VALUES (?, 1)',
        [(i * step,) for i in range(n + 1)],
    )
    cursor.executemany(
        'INSERT INTO water_level (epoch, zeta_mm) VALUES (?, ?)',
        [(i * step, level) for i, level in enumerate(levels)],
    )
    for (s0, s1, z0, z1, intensity) in storms:
        cursor.execute(
            'INSERT INTO storm (start_epoch, thru_epoch) VALUES (?, ?)',
            (s0 * step, s1 * step),
        )
        cursor.executemany(
            """INSERT INTO rainfall_intensity
               (from_epoch, thru_epoch, rainfall_intensity_mm_h)
               VALUES (?, ?, ?)""",
            [(i * step, (i + 1) * step, intensity) for i in range(s0, s1)],
        )
        cursor.execute(
            """INSERT INTO zeta_interval
               (start_epoch, interval_type, thru_epoch)
               VALUES (?, 'storm', ?)""",
            (z0 * step, z1 * step),
        )
        cursor.execute(
            """INSERT INTO zeta_interval_storm
               (interval_start_epoch, interval_type, storm_start_epoch)
               VALUES (?, 'storm', ?)""",
            (z0 * step, s0 * step),
        )
    if grid_interval_mm is not None:
        import spowtd.zeta_grid as zeta_grid_mod

        zeta_grid_mod.populate_zeta_grid(connection, grid_interval_mm)
        # populate_zeta_grid leaves out the top level; add it so that
        # foreign keys are satisfiable
        cursor.execute(
            """INSERT OR IGNORE INTO discrete_zeta (zeta_number)
               SELECT max(zeta_number) + 1 FROM discrete_zeta"""
        )
    connection.commit()
    connection.execute('PRAGMA foreign_keys = 1')
    return connection


def scenarios(tree):
    results = {}

    # Sample data, as in the test suite, plus other grids / references
    for sample in (1, 2):
        for grid in (1.0, 0.5, 2.0, 2.5):
            connection = dc.gridded(tree, sample, grid)
            key = 'sample{}-grid{}'.format(sample, grid)
            results[key + '-noref'] = run_rise(connection, None)
            # References taken from what was found, and off grid
            numbers = sorted(
                row[0]
                for row in connection.execute(
                    'SELECT DISTINCT zeta_number FROM discrete_zeta'
                )
            )
            connection.close()
            picks = [
                numbers[0],
                numbers[len(numbers) // 3],
                numbers[len(numbers) // 2],
                numbers[-1],
            ]
            for number in picks:
                for delta in (0.0, 1e-7, 0.3 * grid):
                    reference = number * grid + delta
                    connection = dc.gridded(tree, sample, grid)
                    results[
                        '{}-ref{!r}'.format(key, reference)
                    ] = run_rise(connection, reference)
                    connection.close()
        # Integer reference, direct call with a cursor
        connection = dc.gridded(tree, sample, 1.0)
        results['sample{}-direct-int-ref'.format(sample)] = run_rise(
            connection, -300, direct=True
        )
        connection.close()
        # No zeta grid
        connection = dc.open_db(dc.classified_bytes(tree, sample))
        results['sample{}-nogrid'.format(sample)] = run_rise(connection, None)
        connection.close()
        # Second run on the same database: primary key violation
        connection = dc.gridded(tree, sample, 1.0)
        import spowtd.rise as rise_mod

        rise_mod.find_rise_offsets(connection)
        results['sample{}-rerun'.format(sample)] = run_rise(connection, None)
        connection.close()
        # Other classification thresholds
        connection = dc.gridded(tree, sample, 1.0, storm=4.0, jump=8.0)
        results['sample{}-thresholds'.format(sample)] = run_rise(
            connection, None
        )
        connection.close()

        # Damaged databases: epochs that are absent from water_level
        joined = """
        SELECT s.start_epoch, s.thru_epoch, zi.start_epoch, zi.thru_epoch
        FROM storm AS s
        JOIN zeta_interval_storm AS zis
          ON s.start_epoch = zis.storm_start_epoch
        JOIN zeta_interval AS zi
          ON zi.start_epoch = zis.interval_start_epoch
        ORDER BY s.start_epoch"""
        for which in (0, 3, -1):
            for label, statement in (
                (
                    'storm-thru-missing',
                    'UPDATE storm SET thru_epoch = thru_epoch + 7 '
                    'WHERE start_epoch = :s0',
                ),
                (
                    'zeta-thru-missing',
                    'UPDATE zeta_interval SET thru_epoch = thru_epoch + 7 '
                    'WHERE start_epoch = :z0',
                ),
                (
                    'zeta-thru-shorter',
                    'UPDATE zeta_interval SET thru_epoch = :z0 + '
                    '(SELECT time_step_s FROM time_grid) '
                    'WHERE start_epoch = :z0',
                ),
                (
                    'water-level-row-missing',
                    'DELETE FROM water_level WHERE epoch = :z1',
                ),
                (
                    'storm-start-row-missing',
                    'DELETE FROM water_level WHERE epoch = :s0',
                ),
                (
                    'not-increasing',
                    'UPDATE water_level SET zeta_mm = zeta_mm - 1000 '
                    'WHERE epoch = :z1',
                ),
                (
                    'not-finite',
                    'UPDATE water_level SET zeta_mm = 9e999 '
                    'WHERE epoch = :z1',
                ),
            ):
                connection = dc.gridded(tree, sample, 1.0)
                connection.execute('PRAGMA foreign_keys = 0')
                rows = connection.execute(joined).fetchall()
                (s0, s1, z0, z1) = rows[which]
                connection.execute(
                    statement, {'s0': s0, 's1': s1, 'z0': z0, 'z1': z1}
                )
                connection.commit()
                results[
                    'sample{}-{}-{}'.format(sample, label, which)
                ] = run_rise(connection, None)
                connection.close()

    # Empty database
    connection = dc.empty_schema_db(tree)
    results['empty'] = run_rise(connection, None)
    connection.close()

    # Hand-made databases
    rising = [0.0, 0.1, 0.2, 4.2, 9.9, 10.0, 10.1, 3.0, 3.1, 8.7, 14.2, 14.0]
    cases = {
        'two-storms': (rising, [(2, 4, 2, 4, 12.0), (8, 10, 8, 10, 9.0)]),
        'storm-at-end-of-record': (
            rising[:11],
            [(2, 4, 2, 4, 12.0), (8, 11, 8, 10, 9.0)],
        ),
        'storm-thru-past-record': (
            rising[:11],
            [(2, 4, 2, 4, 12.0), (8, 12, 8, 10, 9.0)],
        ),
        'storm-before-record': (
            rising,
            [(-1, 4, 2, 4, 12.0), (8, 10, 8, 10, 9.0)],
        ),
        'single-storm': (rising, [(2, 4, 2, 4, 12.0)]),
        'no-storm': (rising, []),
        'one-level-no-storm': ([1.5], []),
        'one-level': ([1.5], [(0, 1, 0, 1, 3.0)]),
        'two-levels': ([1.5, 7.5], [(0, 1, 0, 1, 3.0)]),
        'zero-length-interval': (rising, [(2, 4, 2, 2, 12.0)]),
        'reversed-interval': (rising, [(2, 4, 4, 2, 12.0)]),
        'disconnected': (
            [0.0, 3.0, 0.0, 10.0, 14.0, 0.0],
            [(0, 1, 0, 1, 5.0), (3, 4, 3, 4, 6.0)],
        ),
    }
    for name, (levels, storms) in cases.items():
        for grid in (1.0, 0.5, None):
            for reference in (None, 4.0, 4.25):
                connection = handmade(tree, levels, storms, grid)
                results[
                    'handmade-{}-grid{}-ref{}'.format(name, grid, reference)
                ] = run_rise(connection, reference)
                connection.close()
    return results


if __name__ == '__main__':
    if len(sys.argv) > 1 and sys.argv[1] == '--child':
        dc.child_main(scenarios)
    else:
        dc.run_driver(
            os.path.abspath(__file__), 'refactor1.diff', 'spowtd/rise.py'
        )
