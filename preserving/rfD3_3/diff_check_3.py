"""Differential check for refactor3.diff:
SplineTransmissivity.conductivity / __call__ / call_scalar"""

import sys

sys.path.insert(0, '/tmp/rf_D')
import dc_common  # noqa: E402  (removes /tmp/rf_D from sys.path again)


def worker():
    import io

    import numpy as np
    import yaml

    import spowtd.plot_transmissivity as plot_T_mod
    import spowtd.transmissivity as T_mod
    from spowtd.test import conftest

    attempt = dc_common.attempt
    results = {}
    with open(conftest.get_parameter_file_path('spline'), 'rt') as f:
        sample = yaml.safe_load(f)['transmissivity']
    parsets = {
        'sample': dict(sample),
        'three': dict(
            type='spline',
            zeta_knots_mm=[-100.0, 0.0, 50.0],
            K_knots_km_d=[1e-3, 2.0, 2.0],
            minimum_transmissivity_m2_d=0.5,
        ),
        'int_knots': dict(
            type='spline',
            zeta_knots_mm=[-3, -1, 4, 9],
            K_knots_km_d=[5, 1, 7, 70],
            minimum_transmissivity_m2_d=1,
        ),
        'zero_Tmin': dict(
            type='spline',
            zeta_knots_mm=(-10.0, 10.0),
            K_knots_km_d=(3.0, 1e-8),
            minimum_transmissivity_m2_d=0.0,
        ),
    }
    rng = np.random.default_rng(3)
    for name, pars in parsets.items():
        T = T_mod.create_transmissivity_function(dict(pars))
        lo, hi = float(T.zeta_knots_mm.min()), float(T.zeta_knots_mm.max())
        span = hi - lo
        scalars = [
            lo - span,
            np.nextafter(lo, -np.inf),
            lo,
            np.nextafter(lo, np.inf),
            lo + 1e-9,
            lo + 0.25 * span,
            0.5 * (lo + hi),
            np.float64(lo + 0.8 * span),
            np.nextafter(hi, -np.inf),
            hi,  # integration up to the highest knot
            hi + 1.0,  # beyond: NotImplementedError from inside quad
            int(np.ceil(lo)) + 1,
            int(np.floor(lo)) - 1,
            float('nan'),
            float('inf'),
            float('-inf'),
            True,
            np.float32(lo + 0.5 * span),
        ] + [float(k) for k in T.zeta_knots_mm]
        res = []
        for x in scalars:
            res.append(attempt(T, x))
            res.append(attempt(T.call_scalar, x))
            res.append(attempt(T.conductivity, x))
        results[name + ':scalar'] = res
        grid = np.linspace(lo - 0.1 * span, hi - 1e-6 * span, 57)
        nonscalars = [
            grid,
            list(grid[:9]),
            tuple(grid[:4]),
            rng.uniform(lo, hi, 25),
            grid.astype('float32'),
            np.array([lo, hi + 1.0]),  # raises part way
            np.array([]),
            [],
            np.array(lo + 0.5 * span),  # 0-d array: not a scalar
            grid[:6].reshape(2, 3),
            [[lo - 1.0], [lo - 2.0]],
            None,
            'ab',
            {lo - 1.0: 1},
            range(int(lo) - 2, int(lo) + 3),
        ]
        res = [attempt(T, x) for x in nonscalars]
        res.append(attempt(T, (v for v in grid[:5])))
        res.append(attempt(T.call_scalar, grid))
        res.append(attempt(T.conductivity, grid))
        res.append(attempt(T.call_scalar, None))
        res.append(attempt(T.conductivity, None))
        results[name + ':nonscalar'] = res

    # Through the CLI-level dump function on the sample parameter file
    def dump(lo_cm, hi_cm, n):
        out = io.StringIO()
        with open(conftest.get_parameter_file_path('spline'), 'rt') as f:
            plot_T_mod.dump_transmissivity(f, lo_cm, hi_cm, n, out)
        return out.getvalue()

    results['dump'] = [
        attempt(dump, -40.0, 99.0, 30),
        attempt(dump, -29.17, 16.83, 11),
        attempt(dump, -10.0, 120.0, 5),
    ]
    return results


if __name__ == '__main__':
    dc_common.run(3, __file__)
