"""Differential check for refactor5.diff: user_interface.main"""

import sys

sys.path.insert(0, '/tmp/rf_D')
import dc_common  # noqa: E402  (removes /tmp/rf_D from sys.path again)


def worker():
    import contextlib
    import gc
    import io
    import os
    import sqlite3
    import tempfile

    import spowtd.user_interface as cli_mod
    from spowtd.test import conftest

    attempt = dc_common.attempt
    results = {}
    tmpdir = tempfile.mkdtemp(prefix='dc5_', dir=os.getcwd())
    os.chdir(tmpdir)

    def run(argv, outputs=(), db=None):
        """Run the CLI; collect exit status, stdout, stderr, files, db"""
        stdout, stderr = io.StringIO(), io.StringIO()
        with contextlib.redirect_stdout(stdout), contextlib.redirect_stderr(
            stderr
        ):
            status = attempt(cli_mod.main, list(argv))
        gc.collect()  # flush files left open by argparse.FileType
        files = []
        for path in outputs:
            if os.path.exists(path):
                with open(path, 'rt') as f:
                    files.append(f.read())
            else:
                files.append(None)
        dump = None
        if db is not None:
            if os.path.exists(db):
                connection = sqlite3.connect(db)
                dump = list(connection.iterdump())
                connection.close()
            else:
                dump = 'no file'
        return dc_common.canon(
            [stdout.getvalue(), stderr.getvalue(), files, dump]
        ), status

    pars = {
        name: conftest.get_parameter_file_path(name)
        for name in ('peatclsm', 'spline')
    }

    # 1. Invocations that exit before doing any work
    results['early'] = [
        run(argv, db='never.sqlite3')
        for argv in (
            [],
            ['--version'],
            ['--help'],
            ['plot'],
            ['simulate'],
            ['pestfiles'],
            ['plot', '-v'],
            ['simulate', '--logfile', 'early.log'],
            ['bogus'],
            ['recession'],
            ['rise', 'never.sqlite3', '-r'],
            ['plot', 'bogus'],
            ['simulate', 'rise'],
            ['pestfiles', 'rise', 'never.sqlite3', pars['spline'], 'xyz'],
        )
    ]

    # 2. Tasks on a database that does not exist yet / has no schema
    results['fresh'] = [
        run(argv, db=argv[1] if argv[0] != 'simulate' else argv[2])
        for argv in (
            ['recession', 'fresh1.sqlite3'],
            ['rise', 'fresh2.sqlite3', '-r', '3.5'],
            ['set-curvature', 'fresh3.sqlite3', '1.5'],
            ['classify', 'fresh4.sqlite3', '-s', '8', '-j', '5'],
            ['set-zeta-grid', 'fresh5.sqlite3'],
            ['simulate', 'rise', 'fresh6.sqlite3', pars['spline']],
        )
    ]
    results['fresh'] += [
        run(
            ['pestfiles', 'curves', 'fresh7.sqlite3', pars['spline'], 'pst'],
            db='fresh7.sqlite3',
        ),
        run(['plot', 'rise', 'fresh8.sqlite3'], db='fresh8.sqlite3'),
        run(['plot', 'recession', 'fresh9.sqlite3'], db='fresh9.sqlite3'),
        run(['plot', 'time-series', 'fresh10.sqlite3'], db='fresh10.sqlite3'),
    ]

    # 3. Plots of hydraulic functions: no database involved
    nodb = []
    for kind in ('specific-yield', 'transmissivity'):
        for name, lo, hi in (('peatclsm', '-80', '0.5'), ('spline', '-29', '16')):
            nodb.append(
                run(
                    ['plot', kind, pars[name], lo, hi, '-n', '23', '-d', 'dump.txt'],
                    outputs=['dump.txt'],
                )
            )
            os.remove('dump.txt')
            nodb.append(run(['plot', kind, pars[name], lo, hi, '-n', '7']))
    nodb.append(run(['plot', 'conductivity', pars['spline'], '-10', '10']))
    nodb.append(run(['plot', 'transmissivity', pars['spline'], '-10', '200']))
    results['nodb'] = nodb
    assert not [n for n in os.listdir('.') if n.endswith('.sqlite3-journal')]

    # 4. The whole pipeline on both sample data sets
    for sample in (1, 2):
        db = 'sample{}.sqlite3'.format(sample)
        steps = []
        steps.append(
            run(
                [
                    'load',
                    db,
                    '-p',
                    conftest.get_sample_file_path('precipitation', sample),
                    '-e',
                    conftest.get_sample_file_path('evapotranspiration', sample),
                    '-z',
                    conftest.get_sample_file_path('water_level', sample),
                    '--timezone',
                    'Africa/Lagos',
                ],
                db=db,
            )
        )
        steps.append(
            run(
                ['classify', db, '-s', '8.0', '-j', '5.0', '-vv', '--logfile', 'classify.log'],
                outputs=['classify.log'],
                db=db,
            )
        )
        steps.append(run(['set-zeta-grid', db, '-d', '1.0'], db=db))
        # Before rise / recession have been assembled
        steps.append(
            run(
                ['pestfiles', 'rise', db, pars['spline'], 'pst', '-o', 'early.pst'],
                outputs=['early.pst'],
                db=db,
            )
        )
        steps.append(run(['set-curvature', db, '1.0'], db=db))
        steps.append(run(['set-curvature', db, '-2.5'], db=db))
        steps.append(
            run(
                ['rise', db, '-vvvvv', '--logfile', 'rise.log'],
                outputs=['rise.log'],
                db=db,
            )
        )
        steps.append(run(['recession', db, '-v'], db=db))
        reference_zeta_mm = '-50.0' if sample == 1 else '-250.0'
        steps.append(run(['rise', db, '-r', reference_zeta_mm], db=db))
        steps.append(run(['recession', db, '-r', reference_zeta_mm], db=db))
        steps.append(run(['rise', db, '-r', '1e9'], db=db))
        steps.append(run(['rise', db], db=db))
        steps.append(run(['recession', db], db=db))
        results['pipeline{}'.format(sample)] = steps
        products = []
        for name in ('peatclsm', 'spline'):
            for curve in ('rise', 'recession'):
                products.append(run(['simulate', curve, db, pars[name]], db=db))
                products.append(
                    run(
                        ['simulate', curve, db, pars[name], '--observations', '-o', 'sim.yml'],
                        outputs=['sim.yml'],
                        db=db,
                    )
                )
            for target in ('rise', 'curves'):
                for kind in ('tpl', 'ins', 'pst'):
                    products.append(
                        run(['pestfiles', target, db, pars[name], kind], db=db)
                    )
                    products.append(
                        run(
                            ['pestfiles', target, db, pars[name], kind, '-o', 'pest.out'],
                            outputs=['pest.out'],
                            db=db,
                        )
                    )
            products.append(run(['plot', 'rise', db, '-p', pars[name]], db=db))
            products.append(
                run(['plot', 'recession', db, '-p', pars[name]], db=db)
            )
        products.append(run(['plot', 'rise', db], db=db))
        products.append(run(['plot', 'recession', db], db=db))
        products.append(run(['plot', 'time-series', db, '-f', '-e'], db=db))
        products.append(
            run(['plot', 'time-series', db, '--timezone', 'UTC', '-w', '2'], db=db)
        )
        results['products{}'.format(sample)] = products
    return results


if __name__ == '__main__':
    dc_common.run(5, __file__)
