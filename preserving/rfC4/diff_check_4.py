"""Differential check for refactor4.diff (spowtd/simulate_recession.py)

Compares, between the original and the refactored package:
 - compute_recession_curve on regular, irregular, single-point, empty
   and list grids for both parameterizations, several curvatures and
   ET values, including failing assertions (arrays compared bytewise,
   exceptions by type and message);
 - the arrays returned by simulate_recession and the text written by
   dump_simulated_recession (both output modes, both
   parameterizations) for the two sample data sets and synthetic data
   sets; curvature not set (ValueError); no recession curve; bad
   parameter files;
 - the output file of the CLI "spowtd simulate recession".

"""

import gc
import io
import os
import sqlite3
import tempfile

import dc_harness as h


def worker():
    import numpy as np
    import yaml

    import spowtd.simulate_recession as simulate_recession_mod
    import spowtd.specific_yield as specific_yield_mod
    import spowtd.transmissivity as transmissivity_mod
    import spowtd.user_interface as cli_mod

    cases = []
    rng = np.random.default_rng(7)
    grids = [
        np.linspace(-250.0, 100.0, 10),
        np.sort(rng.uniform(-290.0, 100.0, 23)),
        np.array([-20.0, -100.0, 30.0, 30.0, 12.5]),
        np.array([3.25]),
        np.array([]),
        np.arange(-50, 50, 7),
        [-10.0, 0.0, 10.0],
    ]
    settings = [
        {'mean_elapsed_time_d': 19.0, 'curvature_km': 2.36e-3, 'et_mm_d': 4.15},
        {'mean_elapsed_time_d': 0, 'curvature_km': 0.0, 'et_mm_d': 1.0},
        {'mean_elapsed_time_d': -2.5, 'curvature_km': 1e-4, 'et_mm_d': 0.0},
        {'mean_elapsed_time_d': 1.0, 'curvature_km': -1e-3, 'et_mm_d': 1.0},
        {'mean_elapsed_time_d': 1.0, 'curvature_km': 1e-3, 'et_mm_d': -1.0},
    ]
    for parameterization in ('spline', 'peatclsm'):
        for grid in grids:
            for kwargs in settings:
                parameters = yaml.safe_load(
                    h.parameter_text(parameterization)
                )
                specific_yield = (
                    specific_yield_mod.create_specific_yield_function(
                        parameters['specific_yield']
                    )
                )
                transmissivity = (
                    transmissivity_mod.create_transmissivity_function(
                        parameters['transmissivity']
                    )
                )
                result = h.outcome(
                    simulate_recession_mod.compute_recession_curve,
                    specific_yield,
                    transmissivity,
                    grid,
                    **kwargs
                )
                cases.append((result, np.array(grid)))
    print('  compute_recession_curve cases:', len(cases), flush=True)

    def dump_cases(connection, name):
        for parameterization in ('spline', 'peatclsm'):
            result = h.outcome(
                simulate_recession_mod.simulate_recession,
                connection,
                io.StringIO(h.parameter_text(parameterization)),
            )
            cases.append(result)
            for observations_only in (False, True):
                outfile = io.StringIO()
                result = h.outcome(
                    simulate_recession_mod.dump_simulated_recession,
                    connection,
                    io.StringIO(h.parameter_text(parameterization)),
                    outfile,
                    observations_only,
                )
                print(
                    '  ',
                    name,
                    parameterization,
                    observations_only,
                    result,
                    len(outfile.getvalue()),
                    flush=True,
                )
                cases.append((result, outfile.getvalue()))

    datasets = [
        ('sample 1', h.sample_files(1), {}),
        ('sample 2', h.sample_files(2), {'curvature_m_km2': 0.0}),
        ('synthetic 0', h.synthetic_files(0), {}),
        (
            'synthetic 1',
            h.synthetic_files(1),
            {'grid_interval_mm': 2.5, 'curvature_m_km2': 11.0},
        ),
        ('synthetic 2, no curvature', h.synthetic_files(2), {'curvature_m_km2': None}),
    ]
    for name, files, kwargs in datasets:
        connection = h.make_curves_connection(files, **kwargs)
        dump_cases(connection, name)
        if name == 'synthetic 0':
            # Bad parameter files
            for text in (
                'specific_yield:\n  type: spline\n',
                'transmissivity:\n  alpha: 1\n',
                h.parameter_text('spline').replace(
                    'transmissivity:\n  type: spline',
                    'transmissivity:\n  type: cubic',
                ),
                h.parameter_text('peatclsm').replace(
                    'specific_yield:\n  type: peatclsm',
                    'specific_yield:\n  typo: peatclsm',
                ),
            ):
                cases.append(
                    h.outcome(
                        simulate_recession_mod.simulate_recession,
                        connection,
                        io.StringIO(text),
                    )
                )
                print('   bad parameters', cases[-1], flush=True)
        if name in ('synthetic 0', 'synthetic 1'):
            # CLI
            with tempfile.TemporaryDirectory() as tmpdir:
                db_path = os.path.join(tmpdir, 'db.sqlite3')
                # (backup blocks while a transaction is open)
                connection.commit()
                with sqlite3.connect(db_path) as disk_connection:
                    connection.backup(disk_connection)
                disk_connection.close()
                for parameterization in ('spline', 'peatclsm'):
                    for flags in ([], ['--observations']):
                        par_path = os.path.join(tmpdir, 'par.yml')
                        out_path = os.path.join(tmpdir, 'out.yml')
                        with open(par_path, 'wt') as par_file:
                            par_file.write(h.parameter_text(parameterization))
                        status = h.outcome(
                            cli_mod.main,
                            ['simulate', 'recession', db_path, par_path]
                            + ['-o', out_path]
                            + flags,
                        )
                        gc.collect()
                        with open(out_path, 'rt') as out_file:
                            text = out_file.read()
                        print('   CLI', status, len(text), flush=True)
                        cases.append((status, text))
        connection.close()
    # Recession curve not assembled, curvature set
    import spowtd.set_curvature as set_curvature_mod

    connection = h.make_connection(h.synthetic_files(3, n_days=10))
    set_curvature_mod.set_curvature(connection, curvature_m_km2=1.0)
    dump_cases(connection, 'no recession curve')
    # Database not loaded at all
    cases.append(
        h.outcome(
            simulate_recession_mod.simulate_recession,
            sqlite3.connect(':memory:'),
            io.StringIO(h.parameter_text('spline')),
        )
    )
    return cases


if __name__ == '__main__':
    h.run(4, __file__)
