"""Differential check for refactor5.diff (spowtd/zeta_grid.py)

populate_zeta_grid on the loaded sample data sets and on synthetic
water_level tables (mixed-sign, all-negative, all-positive, exact multiples
of the step, a single level, empty table) with many grid steps (float, int,
numpy scalar, negative, zero, None, string, nan, inf), called twice (singleton
violation), with keyword arguments and through the CLI.  Compares table
contents with storage classes, transaction state, change counts, exceptions.

"""

import dc_common as dc

TABLES = ['zeta_grid', 'discrete_zeta']


def collect():
    import os
    import sqlite3
    import tempfile

    import numpy as np

    import spowtd.load as load_mod
    import spowtd.user_interface as cli_mod
    import spowtd.zeta_grid as zeta_grid_mod

    results = {}

    def synthetic_connection(levels):
        connection = sqlite3.connect(':memory:')
        with open(load_mod.SCHEMA_PATH, 'rt') as schema_file:
            connection.executescript(schema_file.read())
        for i, level in enumerate(levels):
            connection.execute(
                'INSERT INTO grid_time (epoch) VALUES (?)', (i * 600,)
            )
            connection.execute(
                'INSERT INTO water_level (epoch, zeta_mm) VALUES (?, ?)',
                (i * 600, level),
            )
        connection.commit()
        return connection

    def observe(connection, *args, **kwargs):
        changes_before = connection.total_changes
        outcome = dc.attempt(
            zeta_grid_mod.populate_zeta_grid, connection, *args, **kwargs
        )
        return (
            outcome,
            connection.in_transaction,
            connection.total_changes - changes_before,
            dc.dump_tables(connection, TABLES),
        )

    rng = np.random.default_rng(5)
    level_sets = {
        'mixed': [-283.9, -12.0, 12.4, 3.3],
        'multiples': [0.0, 10.0, -20.0, 5.0],
        'single': [5.5],
        'negative': [-10.0, -2.0, -7.25],
        'positive': [3.0, 9.0, 8.999],
        'integers': [-4, 7, 2],
        'random': rng.normal(-100, 80, size=50).tolist(),
        'empty': [],
    }
    steps = {
        '1.0': 1.0,
        '2.5': 2.5,
        '0.5': 0.5,
        '0.1': 0.1,
        '10': 10,
        '3': 3,
        'np2.0': np.float64(2.0),
        'np-int': np.int64(4),
        '-1.0': -1.0,
        '0': 0,
        '0.0': 0.0,
        'None': None,
        'string': 'abc',
        'numeric-string': '2.0',
        'nan': float('nan'),
        'inf': float('inf'),
        'list': [1.0],
    }
    for level_label, levels in level_sets.items():
        for step_label, step in steps.items():
            connection = synthetic_connection(levels)
            first = observe(connection, step)
            second = observe(connection, step)
            results[('synthetic', level_label, step_label)] = dc.canon(
                (first, second)
            )
            connection.close()
        connection = synthetic_connection(levels)
        results[('synthetic-kw', level_label)] = dc.canon(
            observe(connection, grid_interval_mm=1.5)
        )
        connection.close()

    for sample in (1, 2):
        loaded = dc.load_connection(
            dc.sample_text('precipitation', sample),
            dc.sample_text('evapotranspiration', sample),
            dc.sample_text('water_level', sample),
        )
        for step in (1.0, 2.5, 0.25, 7):
            connection = dc.clone(loaded)
            results[('sample', sample, step)] = dc.canon(
                observe(connection, step)
            )
            connection.close()
        transformed = dc.load_connection(
            dc.sample_text('precipitation', sample),
            dc.sample_text('evapotranspiration', sample),
            dc.transform_water_level(
                dc.sample_text('water_level', sample),
                scale=0.37,
                shift=55.5,
                first=1000,
                last=9000,
            ),
        )
        for step in (1.0, 0.4):
            connection = dc.clone(transformed)
            results[('transformed', sample, step)] = dc.canon(
                observe(connection, step)
            )
            connection.close()
        transformed.close()
        # Through the CLI
        with tempfile.TemporaryDirectory() as tmp:
            db_path = os.path.join(tmp, 'spowtd.sqlite3')
            on_disk = sqlite3.connect(db_path)
            loaded.backup(on_disk)
            on_disk.close()
            status = cli_mod.main(
                ['set-zeta-grid', db_path, '--water-level-step-mm', '2.0']
            )
            on_disk = sqlite3.connect(db_path)
            results[('cli', sample)] = dc.canon(
                (status, dc.dump_tables(on_disk, TABLES))
            )
            on_disk.close()
        loaded.close()
    return results


if __name__ == '__main__':
    dc.main(5, __file__, collect)
