"""Differential check for refactor3.diff (zeta_grid.py: unpacked bounds,
execute loop instead of executemany over a list)"""

import sqlite3

import numpy as np

import diff_common as dc

orig, new = dc.load_pair(3, 'zeta_grid')
load_mod = dc.load_module(dc.ROOT, 'load', 'wt_load')
n = 0

# Serialized loaded sample databases, to clone cheaply
SAMPLES = {}
for sample in (1, 2):
    conn = dc.loaded_db(load_mod, sample)
    SAMPLES[sample] = conn.serialize()
    conn.close()


def clone(sample, prepare=None, isolation_level=''):
    conn = sqlite3.connect(':memory:', isolation_level=isolation_level)
    conn.deserialize(SAMPLES[sample])
    if prepare is not None:
        prepare(conn)
        conn.commit()
    conn.execute('PRAGMA foreign_keys = 1')
    return conn


def synthetic(levels):
    def make(isolation_level=''):
        conn = sqlite3.connect(':memory:', isolation_level=isolation_level)
        with open(load_mod.SCHEMA_PATH, 'rt') as f:
            conn.executescript(f.read())
        conn.executemany('INSERT INTO grid_time (epoch) VALUES (?)',
                         [(i,) for i in range(len(levels))])
        conn.executemany('INSERT INTO water_level VALUES (?, ?)',
                         list(enumerate(levels)))
        conn.commit()
        return conn
    return make


def occupy(number):
    def prepare(conn):
        # foreign keys are not enforced yet at this point
        conn.execute('INSERT INTO discrete_zeta (zeta_number) VALUES (?)',
                     (number,))
    return prepare


def grid_exists(conn):
    conn.execute('INSERT INTO zeta_grid (grid_interval_mm) VALUES (3.0)')


def no_levels(conn):
    conn.execute('DELETE FROM water_level')


def dump(conn):
    """Contents (with rowids and value types) of the tables the function can
    touch, plus a fingerprint of the table it reads"""
    cur = conn.cursor()
    out = []
    for table in ('zeta_grid', 'discrete_zeta'):
        rows = cur.execute('SELECT rowid, * FROM ' + table).fetchall()
        out.append([tuple((type(v).__name__, v) for v in r) for r in rows])
    out.append(cur.execute(
        'SELECT count(*), total(zeta_mm), total(epoch) FROM water_level'
    ).fetchone())
    out.append(cur.execute(
        'SELECT name, sql FROM sqlite_master ORDER BY name').fetchall())
    return out


def compare(make, interval):
    global n
    results = []
    for mod in (orig, new):
        for isolation_level in ('', None):
            conn = make(isolation_level=isolation_level)
            before = conn.total_changes
            r = dc.outcome(mod.populate_zeta_grid, conn, interval)
            state = (r, conn.in_transaction, conn.total_changes - before,
                     dump(conn))
            conn.rollback()
            state += (dump(conn),)
            results.append(state)
    assert results[0] == results[2], (interval, results[0][:3], results[2][:3])
    assert results[1] == results[3], (interval, results[1][:3], results[3][:3])
    n += 1
    return results[0][0]


INTERVALS = [1.0, 0.5, 2.5, 10, 7, 1000.0, 1e9, -1.0, -250.0, 0, 0.0,
             np.float64(1.5), np.int64(2), np.float32(0.1), float('inf'),
             float('nan'), 1e-320, '1.0', None, [1.0], 3, True]
for sample in (1, 2):
    for interval in INTERVALS:
        if isinstance(interval, float) and 0 < abs(interval) < 0.4:
            continue
        compare(lambda isolation_level, s=sample: clone(
            s, isolation_level=isolation_level), interval)
    # zeta_grid singleton already present; discrete_zeta partly occupied;
    # empty water_level
    for prepare in (grid_exists, occupy(-300), occupy(-100), occupy(0),
                    occupy(10 ** 6), no_levels):
        for interval in (1.0, 2.0, -1.0):
            compare(lambda isolation_level, s=sample, p=prepare: clone(
                s, p, isolation_level), interval)

LEVELS = [
    [0.0], [-0.0], [1.0, 1.0], [-3.5, 2.5], [2.0, 3.0], [-3.0, -2.0],
    [0.1, 0.2], [-1e-9, 1e-9], [5.0, -5.0, 0.0], [1e15, 1e15 + 2],
    [-7.25], [3.0000000000000004, 3.0], [float('inf')], [-1e308, 1e308],
]
for levels in LEVELS:
    for interval in (1.0, 0.5, 0.1, 3, -2.0, 1e-300, 0.0,
                     np.float64(0.25)):
        if max(abs(v) for v in levels) / (abs(interval) or 1) > 1e6:
            # avoid gigantic ranges, but keep overflow/inf cases
            if not any(np.isinf(v) for v in levels) and interval != 1e-300:
                continue
        if interval == 1e-300 and any(0 < abs(v) < 1e290 for v in levels):
            continue
        compare(synthetic(levels), interval)

# On the samples, the non-error result must be what we expect
r = compare(lambda isolation_level: clone(1, isolation_level=isolation_level),
            1.0)
assert r == ('ok', None)
print('diff_check_3 OK ({} comparisons)'.format(n))
