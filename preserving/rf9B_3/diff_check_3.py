#!/venv/bin/python
"""Differential check for refactor3.diff: spowtd.regrid.regrid

The validation of the arguments is moved into has_points_to_regrid
(which returns whether there is anything to do, or raises), the choice
of the integers between two knots into get_targets_between (one range
call on ordered bounds, reversed in place when going down), and the
lambda given to brentq into the closure made by get_offset_function.
regrid stays a generator, so the validation still happens when the
first item is asked for.

Runs the scenarios below twice in sub-processes, once against the tree
of HEAD (exported with git archive into a temporary directory) and once
against the work tree (which must have the refactoring applied), and
compares the outcomes exactly: every item yielded (types and bytes of
the floats), the exception type and message and after how many items
it was raised, what the generator does afterwards, send / throw / close,
and that the arguments are left as they were.  Also the sample data
taken through load, classify, zeta grid, rise and recession offsets,
comparing the arguments and results of every call of
get_series_time_offsets and the dump of the database.

Usage: PYTHONPATH=/tmp/wt/rf9_B /venv/bin/python diff_check_3.py
"""

import hashlib
import importlib
import io
import os
import pickle
import subprocess
import sys
import tempfile

HERE = os.path.dirname(os.path.abspath(__file__))
PATCH = 'refactor3.diff'
MODULE_NAME = 'spowtd.regrid'
MODULE = 'spowtd/regrid.py'
MARKER = 'def has_points_to_regrid('
SAMPLE_DATA_DIR = os.path.join(HERE, 'spowtd', 'test', 'sample_data')


# ---------------------------------------------------------------- canon


def canon(obj):
    """Describe obj exactly (type, dtype, bytes) with plain objects"""
    import numpy as np

    if isinstance(obj, np.ndarray):
        if obj.dtype == object:
            return ('ndarray-object', obj.shape, [canon(v) for v in obj.flat])
        return ('ndarray', obj.dtype.str, obj.shape, obj.tobytes())
    if isinstance(obj, np.generic):
        return ('npscalar', type(obj).__name__, obj.dtype.str, obj.tobytes())
    if isinstance(obj, bool) or obj is None:
        return ('const', repr(obj))
    if isinstance(obj, int):
        return ('int', obj)
    if isinstance(obj, float):
        return ('float', obj.hex())
    if isinstance(obj, (str, bytes)):
        return (type(obj).__name__, obj)
    if isinstance(obj, (list, tuple)):
        return (type(obj).__name__, [canon(v) for v in obj])
    if isinstance(obj, dict):
        # order of insertion is part of the result
        return ('dict', [(canon(k), canon(v)) for k, v in obj.items()])
    if isinstance(obj, (set, frozenset)):
        return (type(obj).__name__, sorted(repr(canon(v)) for v in obj))
    if isinstance(obj, BaseException):
        return (
            'exception',
            type(obj).__module__ + '.' + type(obj).__qualname__,
            str(obj),
            canon(obj.args),
        )
    return ('other', type(obj).__name__, repr(obj))


def call(function, *args, **kwargs):
    """Outcome of a call: its value or its exception"""
    try:
        return ('returned', canon(function(*args, **kwargs)))
    except BaseException as exc:  # pylint: disable=broad-except
        return ('raised', canon(exc))


# ------------------------------------------------------------ scenarios


def drain(make_generator):
    """Items yielded by a generator one by one, then how it ended"""
    try:
        generator = make_generator()
    except BaseException as exc:  # pylint: disable=broad-except
        return {'outcome': ('raised', canon(exc)), 'where': 'on call'}
    items = []
    try:
        for item in generator:
            items.append(canon(item))
    except BaseException as exc:  # pylint: disable=broad-except
        return {
            'outcome': ('raised', canon(exc)),
            'where': 'after {} items'.format(len(items)),
            'items': items,
            'then': call(next, generator, 'exhausted'),
        }
    return {
        'outcome': ('returned', len(items)),
        'items': items,
        'then': call(next, generator, 'exhausted'),
    }


def run_pipeline(sample):
    """Sample data through to the rise and recession offsets"""
    import sqlite3
    import spowtd.classify as classify_mod
    import spowtd.load as load_mod
    import spowtd.recession as recession_mod
    import spowtd.rise as rise_mod
    import spowtd.zeta_grid as zeta_grid_mod

    connection = sqlite3.connect(':memory:')
    files = [
        open(
            os.path.join(SAMPLE_DATA_DIR, '{}_{}.txt'.format(kind, sample)),
            'rt',
            encoding='utf-8-sig',
        )
        for kind in ('precipitation', 'evapotranspiration', 'water_level')
    ]
    load_mod.load_data(connection, *files, 'Africa/Lagos')
    for data_file in files:
        data_file.close()
    classify_mod.classify_intervals(
        connection, storm_rain_threshold_mm_h=8.0,
        rising_jump_threshold_mm_h=5.0,
    )
    zeta_grid_mod.populate_zeta_grid(connection, grid_interval_mm=1.0)
    calls = []

    def recording(function):
        def wrapper(*args, **kwargs):
            before = canon((args, kwargs))
            try:
                result = function(*args, **kwargs)
            except BaseException as exc:
                calls.append((before, ('raised', canon(exc)),
                              canon((args, kwargs)) == before))
                raise
            calls.append((before, ('returned', canon(result)),
                          canon((args, kwargs)) == before))
            return result

        return wrapper

    rise_mod.get_series_time_offsets = recording(
        rise_mod.get_series_time_offsets
    )
    recession_mod.get_series_time_offsets = recording(
        recession_mod.get_series_time_offsets
    )
    outcomes = [
        call(rise_mod.find_rise_offsets, connection),
        call(recession_mod.find_recession_offsets, connection),
    ]
    dump = '\n'.join(connection.iterdump())
    result = {
        'outcome': ('returned', outcomes),
        'calls': hashlib.sha256(pickle.dumps(calls)).hexdigest(),
        'number of calls': len(calls),
        'series per call': [len(before[1][0][1][0][1]) for before, _, _
                            in calls],
        'call outcomes': [outcome[0] for _, outcome, _ in calls],
        'dump': (len(dump), hashlib.sha256(dump.encode('utf-8')).hexdigest()),
        'offsets': connection.execute(
            'SELECT * FROM rising_interval ORDER BY 1'
        ).fetchall() + connection.execute(
            'SELECT * FROM recession_interval ORDER BY 1'
        ).fetchall(),
    }
    connection.close()
    return result


def scenarios():
    import numpy as np
    import spowtd.regrid as regrid_mod

    regrid = regrid_mod.regrid
    results = []
    for sample in (1, 2):
        results.append(('pipeline sample {}'.format(sample),
                        run_pipeline(sample)))

    def add(name, *args, **kwargs):
        before = canon((args, kwargs))
        result = drain(lambda: regrid(*args, **kwargs))
        result['arguments unchanged'] = canon((args, kwargs)) == before
        results.append((name, result))

    rng = np.random.default_rng(20260927)
    kinds = ('linear', 'nearest', 'nearest-up', 'zero', 'slinear',
             'quadratic', 'cubic', 'previous', 'next')
    steps = (1.0, 0.5, 0.1, 3.0, 7, -1.0, -0.25, 1e-3 * 37)
    series = {}
    n = 12
    x = np.cumsum(rng.uniform(0.5, 2.0, n))
    series['rising'] = (x, np.cumsum(rng.uniform(0.0, 3.0, n)) - 5.0)
    series['falling'] = (x, 20.0 - np.cumsum(rng.uniform(0.0, 3.0, n)))
    series['wandering'] = (x, rng.normal(0.0, 4.0, n))
    series['on multiples'] = (
        x, np.array([0., 1., 3., 3., 2., -1., -1., 0., 4., 4.5, 4., 0.]))
    series['constant'] = (x, np.full(n, 2.0))
    series['constant, off multiple'] = (x, np.full(n, 2.5))
    series['small range'] = (x, 0.2 + 0.05 * rng.uniform(size=n))
    series['integer y'] = (x, rng.integers(-6, 7, n))
    series['integer x and y'] = (np.arange(n), rng.integers(-6, 7, n))
    series['float32'] = (x.astype('float32'),
                         rng.normal(0.0, 4.0, n).astype('float32'))
    series['x a list'] = (list(range(5)),
                          np.array([2.0, 5.2, -1.3, -1.2, 10.0]))
    series['x a tuple'] = (tuple(range(5)),
                           np.array([2.0, 5.2, -1.3, -1.2, 10.0]))
    series['two points'] = (np.array([0.0, 1.0]), np.array([-2.5, 3.5]))
    series['three points'] = (np.array([0.0, 1.0, 3.0]),
                              np.array([-2.5, 3.5, 1.0]))
    series['long'] = (np.arange(150.0),
                      np.cumsum(rng.normal(0.0, 0.8, 150)))
    for series_name, (xs, ys) in series.items():
        for kind in kinds:
            for step in steps:
                if series_name == 'long' and step not in (1.0, -0.25, 3.0):
                    continue
                add('{} / {} / {}'.format(series_name, kind, step),
                    xs, ys, step, interpolant=kind)
        add('{} / default interpolant'.format(series_name), xs, ys, 1.0)
        add('{} / positional interpolant'.format(series_name),
            xs, ys, 2.0, 'slinear')

    xs, ys = series['wandering']
    odd = {
        'lengths unequal': (xs, ys[:-1], 1.0),
        'lengths unequal, x empty': (xs[:0], ys, 1.0),
        'lengths unequal, y not finite': (xs[:-2], ys * np.nan, 1.0),
        'both empty arrays': (xs[:0], ys[:0], 1.0),
        'both empty lists': ([], [], 1.0),
        'empty, step zero': ([], [], 0),
        'empty, step None': ([], [], None),
        'empty, bad interpolant': ([], [], 1.0, 'wavy'),
        'one point': (xs[:1], ys[:1], 1.0),
        'one point, y not finite': (xs[:1], np.array([np.nan]), 1.0),
        'nan in y': (xs, np.where(np.arange(n) == 4, np.nan, ys), 1.0),
        'inf in y': (xs, np.where(np.arange(n) == 4, np.inf, ys), 1.0),
        '-inf at end of y': (xs, np.where(np.arange(n) == n - 1, -np.inf, ys),
                             1.0),
        'nan in x': (np.where(np.arange(n) == 4, np.nan, xs), ys, 1.0),
        'inf in x': (np.where(np.arange(n) == n - 1, np.inf, xs), ys, 1.0),
        'y a list': (list(xs), list(ys), 1.0),
        'y a list of ints': (list(range(4)), [1, 5, 2, 8], 1.0),
        'y a tuple': (xs, tuple(ys), 1.0),
        'y a list with nan': (list(xs), [float('nan')] * n, 1.0),
        'y strings': (xs, np.array(['a'] * n), 1.0),
        'y objects': (xs, np.array(list(ys), dtype=object), 1.0),
        'y complex': (xs, ys.astype(complex), 1.0),
        'y bool': (xs, ys > 0, 1.0),
        'x strings': ([str(v) for v in xs], ys, 1.0),
        'x not sorted': (xs[::-1], ys, 1.0),
        'x shuffled': (rng.permutation(xs), ys, 1.0),
        'x repeated': (np.repeat(xs[::2], 2), ys, 1.0),
        'x constant': (np.zeros(n), ys, 1.0),
        'x a dict': (dict(enumerate(xs)), ys, 1.0),
        'x a string': ('abcdefghijkl', ys, 1.0),
        'x an iterator': (iter(xs), ys, 1.0),
        'y an iterator': (xs, iter(ys), 1.0),
        'x None': (None, ys, 1.0),
        'y None': (xs, None, 1.0),
        'x a number': (3.0, ys, 1.0),
        'y a number': (xs, 3.0, 1.0),
        'both zero-dimensional': (np.array(1.0), np.array(2.0), 1.0),
        'y two-dimensional': (xs, np.tile(ys, (2, 1)).T, 1.0),
        'y two-dimensional, one column': (xs, ys.reshape((-1, 1)), 1.0),
        'y two-dimensional, one row': (xs[:1], ys.reshape((1, -1)), 1.0),
        'x two-dimensional': (xs.reshape((-1, 1)), ys, 1.0),
        'both two-dimensional': (xs.reshape((-1, 1)), ys.reshape((-1, 1)),
                                 1.0),
        'step zero': (xs, ys, 0.0),
        'step integer zero': (xs, ys, 0),
        'step zero, integer y': (xs, np.arange(n), 0),
        'step nan': (xs, ys, np.nan),
        'step inf': (xs, ys, np.inf),
        'step None': (xs, ys, None),
        'step a string': (xs, ys, '1'),
        'step an array': (xs, ys, np.full(n, 2.0)),
        'step an array of one': (xs, ys, np.array([2.0])),
        'step a short array': (xs, ys, np.array([1.0, 2.0])),
        'step tiny': (xs[:3], ys[:3], 1e-30),
        'step small enough to overflow int64': (xs[:3], ys[:3], 1e-300),
        'y huge, rising': (xs[:2], np.array([0.0, 1e18]), 1.0),
        'y huge, falling': (xs[:2], np.array([1e18, 0.0]), 1.0),
        'y huge, both ends': (xs[:2], np.array([-1e300, 1e300]), 1.0),
        'y largest float': (xs[:3], np.array([0.0, 1.7e308, 0.0]), 1.0),
        'interpolant unknown': (xs, ys, 1.0, 'wavy'),
        'interpolant None': (xs, ys, 1.0, None),
        'interpolant an order': (xs, ys, 1.0, 2),
        'interpolant order zero': (xs, ys, 1.0, 0),
        'cubic with three points': (xs[:3], ys[:3], 1.0, 'cubic'),
        'quadratic with two points': (xs[:2], ys[:2], 1.0, 'quadratic'),
        'masked y': (xs, np.ma.masked_array(ys, mask=np.arange(n) == 3), 1.0),
        'read-only y': (xs, np.array(ys), 1.0),
    }
    odd['read-only y'][1].setflags(write=False)
    for name, args in odd.items():
        add(name, *args)
    for name, kwargs in {
        'keywords': dict(x=xs, y=ys, y_step=1.0, interpolant='linear'),
        'missing step': dict(x=xs, y=ys),
        'unknown keyword': dict(x=xs, y=ys, y_step=1.0, kind='linear'),
    }.items():
        before = canon(kwargs)
        result = drain(lambda: regrid(**kwargs))
        result['arguments unchanged'] = canon(kwargs) == before
        results.append((name, result))

    # Nothing happens before the first item is asked for
    for name, args in (('lengths unequal', (xs, ys[:-1], 1.0)),
                       ('nan in y', (xs, ys * np.nan, 1.0)),
                       ('x None', (None, ys, 1.0))):
        try:
            generator = regrid(*args)
        except BaseException as exc:  # pylint: disable=broad-except
            results.append(('lazy: ' + name,
                            {'outcome': ('raised', canon(exc))}))
            continue
        results.append((
            'lazy: ' + name,
            {
                'outcome': ('returned', type(generator).__name__),
                'first': call(next, generator),
                'second': call(next, generator),
            },
        ))
    # The generator protocol: send, throw and close part way
    generator = regrid(xs, ys, 1.0)
    protocol = [call(next, generator), call(generator.send, 'something'),
                call(generator.send, None),
                call(generator.throw, KeyError('thrown in')),
                call(next, generator)]
    results.append(('protocol: throw', {'outcome': ('returned', protocol)}))
    generator = regrid(xs, ys, 1.0)
    protocol = [call(next, generator), call(generator.close),
                call(next, generator)]
    results.append(('protocol: close', {'outcome': ('returned', protocol)}))
    generator = regrid(xs, ys, 1.0)
    protocol = [call(generator.send, 'too early'), call(generator.close),
                call(generator.close)]
    results.append(('protocol: send first', {'outcome': ('returned',
                                                         protocol)}))
    # x changed between items is seen by the generator
    xs_changing = xs.copy()
    generator = regrid(xs_changing, ys, 1.0)
    first = call(next, generator)
    xs_changing[:] = xs_changing + 1000.0
    results.append(('x changed while running', {
        'outcome': ('returned', [first, call(next, generator),
                                 call(next, generator)])}))
    ys_changing = ys.copy()
    generator = regrid(xs, ys_changing, 1.0)
    first = call(next, generator)
    ys_changing[:] = 0.0
    results.append(('y changed while running', {
        'outcome': ('returned', [first] + [call(next, generator)
                                           for _ in range(6)])}))
    return results


# -------------------------------------------------------------- harness


def run_scenarios(root, out_path):
    sys.path[:] = [
        path
        for path in sys.path
        if os.path.abspath(path or os.getcwd()) != HERE
    ]
    sys.path.insert(0, root)
    module = importlib.import_module(MODULE_NAME)
    assert os.path.abspath(module.__file__) == os.path.join(
        os.path.abspath(root), MODULE
    ), module.__file__
    with open(out_path, 'wb') as out_file:
        pickle.dump(scenarios(), out_file)


def main():
    if len(sys.argv) == 4 and sys.argv[1] == '--run':
        run_scenarios(sys.argv[2], sys.argv[3])
        return 0
    with tempfile.TemporaryDirectory() as tmp:
        orig_root = os.path.join(tmp, 'orig')
        os.makedirs(orig_root)
        subprocess.run(
            'git archive HEAD spowtd | tar -x -C "{}"'.format(orig_root),
            shell=True, cwd=HERE, check=True,
        )
        with open(os.path.join(orig_root, MODULE)) as f:
            orig_source = f.read()
        with open(os.path.join(HERE, MODULE)) as f:
            new_source = f.read()
        assert MARKER not in orig_source, 'HEAD already has the refactoring'
        assert MARKER in new_source, (
            'work tree does not have {} applied'.format(PATCH))
        # Both sides run at the same time, each in its own process
        processes = {}
        for name, root in (('orig', orig_root), ('new', HERE)):
            out_path = os.path.join(tmp, name + '.pickle')
            env = dict(os.environ)
            env.pop('PYTHONPATH', None)
            processes[name] = (
                subprocess.Popen(
                    [sys.executable, '-W', 'ignore',
                     os.path.abspath(__file__), '--run', root, out_path],
                    cwd=tmp, env=env,
                ),
                out_path,
            )
        outputs = {}
        for name, (process, out_path) in processes.items():
            assert process.wait() == 0, '{} side failed'.format(name)
            with open(out_path, 'rb') as out_file:
                outputs[name] = pickle.load(out_file)
    orig, new = outputs['orig'], outputs['new']
    assert [name for name, _ in orig] == [name for name, _ in new]
    failures = 0
    outcomes = {}
    for (name, expected), (_, actual) in zip(orig, new):
        if expected != actual:
            failures += 1
            print('DIFFERENT: {}'.format(name))
            for key in expected:
                if expected[key] != actual[key]:
                    print('  {}:\n    orig {!r}\n    new  {!r}'.format(
                        key, expected[key], actual[key])[:2000])
        outcome = expected['outcome']
        kind = outcome[0] if outcome[0] == 'returned' else outcome[1][1]
        outcomes[kind] = outcomes.get(kind, 0) + 1
        if '-v' in sys.argv:
            print('{:45s} {}'.format(
                name, outcome[1][1:3] if outcome[0] == 'raised' else 'ok'))
    print('{} scenarios; outcomes in the original: {}'.format(
        len(orig), outcomes))
    if failures:
        print('FAILED: {} scenarios differ'.format(failures))
        return 1
    print('OK')
    return 0


if __name__ == '__main__':
    sys.exit(main())
