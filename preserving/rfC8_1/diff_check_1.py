"""Differential check for refactor1.diff (spowtd/rise.py: compute_rise_offsets).

Loads rise.py from HEAD and HEAD+refactor1.diff side by side (the rest of
the package comes from the worktree, which the patch does not touch), runs
both on copies of the same databases and asserts exact equality of results,
database contents and exceptions.

Run: cd /tmp/rf_C && PYTHONPATH=/tmp/rf_C /venv/bin/python diff_check_1.py
"""
import importlib.util
import os

os.environ.setdefault('OMP_NUM_THREADS', '1')  # small problems only
os.environ.setdefault('OPENBLAS_NUM_THREADS', '1')
import sqlite3
import subprocess
import tempfile

import numpy as np

ROOT = '/tmp/rf_C'
MODULE = 'spowtd/rise.py'
PATCH = os.path.join(ROOT, 'refactor1.diff')


def load_variants():
    tmp = tempfile.mkdtemp(prefix='rfC_dc1_')
    mods = {}
    for name in ('old', 'new'):
        base = os.path.join(tmp, name)
        os.makedirs(os.path.join(base, 'spowtd'))
        src = subprocess.check_output(
            ['git', '-C', ROOT, 'show', 'HEAD:' + MODULE])
        with open(os.path.join(base, MODULE), 'wb') as f:
            f.write(src)
        if name == 'new':
            subprocess.check_call(['patch', '-s', '-p1', '-d', base, '-i', PATCH])
        spec = importlib.util.spec_from_file_location(
            'rise_' + name, os.path.join(base, MODULE))
        mod = importlib.util.module_from_spec(spec)
        spec.loader.exec_module(mod)
        mods[name] = mod
    assert open(mods['old'].__file__).read() != open(mods['new'].__file__).read()
    return mods['old'], mods['new']


OLD, NEW = load_variants()

import spowtd.classify as classify_mod  # noqa: E402
import spowtd.load as load_mod  # noqa: E402
import spowtd.zeta_grid as zeta_grid_mod  # noqa: E402

SAMPLE = os.path.join(ROOT, 'spowtd/test/sample_data')
SCHEMA = open(os.path.join(ROOT, 'spowtd/schema.sql')).read()


def clone(conn):
    conn.commit()
    out = sqlite3.connect(':memory:')
    conn.backup(out)
    # pragmas are per connection
    for pragma in ('foreign_keys', 'ignore_check_constraints'):
        value = conn.execute('PRAGMA ' + pragma).fetchone()[0]
        out.execute('PRAGMA %s = %d' % (pragma, value))
    return out


def dump(conn):
    """Every table, every row, in rowid order, floats by repr, with types"""
    out = []
    names = [r[0] for r in conn.execute(
        "SELECT name FROM sqlite_master WHERE type='table' ORDER BY name")]
    for name in names:
        rows = conn.execute('SELECT * FROM "%s"' % name).fetchall()
        out.append((name, [tuple((type(v).__name__, repr(v)) for v in row)
                           for row in rows]))
    return out


def outcome(mod, conn, func_name, *args):
    conn = clone(conn)
    try:
        if func_name == 'compute':
            result = mod.compute_rise_offsets(conn.cursor(), *args)
        else:
            result = mod.find_rise_offsets(conn, *args)
        status = ('ok', repr(result))
    except BaseException as exc:  # pylint: disable=broad-except
        status = ('exc', type(exc).__name__, str(exc))
    in_tx = conn.in_transaction
    state = dump(conn)
    conn.rollback()
    committed = dump(conn)
    return status, in_tx, state, committed, conn


N_CASES = 0


def compare(label, conn, func_name='compute', args=(None,), expect=None,
            repeat=False):
    global N_CASES
    a = outcome(OLD, conn, func_name, *args)
    b = outcome(NEW, conn, func_name, *args)
    assert a[:4] == b[:4], (label, a[0], b[0])
    if expect is not None:
        assert a[0][0] == 'exc' and a[0][1] == expect, (label, a[0])
    N_CASES += 1
    print('  %-58s %s' % (label, a[0][:2] if a[0][0] == 'exc' else 'ok'))
    if repeat:
        # call again on the state left by the first call (same process)
        a2 = outcome(OLD, a[4], func_name, *args)
        b2 = outcome(NEW, b[4], func_name, *args)
        assert a2[:4] == b2[:4], (label, 'repeat', a2[0], b2[0])
        N_CASES += 1
    return a


def sample_db(sample, grid=1.0, storm=8.0, jump=5.0):
    conn = sqlite3.connect(':memory:')
    def path(kind):
        return os.path.join(SAMPLE, '%s_%d.txt' % (kind, sample))
    with open(path('precipitation'), encoding='utf-8-sig') as p, \
            open(path('evapotranspiration'), encoding='utf-8-sig') as e, \
            open(path('water_level'), encoding='utf-8-sig') as z:
        load_mod.load_data(connection=conn, precipitation_data_file=p,
                           evapotranspiration_data_file=e,
                           water_level_data_file=z,
                           time_zone_name='Africa/Lagos')
    classify_mod.classify_intervals(conn, storm_rain_threshold_mm_h=storm,
                                    rising_jump_threshold_mm_h=jump)
    zeta_grid_mod.populate_zeta_grid(conn, grid_interval_mm=grid)
    conn.commit()
    return conn


def synthetic(levels, rain, storms, grid=1.0, step=3600, t0=0, fk=False,
              extra_sql=()):
    """Hand-built database.

    levels: zeta_mm per time step (None = gap: no water_level row)
    rain: rainfall intensity per time step
    storms: list of (storm_start, storm_thru, zeta_start, zeta_thru) as
            time-step numbers or raw values (if not int, used verbatim)
    """
    conn = sqlite3.connect(':memory:')
    conn.executescript(SCHEMA)
    conn.execute('PRAGMA foreign_keys = %d' % (1 if fk else 0))
    def ep(k):
        return t0 + k * step if isinstance(k, int) and abs(k) < 10**6 else k
    n = len(levels)
    conn.executemany('INSERT INTO grid_time (epoch) VALUES (?)',
                     [(ep(k),) for k in range(n + 1)])
    conn.executemany('INSERT INTO water_level VALUES (?, ?)',
                     [(ep(k), z) for k, z in enumerate(levels) if z is not None])
    conn.executemany('INSERT INTO rainfall_intensity VALUES (?, ?, ?)',
                     [(ep(k), ep(k + 1), r) for k, r in enumerate(rain)
                      if r is not None])
    for (ss, st, zs, zt) in storms:
        conn.execute('INSERT INTO storm VALUES (?, ?)', (ep(ss), ep(st)))
        conn.execute("INSERT INTO zeta_interval VALUES (?, 'storm', ?)",
                     (ep(zs), ep(zt)))
        conn.execute("INSERT INTO zeta_interval_storm VALUES (?, 'storm', ?)",
                     (ep(zs), ep(ss)))
    if grid is not None:
        conn.execute('INSERT INTO zeta_grid (grid_interval_mm) VALUES (?)',
                     (grid,))
        conn.execute('INSERT INTO discrete_zeta (zeta_number) '
                     'WITH RECURSIVE s(i) AS (SELECT -2000 UNION ALL '
                     'SELECT i + 1 FROM s WHERE i < 2000) SELECT i FROM s')
    for stmt in extra_sql:
        conn.execute(stmt)
    conn.commit()
    return conn


def main():
    print('sample data')
    for sample in (1, 2):
        for grid in (1.0, 2.0, 0.5):
            conn = sample_db(sample, grid=grid)
            first = compare('sample %d grid %s ref None' % (sample, grid), conn,
                            repeat=True)
            assert first[0][0] == 'ok'
            compare('sample %d grid %s find_rise_offsets' % (sample, grid),
                    conn, func_name='find', args=(), repeat=True)
            # a reference level on the grid, taken from the result
            zs = sorted({int(r[1][1]) for r in dict(first[2])[
                'rising_interval_zeta']})
            for ref in (zs[len(zs) // 2] * grid, zs[0] * grid, zs[-1] * grid,
                        zs[len(zs) // 2] * grid + grid / 3, 1e9):
                compare('sample %d grid %s ref %r' % (sample, grid, ref), conn,
                        args=(ref,))
                compare('sample %d grid %s find ref %r' % (sample, grid, ref),
                        conn, func_name='find', args=(ref,))
            # with planner statistics present
            conn.execute('ANALYZE')
            compare('sample %d grid %s after ANALYZE' % (sample, grid), conn)
        conn = sample_db(sample, storm=4.0, jump=3.0)
        compare('sample %d other thresholds' % sample, conn, repeat=True)

    print('synthetic')
    rng = np.random.default_rng(1234)
    levels = [10.0, 10.5, 14.25, 20.0, 19.0, 18.5, 25.125, 31.0, 30.0, 29.0,
              28.5, 33.0, 36.0, 35.0]
    rain = [0.0, 9.1, 10.3, 0.2, 0.0, 8.7, 12.9, 0.0, 0.0, 0.1, 11.0, 9.5,
            0.0, 0.0]
    good = [(1, 3, 1, 3), (5, 7, 5, 7), (10, 12, 10, 12)]
    compare('three storms', synthetic(levels, rain, good), repeat=True)
    compare('three storms, FK enforced', synthetic(levels, rain, good, fk=True),
            func_name='find', args=(), repeat=True)
    for ref in (12.0, 19.0, 20.0, 25.0, 30.0, 35.0, 36.0, 30):
        compare('three storms ref %r' % ref, synthetic(levels, rain, good),
                args=(ref,))
    compare('three storms ref 20 (int)', synthetic(levels, rain, good),
            args=(20,))
    compare('three storms ref off grid', synthetic(levels, rain, good),
            args=(20.4,), expect='ValueError')
    compare('grid 0.25', synthetic(levels, rain, good, grid=0.25))
    compare('integer-valued levels and rain',
            synthetic([float(int(z)) for z in levels],
                      [float(int(r)) for r in rain], good))
    compare('integer-typed levels and rain',
            synthetic([int(z) for z in levels], [int(r) for r in rain], good))
    compare('single storm', synthetic(levels, rain, good[:1]), repeat=True)
    compare('no storms', synthetic(levels, rain, []))
    compare('no water levels', synthetic([None] * 5, rain[:5], []),
            expect='ValueError')
    compare('one water level, no storms', synthetic([1.0], [0.0], []))
    compare('no zeta grid', synthetic(levels, rain, good, grid=None),
            expect='ValueError')
    compare('no zeta grid, no storms', synthetic(levels, rain, [], grid=None),
            expect='ValueError')
    # storm interval longer than rise interval, large epochs, offsets
    compare('storm wider than rise',
            synthetic(levels, rain, [(0, 4, 1, 3), (4, 8, 5, 7)]))
    compare('epoch origin 1.6e9', synthetic(levels, rain, good, t0=1600000000))
    compare('negative epochs', synthetic(levels, rain, good, t0=-7 * 3600))
    # look-up failures: IndexError from each of the four look-ups
    gap = list(levels)
    gap[1] = None
    compare('storm start not in water_level',
            synthetic(gap, rain, [(1, 3, 2, 3)]), expect='IndexError')
    gap = list(levels)
    gap[3] = None
    compare('storm thru not in water_level',
            synthetic(gap, rain, [(1, 3, 1, 2)]), expect='IndexError')
    gap = list(levels)
    gap[1] = None
    compare('zeta start not in water_level',
            synthetic(gap, rain, [(2, 3, 1, 3)]), expect='IndexError')
    compare('zeta thru not in water_level',
            synthetic(levels, rain, [(1, 3, 1, 10**9)]), expect='IndexError')
    compare('second storm fails, first fine',
            synthetic(levels, rain, [(1, 3, 1, 3), (5, 7, 5, 10**9)]),
            expect='IndexError')
    # non-integer and non-numeric thru epochs (integer affinity keeps them)
    compare('real zeta thru', synthetic(levels, rain, [(1, 3, 1, 3 * 3600 + .5)]),
            expect='IndexError')
    compare('real storm thru',
            synthetic(levels, rain, [(1, 3 * 3600 + .5, 1, 3)]),
            expect='IndexError')
    compare('integral real thru (stored as integer)',
            synthetic(levels, rain, [(1, 3 * 3600.0, 1, 3 * 3600.0)]))
    compare('text zeta thru', synthetic(levels, rain, [(1, 3, 1, 'abc')]),
            expect='IndexError')
    compare('numeric text thru (stored as integer)',
            synthetic(levels, rain, [(1, '10800', 1, '10800')]))
    compare('blob zeta thru', synthetic(levels, rain, [(1, 3, 1, b'\x01')]))
    # storm without any rainfall row: TypeError from None[0]
    norain = list(rain)
    norain[5] = norain[6] = None
    compare('storm without rainfall rows', synthetic(levels, norain, good),
            expect='TypeError')
    compare('only storm without rainfall rows',
            synthetic(levels, norain, good[1:2]), expect='TypeError')
    # storm_total_rain_depth missing: only noticed when there is a storm
    compare('view dropped, storms',
            synthetic(levels, rain, good,
                      extra_sql=['DROP VIEW rising_curve_line_segment',
                                 'DROP VIEW storm_total_rain_depth']),
            expect='OperationalError')
    compare('view dropped, no storms',
            synthetic(levels, rain, [],
                      extra_sql=['DROP VIEW rising_curve_line_segment',
                                 'DROP VIEW storm_total_rain_depth']))
    compare('view dropped, failing look-up first',
            synthetic(levels, rain, [(1, 3, 1, 10**9)],
                      extra_sql=['DROP VIEW rising_curve_line_segment',
                                 'DROP VIEW storm_total_rain_depth']),
            expect='IndexError')
    # assertion failures, messages included
    compare('zeta thru before start',
            synthetic(levels, rain, [(1, 3, 3, 5)],
                      extra_sql=['PRAGMA ignore_check_constraints = 1',
                                 'UPDATE zeta_interval SET thru_epoch = 3600']),
            expect='AssertionError')
    compare('zeta thru equal to start',
            synthetic(levels, rain, [(1, 3, 3, 5)],
                      extra_sql=['PRAGMA ignore_check_constraints = 1',
                                 'UPDATE zeta_interval SET thru_epoch = 10800']),
            expect='AssertionError')
    compare('not strictly increasing', synthetic(levels, rain, [(1, 5, 1, 5)]),
            expect='AssertionError')
    compare('flat step', synthetic([1.0, 2.0, 2.0, 3.0], [9.0] * 4,
                                   [(0, 3, 0, 3)]), expect='AssertionError')
    compare('infinite level', synthetic([1.0, float('inf'), 3.0], [9.0] * 3,
                                        [(0, 1, 0, 1)]),
            expect='AssertionError')
    # epochs that collide once converted to float64
    big = 2 ** 53
    conn = synthetic(levels[:4], rain[:4], [])
    conn.execute('DELETE FROM water_level')
    conn.executemany('INSERT INTO water_level VALUES (?, ?)',
                     [(big, 1.0), (big + 1, 2.0), (big + 2, 3.5), (big + 4, 7.0)])
    conn.execute('INSERT INTO storm VALUES (?, ?)', (big, big + 4))
    conn.execute('INSERT INTO rainfall_intensity VALUES (?, ?, 12.5)',
                 (big, big + 4))
    conn.execute("INSERT INTO zeta_interval VALUES (?, 'storm', ?)",
                 (big + 1, big + 4))
    conn.execute("INSERT INTO zeta_interval_storm VALUES (?, 'storm', ?)",
                 (big + 1, big))
    conn.commit()
    compare('epochs colliding in float64', conn)
    conn.execute("UPDATE zeta_interval SET thru_epoch = ?", (big + 3,))
    conn.commit()
    compare('epochs colliding in float64, odd thru', conn)
    conn.execute("UPDATE zeta_interval SET start_epoch = ?, thru_epoch = ?",
                 (big, big + 1))
    conn.execute("UPDATE zeta_interval_storm SET interval_start_epoch = ?",
                 (big,))
    conn.commit()
    compare('start and thru collide in float64', conn, expect='AssertionError')
    # random long series with many storms and irregular rainfall sums
    for seed in range(6):
        rng = np.random.default_rng(seed)
        n_storm = int(rng.integers(2, 40))
        lv, rn, st = [], [], []
        z = float(rng.normal())
        for _ in range(n_storm):
            for _ in range(int(rng.integers(1, 5))):      # dry spell
                lv.append(z)
                rn.append(float(rng.random() * 0.3))
                z -= float(rng.random())
            k0 = len(lv)
            length = int(rng.integers(1, 9))
            for _ in range(length):
                lv.append(z)
                rn.append(float(8 + rng.random() * 30) / 3)
                z += float(rng.random() * 9 + 0.01)
            lv.append(z)
            rn.append(0.0)
            st.append((k0, k0 + length, k0, k0 + length))
            z -= float(rng.random() * 20)
        grid = [1.0, 0.5, 2.0, 3.0, 1.0, 0.1][seed]
        compare('random seed %d (%d storms, grid %s)' % (seed, n_storm, grid),
                synthetic(lv, rn, st, grid=grid, step=[3600, 1800, 600][seed % 3]),
                repeat=(seed == 0))
        conn = synthetic(lv, rn, st, grid=grid)
        conn.execute('ANALYZE')
        compare('random seed %d after ANALYZE' % seed, conn)
    print('diff_check_1: %d comparisons identical' % N_CASES)


if __name__ == '__main__':
    main()
