"""Differential check for refactor5.diff (spowtd/user_interface.py: parsers)"""

import diff_common

if __name__ == '__main__':
    diff_common.compare('refactor5.diff', diff_common.CLI_PROBE)
