"""Differential check for refactor1.diff (spowtd/regrid.py: regrid)

Usage:  /venv/bin/python /tmp/rf_B/diff_check_1.py

Builds two copies of the package in a temporary directory (HEAD, and
HEAD + refactor1.diff), runs the scenarios below in a subprocess against
each copy, and asserts that the pickled, canonicalised results are equal
(floats compared by their bytes / repr, exceptions by type and message).
"""

import os
import pickle
import subprocess
import sys
import tempfile

ROOT = os.path.dirname(os.path.abspath(__file__))
PATCH = os.environ.get('RF_PATCH', os.path.join(ROOT, 'refactor1.diff'))


# ---------------------------------------------------------------- harness
def build_trees(tmp):
    trees = {}
    archive = subprocess.run(
        ['git', '-C', ROOT, 'archive', 'HEAD', 'spowtd'],
        check=True,
        stdout=subprocess.PIPE,
    ).stdout
    for name in ('orig', 'new'):
        tree = os.path.join(tmp, name)
        os.makedirs(tree)
        subprocess.run(['tar', '-x', '-C', tree], input=archive, check=True)
        trees[name] = tree
    subprocess.run(
        ['patch', '-s', '-p1', '-i', PATCH], cwd=trees['new'], check=True
    )
    return trees


def canon(obj):
    """Canonical, picklable, exactly comparable form of a result"""
    import numpy as np

    if isinstance(obj, np.ndarray):
        return ('ndarray', obj.dtype.str, obj.shape, obj.tobytes())
    if isinstance(obj, np.generic):
        return ('npscalar', obj.dtype.str, obj.tobytes())
    if isinstance(obj, float):
        return ('float', obj.hex())
    if isinstance(obj, (bool, int, str, bytes, type(None))):
        return (type(obj).__name__, obj)
    if isinstance(obj, (list, tuple)):
        return (type(obj).__name__, [canon(item) for item in obj])
    if isinstance(obj, dict):
        # order is observable: keep it
        return (
            type(obj).__name__,
            [(canon(key), canon(value)) for key, value in obj.items()],
        )
    if isinstance(obj, (set, frozenset)):
        return (type(obj).__name__, sorted(canon(item) for item in obj))
    raise TypeError('cannot canonicalise {!r}'.format(type(obj)))


def attempt(function, *args, **kwargs):
    """Result of a call, or the exception it raised"""
    import warnings

    try:
        with warnings.catch_warnings(record=True) as caught:
            warnings.simplefilter('always')
            value = function(*args, **kwargs)
        return (
            'ok',
            canon(value),
            [(w.category.__name__, str(w.message)) for w in caught],
        )
    except BaseException as exc:  # pylint: disable=broad-except
        return ('raised', type(exc).__name__, str(exc))


def main():
    with tempfile.TemporaryDirectory(prefix='rfB_check_') as tmp:
        trees = build_trees(tmp)
        results = {}
        for name, tree in trees.items():
            out = os.path.join(tmp, name + '.pkl')
            env = dict(os.environ, PYTHONPATH=tree)
            subprocess.run(
                [sys.executable, os.path.abspath(__file__), '--worker', out],
                check=True,
                env=env,
                cwd=tree,
            )
            with open(out, 'rb') as stream:
                results[name] = pickle.load(stream)
        orig, new = results['orig'], results['new']
        assert orig['__source__'] != new['__source__'], 'patch not applied'
        del orig['__source__'], new['__source__']
        assert list(orig) == list(new)
        n_ok = 0
        for key in orig:
            assert orig[key] == new[key], 'MISMATCH in scenario {}'.format(key)
            n_ok += orig[key][0] == 'ok'
        print(
            'diff_check_1: {} scenarios identical ({} returned, {} raised)'
            .format(len(orig), n_ok, len(orig) - n_ok)
        )


# ---------------------------------------------------------------- worker
def worker(out_path):
    import numpy as np
    import spowtd.regrid as regrid_mod

    assert regrid_mod.__file__.startswith(os.environ['PYTHONPATH'])
    results = {}
    with open(regrid_mod.__file__, 'rt') as stream:
        results['__source__'] = stream.read()

    def run(x, y, y_step, **kwargs):
        return list(regrid_mod.regrid(x, y, y_step, **kwargs))

    def first_only(x, y, y_step):
        # a generator: what the first next() does is observable on its own
        generator = regrid_mod.regrid(x, y, y_step)
        return next(generator, 'exhausted')

    rng = np.random.default_rng(20260927)
    cases = {
        'empty': ([], np.array([]), 1.0),
        'single': ([0.0], np.array([1.5]), 1.0),
        'two_equal_ceil': ([0.0, 1.0], np.array([1.2, 1.9]), 1.0),
        'two_exact_integers': ([0.0, 1.0], np.array([1.0, 2.0]), 1.0),
        'two_same_integer': ([0.0, 1.0], np.array([2.0, 2.0]), 1.0),
        'flat': (np.arange(6.0), np.full(6, 3.3), 1.0),
        'flat_on_level': (np.arange(6.0), np.full(6, 3.0), 1.0),
        'up': (np.arange(5.0), np.array([0.1, 0.2, 1.7, 1.8, 5.0]), 1.0),
        'down': (np.arange(5.0), np.array([5.0, 1.8, 1.7, 0.2, 0.1]), 1.0),
        'zigzag': (
            list(range(5)),
            np.array([2.0, 5.2, -1.3, -1.2, 10.0]),
            1.0,
        ),
        'zigzag_half_step': (
            list(range(5)),
            np.array([2.0, 5.2, -1.3, -1.2, 10.0]),
            0.5,
        ),
        'negative_step': (
            np.arange(5.0),
            np.array([2.0, 5.2, -1.3, -1.2, 10.0]),
            -1.0,
        ),
        'integer_dtype_y': (np.arange(5), np.array([3, 3, 5, 2, 2]), 1),
        'integer_dtype_y_step2': (np.arange(5), np.array([3, 3, 5, 2, 2]), 2),
        'integer_valued_float': (
            np.arange(6.0),
            np.array([0.0, 1.0, 1.0, 3.0, 3.0, -2.0]),
            1.0,
        ),
        'tiny_differences': (
            np.arange(4.0),
            np.array([1.0, 1.0 + 2e-16, 1.0 - 2e-16, 1.0000001]),
            1.0,
        ),
        'plateau_then_jump': (
            np.arange(8.0),
            np.array([0.4, 0.4, 0.4, 0.4, 3.6, 3.6, 3.6, 0.4]),
            1.0,
        ),
        'irregular_x': (
            np.array([0.0, 0.5, 3.0, 3.25, 10.0]),
            np.array([-0.5, 0.5, 0.6, 2.4, 2.5]),
            0.3,
        ),
        'length_mismatch': ([0.0, 1.0], np.array([1.0]), 1.0),
        'nan_in_y': ([0.0, 1.0], np.array([1.0, np.nan]), 1.0),
        'inf_in_y': ([0.0, 1.0, 2.0], np.array([1.0, np.inf, 2.0]), 1.0),
        'unsorted_x': (
            np.array([0.0, 2.0, 1.0, 3.0]),
            np.array([0.5, 2.5, 1.5, 3.5]),
            1.0,
        ),
        'repeated_x': (
            np.array([0.0, 1.0, 1.0, 2.0]),
            np.array([0.5, 2.5, 2.6, 0.5]),
            1.0,
        ),
        'y_is_list': ([0.0, 1.0], [1.0, 3.0], 1.0),
        'two_dimensional_y': (
            [0.0, 1.0],
            np.array([[0.5, 2.5], [0.5, 2.5]]),
            1.0,
        ),
        'two_dimensional_y_differing': (
            [0.0, 1.0],
            np.array([[0.5, 2.5], [1.5, 3.5]]),
            1.0,
        ),
        'zero_step': (np.arange(3.0), np.array([1.0, 2.0, 3.0]), 0.0),
    }
    for i in range(25):
        n = int(rng.integers(2, 40))
        x = np.cumsum(rng.uniform(0.1, 2.0, size=n))
        walk = np.cumsum(rng.normal(0, 1.5, size=n))
        if i % 3 == 0:
            # long plateaus and values exactly on levels
            walk = np.round(walk)
        if i % 5 == 0:
            walk = np.repeat(walk[: n // 2 + 1], 2)[:n]
        cases['random_{}'.format(i)] = (x, walk, [1.0, 0.5, 0.25, 3.0][i % 4])
    for name, (x, y, y_step) in cases.items():
        results[name] = attempt(run, x, y, y_step)
        results[name + '/first'] = attempt(first_only, x, y, y_step)
    for kind in ('nearest', 'zero', 'slinear', 'quadratic', 'cubic'):
        x, y, y_step = cases['zigzag']
        results['zigzag/' + kind] = attempt(
            run, x, y, y_step, interpolant=kind
        )
        x, y, y_step = cases['plateau_then_jump']
        results['plateau/' + kind] = attempt(
            run, x, y, y_step, interpolant=kind
        )
    # repeated calls in one process, interleaved generators
    x, y, y_step = cases['zigzag']
    gen_a = regrid_mod.regrid(x, y, y_step)
    gen_b = regrid_mod.regrid(x, y, 0.5)
    interleaved = []
    for _ in range(4):
        interleaved.append(next(gen_a))
        interleaved.append(next(gen_b))
    results['interleaved'] = ('ok', canon(interleaved), [])
    # types of the yielded items are observable
    results['yield_types'] = (
        'ok',
        canon(
            [
                (type(level).__name__, type(root).__name__)
                for level, root in run(*cases['zigzag'])
            ]
        ),
        [],
    )

    # The sample data, through the callers of regrid
    results.update(sample_data_results())
    with open(out_path, 'wb') as stream:
        pickle.dump(results, stream)


def dump_database(connection):
    """Every table and view, rows in natural order, floats exact"""
    cursor = connection.cursor()
    names = [
        name
        for name, in cursor.execute(
            "SELECT name FROM sqlite_master "
            "WHERE type IN ('table', 'view') ORDER BY name"
        ).fetchall()
    ]
    return [
        (name, cursor.execute('SELECT * FROM "{}"'.format(name)).fetchall())
        for name in names
    ]


def sample_path(kind, sample):
    return os.path.join(
        os.environ['PYTHONPATH'],
        'spowtd',
        'test',
        'sample_data',
        '{}_{}.txt'.format(kind, sample),
    )


def load_sample(connection, sample, time_zone_name='Africa/Lagos'):
    """Load one of the sample data sets, as the test fixtures do"""
    import spowtd.load as load_mod

    files = [
        open(sample_path(kind, sample), 'rt', encoding='utf-8-sig')
        for kind in ('precipitation', 'evapotranspiration', 'water_level')
    ]
    try:
        load_mod.load_data(connection, *files, time_zone_name=time_zone_name)
    finally:
        for stream in files:
            stream.close()


def sample_data_results():
    """Run the CLI steps load .. rise on both sample data sets"""
    import sqlite3
    import spowtd.classify as classify_mod
    import spowtd.recession as recession_mod
    import spowtd.rise as rise_mod
    import spowtd.zeta_grid as zeta_grid_mod

    results = {}
    for sample in (1, 2):
        connection = sqlite3.connect(':memory:')
        load_sample(connection, sample)
        results['sample_{}/loaded'.format(sample)] = (
            'ok',
            canon(dump_database(connection)),
            [],
        )
        classify_mod.classify_intervals(
            connection,
            storm_rain_threshold_mm_h=8.0,
            rising_jump_threshold_mm_h=5.0,
        )
        zeta_grid_mod.populate_zeta_grid(connection, grid_interval_mm=1.0)
        recession_mod.find_recession_offsets(connection)
        rise_mod.find_rise_offsets(connection)
        results['sample_{}/dump'.format(sample)] = (
            'ok',
            canon(dump_database(connection)),
            [],
        )
        connection.close()
    return results


if __name__ == '__main__':
    if len(sys.argv) == 3 and sys.argv[1] == '--worker':
        # import the package from PYTHONPATH, not from the script's directory
        sys.path[:] = [
            entry
            for entry in sys.path
            if os.path.abspath(entry or os.curdir) != ROOT
        ]
        worker(sys.argv[2])
    else:
        main()
