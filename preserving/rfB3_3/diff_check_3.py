"""Differential check for refactor3.diff

load.generate_timestamped_rows and the top of load.load_data
"""

import datetime
import io
import sqlite3

import dc_harness as H
from diff_check_1 import _load_sample


class HalfSecondZone:
    """Fake pytz-like zone with a fractional-second UTC offset"""

    def localize(self, naive):
        offset = datetime.timedelta(hours=1, microseconds=500000)
        return naive.replace(tzinfo=datetime.timezone(offset))


class _NoOffset(datetime.tzinfo):
    def utcoffset(self, dt):
        return None

    def dst(self, dt):
        return None

    def tzname(self, dt):
        return 'none'


class NaiveZone:
    """Fake zone whose localized datetimes are not aware"""

    def localize(self, naive):
        return naive.replace(tzinfo=_NoOffset())


def _rows_case(rows, tz, take=None):
    import spowtd.load as load_mod

    def call():
        generator = load_mod.generate_timestamped_rows(rows, tz)
        produced = []
        try:
            for i, row in enumerate(generator):
                produced.append(row)
                if take is not None and i + 1 >= take:
                    break
        except BaseException as exc:  # pylint: disable=broad-except
            produced.append(('raised', type(exc).__name__, str(exc)))
        return produced

    return H.capture(call)


PRECIP = """datetime,precipitation rate (mm/h)
2013-03-01 00:00:00,0.0
2013-03-01 00:30:00,1.5
2013-03-01 01:00:00,12.25
2013-03-01 01:30:00,0.0
2013-03-01 02:00:00,0.0
2013-03-01 02:30:00,3.0
2013-03-01 03:00:00,0.0
"""
ET = PRECIP.replace('precipitation rate', 'ET').replace(
    '\n2013-03-01 03:00:00,0.0', '\n2013-03-01 03:00:00,0.0\n2013-03-01 03:30:00,0.1'
)
ZETA = """Datetime,wtd (mm)
2013-03-01 00:20:00,-100.0
2013-03-01 00:40:00,-100.5
2013-03-01 01:00:00,-101.0
2013-03-01 01:20:00,-90.0
2013-03-01 01:40:00,-91.0
2013-03-01 02:00:00,-92.0
2013-03-01 02:20:00,-93.0
2013-03-01 02:40:00,-94.0
"""


def _text_case(precip=PRECIP, et=ET, zeta=ZETA, tz_name='Africa/Lagos',
               connection=None, prepare=None, repeat=1):
    import spowtd.load as load_mod

    if connection is None:
        connection = sqlite3.connect(':memory:')
    if prepare is not None:
        connection.executescript(prepare)
    outcomes = []
    positions = []
    for _ in range(repeat):
        files = [io.StringIO(precip), io.StringIO(et), io.StringIO(zeta)]
        outcomes.append(
            H.capture(
                load_mod.load_data,
                connection=connection,
                precipitation_data_file=files[0],
                evapotranspiration_data_file=files[1],
                water_level_data_file=files[2],
                time_zone_name=tz_name,
            )
        )
        # How much of each file was consumed is observable too
        positions.append([f.tell() for f in files])
    in_transaction = connection.in_transaction
    return (
        outcomes[0] if repeat == 1 else ('ok', H.canon(outcomes)),
        H.canon(positions),
        H.canon(in_transaction),
        H.canon(H.dump_database(connection)),
    )


def scenarios():
    import pytz
    import spowtd.load as load_mod

    H.assert_tree(load_mod)
    out = {}
    for sample in (1, 2):
        out['load sample {}'.format(sample)] = _load_sample(sample)
    out['load sample 1, Asia/Jakarta'] = _load_sample(1, 'Asia/Jakarta')
    out['unknown time zone'] = _load_sample(1, 'Mars/Olympus')
    out['time zone None'] = _load_sample(1, None)

    out['text ok'] = _text_case()
    out['text ok utc'] = _text_case(tz_name='UTC')
    out['text ok, LMT-prone zone'] = _text_case(tz_name='Asia/Kolkata')
    out['loaded twice'] = _text_case(repeat=2)
    out['already has a table'] = _text_case(prepare='CREATE TABLE t (x);')
    out['has only a view'] = _text_case(prepare='CREATE VIEW v AS SELECT 1;')
    out['has table named like schema'] = _text_case(
        prepare='CREATE TABLE grid_time (epoch integer);'
    )
    out['has table and index'] = _text_case(
        prepare='CREATE TABLE t (x); CREATE INDEX i ON t (x);'
    )
    out['bad precip header'] = _text_case(
        precip=PRECIP.replace('datetime,', 'time,', 1)
    )
    out['uppercase precip header'] = _text_case(
        precip=PRECIP.replace('datetime,', 'DATETIME (local),', 1)
    )
    out['bad et header'] = _text_case(et=ET.replace('datetime,', 'when,', 1))
    out['bad zeta header'] = _text_case(
        zeta=ZETA.replace('Datetime,', 'date,', 1)
    )
    out['empty precip file'] = _text_case(precip='')
    out['empty et file'] = _text_case(et='')
    out['empty zeta file'] = _text_case(zeta='')
    out['blank header line'] = _text_case(precip='\n' + PRECIP)
    out['header only precip'] = _text_case(precip=PRECIP.splitlines()[0] + '\n')
    out['blank line in precip'] = _text_case(
        precip=PRECIP.replace('\n2013-03-01 01:00', '\n\n2013-03-01 01:00')
    )
    out['bad datetime in precip'] = _text_case(
        precip=PRECIP.replace('2013-03-01 01:00:00', '2013-03-01T01:00:00')
    )
    out['fractional seconds in zeta'] = _text_case(
        zeta=ZETA.replace('01:20:00', '01:20:00.5')
    )
    out['bad datetime in et'] = _text_case(
        et=ET.replace('2013-03-01 02:00:00', '2013-02-30 02:00:00')
    )
    out['duplicate datetime'] = _text_case(
        precip=PRECIP + '2013-03-01 03:00:00,0.0\n'
    )
    out['missing value column'] = _text_case(
        precip=PRECIP.replace('01:30:00,0.0', '01:30:00')
    )
    out['extra value column'] = _text_case(
        precip=PRECIP.replace('01:30:00,0.0', '01:30:00,0.0,7')
    )
    out['non-numeric value'] = _text_case(
        precip=PRECIP.replace('12.25', 'lots')
    )
    out['nonuniform precip'] = _text_case(
        precip=PRECIP.replace('2013-03-01 01:30:00,0.0\n', '')
    )
    out['missing ET'] = _text_case(
        et=ET.replace('2013-03-01 01:30:00,0.0\n', '')
    )
    out['closed connection'] = (
        lambda c: (c.close(), H.capture(
            load_mod.load_data, c, io.StringIO(PRECIP), io.StringIO(ET),
            io.StringIO(ZETA), 'UTC'))[1]
    )(sqlite3.connect(':memory:'))

    lagos = pytz.timezone('Africa/Lagos')
    berlin = pytz.timezone('Europe/Berlin')
    rows = [
        ['2013-03-01 00:00:00', '0.0'],
        ['2013-03-01 00:30:00', '1.5', 'extra'],
        ['2013-03-01 01:00:00'],
        ['1969-12-31 23:59:59', 'x'],
    ]
    out['rows lagos'] = _rows_case([list(r) for r in rows], lagos)
    out['rows utc'] = _rows_case([list(r) for r in rows], pytz.utc)
    out['rows berlin dst'] = _rows_case(
        [
            ['2013-03-31 01:59:59', 'a'],
            ['2013-03-31 02:30:00', 'nonexistent'],
            ['2013-03-31 03:00:00', 'b'],
            ['2013-10-27 02:30:00', 'ambiguous'],
            ['2013-10-27 03:00:00', 'c'],
        ],
        berlin,
    )
    out['rows empty'] = _rows_case([], lagos)
    out['rows generator input'] = _rows_case(
        (list(r) for r in rows), lagos, take=2
    )
    out['rows tuple'] = _rows_case([tuple(r) for r in rows], lagos)
    out['rows strings'] = _rows_case(['2013-03-01 00:00:00'], lagos)
    out['rows empty row'] = _rows_case([list(rows[0]), [], list(rows[1])], lagos)
    out['rows bad format second'] = _rows_case(
        [list(rows[0]), ['01/03/2013 00:00', '1']], lagos
    )
    out['rows none datetime'] = _rows_case([[None, '1']], lagos)
    out['rows int datetime'] = _rows_case([[20130301, '1']], lagos)
    out['rows half-second zone'] = _rows_case(
        [list(r) for r in rows], HalfSecondZone()
    )
    out['rows naive zone'] = _rows_case([list(r) for r in rows], NaiveZone())
    out['rows tz None'] = _rows_case([list(r) for r in rows], None)
    out['rows not iterable'] = _rows_case(None, lagos)
    out['rows trailing whitespace'] = _rows_case(
        [['2013-03-01 00:00:00 ', '1']], lagos
    )
    return out


if __name__ == '__main__':
    H.main(3, scenarios)
