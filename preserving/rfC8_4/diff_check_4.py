"""Differential check for refactor4.diff (spowtd/simulate_recession.py:
compute_recession_curve).

Loads simulate_recession.py from HEAD and HEAD+refactor4.diff side by side,
runs both on the same inputs and asserts bit-identical results, identical
sequences of calls into the specific-yield and transmissivity objects,
identical warnings and identical exceptions.

Run: cd /tmp/rf_C && PYTHONPATH=/tmp/rf_C /venv/bin/python diff_check_4.py
"""
import importlib.util
import io
import os

os.environ.setdefault('OMP_NUM_THREADS', '1')
os.environ.setdefault('OPENBLAS_NUM_THREADS', '1')
import sqlite3
import subprocess
import tempfile
import warnings

import numpy as np
import yaml

ROOT = '/tmp/rf_C'
MODULE = 'spowtd/simulate_recession.py'
PATCH = os.path.join(ROOT, 'refactor4.diff')


def load_variants(prefix='rfC_dc4_'):
    tmp = tempfile.mkdtemp(prefix=prefix)
    mods = {}
    for name in ('old', 'new'):
        base = os.path.join(tmp, name)
        os.makedirs(os.path.join(base, 'spowtd'))
        src = subprocess.check_output(
            ['git', '-C', ROOT, 'show', 'HEAD:' + MODULE])
        with open(os.path.join(base, MODULE), 'wb') as f:
            f.write(src)
        if name == 'new':
            subprocess.check_call(['patch', '-s', '-p1', '-d', base, '-i', PATCH])
        spec = importlib.util.spec_from_file_location(
            'simulate_recession_' + name, os.path.join(base, MODULE))
        mod = importlib.util.module_from_spec(spec)
        spec.loader.exec_module(mod)
        mods[name] = mod
    assert open(mods['old'].__file__).read() != open(mods['new'].__file__).read()
    return mods['old'], mods['new']


OLD, NEW = load_variants()

import spowtd.classify as classify_mod  # noqa: E402
import spowtd.load as load_mod  # noqa: E402
import spowtd.recession as recession_mod  # noqa: E402
import spowtd.set_curvature as set_curvature_mod  # noqa: E402
import spowtd.specific_yield as specific_yield_mod  # noqa: E402
import spowtd.transmissivity as transmissivity_mod  # noqa: E402
import spowtd.zeta_grid as zeta_grid_mod  # noqa: E402

SAMPLE = os.path.join(ROOT, 'spowtd/test/sample_data')
N_CASES = 0


def freeze(value):
    """Exact, type-aware description of a value"""
    if isinstance(value, np.ndarray):
        return ('ndarray', value.dtype.str, value.shape, value.tobytes(),
                value.flags.writeable, value.flags.owndata)
    if isinstance(value, np.generic):
        return (type(value).__name__, value.tobytes())
    if isinstance(value, float):
        return ('float', value.hex())
    return (type(value).__name__, repr(value))


class Recorder:
    """Callable wrapper logging every call with its exact argument"""

    def __init__(self, name, inner, log, fail_at=None):
        self.name = name
        self.inner = inner
        self.log = log
        self.fail_at = fail_at
        self.count = 0

    def __call__(self, x):
        self.count += 1
        self.log.append((self.name, freeze(x)))
        if self.fail_at == self.count:
            raise RuntimeError('%s fails at call %d' % (self.name, self.count))
        return self.inner(x)


def load_functions(kind):
    with open(os.path.join(SAMPLE, kind + '_parameters.yml')) as f:
        params = yaml.safe_load(f)
    sy = specific_yield_mod.create_specific_yield_function(
        params['specific_yield'])
    tr = transmissivity_mod.create_transmissivity_function(
        params['transmissivity'])
    if kind == 'peatclsm':
        inner = tr
        tr = lambda zeta_mm: inner(zeta_mm) * 24 * 3600  # noqa: E731
    return sy, tr


def run(mod, make_functions, grid, mean, curvature, et, record=True, **fails):
    sy, tr = make_functions()
    log = []
    if record:
        sy = Recorder('sy', sy, log, fails.get('sy_fail_at'))
        tr = Recorder('T', tr, log, fails.get('T_fail_at'))
    grid_before = freeze(grid) if isinstance(grid, np.ndarray) else None
    with warnings.catch_warnings(record=True) as caught:
        warnings.simplefilter('always')
        try:
            result = mod.compute_recession_curve(
                specific_yield=sy, transmissivity_m2_d=tr, zeta_grid_mm=grid,
                mean_elapsed_time_d=mean, curvature_km=curvature, et_mm_d=et)
            status = ('ok', freeze(result))
            assert result is not grid
        except BaseException as exc:  # pylint: disable=broad-except
            status = ('exc', type(exc).__name__, str(exc))
    if grid_before is not None:
        assert freeze(grid) == grid_before, 'caller array modified'
    return (status, log,
            [(w.category.__name__, str(w.message)) for w in caught])


def compare(label, make_functions, grid, mean=19.0, curvature=2.36e-3,
            et=4.15, expect=None, **kwargs):
    global N_CASES
    a = run(OLD, make_functions, grid, mean, curvature, et, **kwargs)
    b = run(NEW, make_functions, grid, mean, curvature, et, **kwargs)
    assert a[0] == b[0], (label, a[0][:2], b[0][:2])
    assert a[1] == b[1], (label, 'call sequences differ')
    assert a[2] == b[2], (label, 'warnings differ', a[2], b[2])
    if expect == '*':
        pass
    elif expect is None:
        assert a[0][0] == 'ok', (label, a[0])
    else:
        assert a[0][0] == 'exc' and a[0][1] == expect, (label, a[0])
    N_CASES += 1
    print('  %-60s %-18s %5d calls %d warnings' % (
        label, 'ok' if a[0][0] == 'ok' else a[0][1], len(a[1]), len(a[2])))


def analytic():
    """Cheap closed-form functions, positive everywhere"""
    return (lambda z: 0.3 + 0.2 * np.tanh(z / 100.0),
            lambda z: 5.0 * np.exp(z / 250.0))


def analytic_python_floats():
    import math
    return (lambda z: 0.3 + 0.2 * math.tanh(z / 100.0),
            lambda z: 5.0 * math.exp(z / 250.0))


def zero_transmissivity():
    return (lambda z: 0.25, lambda z: 0.0)


def sample_db(sample):
    conn = sqlite3.connect(':memory:')
    def path(kind):
        return os.path.join(SAMPLE, '%s_%d.txt' % (kind, sample))
    with open(path('precipitation'), encoding='utf-8-sig') as p, \
            open(path('evapotranspiration'), encoding='utf-8-sig') as e, \
            open(path('water_level'), encoding='utf-8-sig') as z:
        load_mod.load_data(connection=conn, precipitation_data_file=p,
                           evapotranspiration_data_file=e,
                           water_level_data_file=z,
                           time_zone_name='Africa/Lagos')
    classify_mod.classify_intervals(conn, storm_rain_threshold_mm_h=8.0,
                                    rising_jump_threshold_mm_h=5.0)
    zeta_grid_mod.populate_zeta_grid(conn, grid_interval_mm=1.0)
    recession_mod.find_recession_offsets(conn)
    set_curvature_mod.set_curvature(conn, curvature_m_km2=2.36)
    return conn


def main():
    global N_CASES
    grids = {
        'test grid': np.linspace(-400, -5, 10),
        'fine grid': np.linspace(-900.0, 290.0, 120),
        'single element': np.array([12.5]),
        'two elements': np.array([-30.0, 8.0]),
        'integer-valued floats': np.arange(-600.0, 200.0, 50.0),
        'int64 dtype': np.arange(-600, 200, 50),
        'int32 dtype': np.arange(-600, 200, 100, dtype=np.int32),
        'float32 dtype': np.linspace(-500, 100, 7, dtype=np.float32),
        'decreasing': np.linspace(-5, -400, 10),
        'ties': np.array([-100.0, -100.0, -50.0, -50.0, -50.0, 3.0, 3.0]),
        'zigzag': np.array([0.0, -30.0, 20.0, -700.0, 150.0, -150.0, 2.0]),
        'non-contiguous view': np.linspace(-865, 50, 40)[::5],
        'reversed view': np.linspace(-865, 50, 9)[::-1],
        'random unsorted': np.random.default_rng(8).normal(size=15) * 300,
    }
    read_only = np.linspace(-400, -5, 6)
    read_only.setflags(write=False)
    grids['read-only'] = read_only

    print('analytic functions, every grid, several ET and curvature')
    coefficients = [
        (2.36e-3, 4.15), (0.0, 4.15), (0, 4.15), (2.36e-3, 0.0), (2.36e-3, 0),
        (1, 4), (np.float64(2.36e-3), np.float64(4.15)),
        (np.float32(0.5), np.float32(2.5)), (1e-300, 1e-300), (1e300, 1e300),
        (True, True), (2.36e-3, -0.0), (-0.0, 4.15),
        (np.array([0.001]), np.array([2.0])), (np.int64(2), np.int32(3)),
    ]
    for name, grid in grids.items():
        for curvature, et in coefficients:
            compare('%s, c=%r et=%r' % (name, curvature, et), analytic, grid,
                    curvature=curvature, et=et,
                    expect='*' if isinstance(et, np.ndarray) else None)
    compare('python-float functions', analytic_python_floats,
            grids['test grid'])
    print('vanishing denominators')
    for name in ('test grid', 'single element', 'ties', 'int64 dtype'):
        for curvature, et in ((0.0, 0.0), (0, 0), (0.0, -0.0), (-0.0, 0.0)):
            compare('%s, c=%r et=%r' % (name, curvature, et), analytic,
                    grids[name], curvature=curvature, et=et, expect='*')
        compare('%s, T=0 and et=0' % name, zero_transmissivity, grids[name],
                curvature=0.5, et=0.0, expect='*')
        compare('%s, T=0' % name, zero_transmissivity, grids[name])
    print('rejected coefficients and odd arguments')
    grid = grids['test grid']
    for curvature, et in ((2.36e-3, -1.0), (-1e-3, 4.15), (float('nan'), 1.0),
                          (1.0, float('nan')), (-1, -1)):
        for name in ('test grid', 'single element'):
            compare('%s, c=%r et=%r' % (name, curvature, et), analytic,
                    grids[name], curvature=curvature, et=et,
                    expect='AssertionError')
    for curvature, et in ((None, 1.0), (1.0, None), ('a', 1.0), (1.0, 'a'),
                          ([1.0], 1.0)):
        compare('c=%r et=%r' % (curvature, et), analytic, grid,
                curvature=curvature, et=et, expect='TypeError')
    compare('c=inf', analytic, grid, curvature=float('inf'), expect='*')
    compare('et=inf', analytic, grid, et=float('inf'), expect='*')
    compare('et=inf, c=inf', analytic, grid, et=float('inf'),
            curvature=float('inf'), expect='*')
    for mean in (0, 3, np.float32(1.5), -0.0, 1e300, float('inf'),
                 float('nan'), True, np.arange(10.0)):
        compare('mean %r' % (mean,), analytic, grid, mean=mean)
    compare('mean None', analytic, grid, mean=None, expect='TypeError')
    compare('empty grid', analytic, np.array([], dtype=float),
            expect='IndexError')
    compare('0-d grid', analytic, np.array(3.0), expect='IndexError')
    compare('2-d grid', analytic, np.linspace(-100, 20, 12).reshape(4, 3),
            expect='*')
    compare('2-d grid with one row', analytic,
            np.linspace(-100, 20, 3).reshape(1, 3))
    compare('2-d grid with one column', analytic,
            np.linspace(-100, 20, 5).reshape(5, 1), expect='*')
    compare('list grid', analytic, [1.0, 2.0, 3.0], expect='AttributeError')
    compare('nan in grid', analytic, np.array([-10.0, float('nan'), 5.0]),
            expect='*')
    compare('inf in grid', analytic, np.array([-10.0, float('inf'), 5.0]),
            expect='*')
    compare('-inf in grid', analytic, np.array([float('-inf'), -10.0, 5.0]),
            expect='*')
    compare('object grid', analytic, np.array([-10.0, 4, 5.5], dtype=object),
            expect='*')
    compare('string grid', analytic, np.array(['a', 'b']), expect='*')
    for which in ('sy_fail_at', 'T_fail_at'):
        for at in (1, 2, 22, 100):
            compare('%s=%d' % (which, at), analytic, grid,
                    expect='RuntimeError', **{which: at})
            compare('%s=%d, c=0' % (which, at), analytic, grid, curvature=0.0,
                    expect='RuntimeError', **{which: at})

    print('parameterised functions from the sample parameter files')
    for kind in ('peatclsm', 'spline'):
        make = lambda kind=kind: load_functions(kind)  # noqa: E731
        top = 290.0 if kind == 'spline' else 40.0
        fgrids = {
            'grid': np.linspace(-400, -5, 7),
            'int grid': np.arange(-300, 1, 100),
            'single': np.array([-20.0]),
            'ties': np.array([-100.0, -100.0, -50.0, -50.0]),
            'decreasing': np.linspace(-5, -200, 4),
        }
        for name, grid in fgrids.items():
            for curvature, et in ((2.36e-3, 4.15), (0.0, 4.15), (2.36e-3, 0.0),
                                  (0, 3), (0.0, 0.0)):
                compare('%s %s, c=%r et=%r' % (kind, name, curvature, et),
                        make, grid, curvature=curvature, et=et, expect='*')
        # beyond the range of the transmissivity: raised whatever curvature
        high = np.array([-50.0, 0.0, 5000.0])
        for curvature in (2.36e-3, 0.0, 0):
            compare('%s above range, c=%r' % (kind, curvature), make, high,
                    curvature=curvature,
                    expect={'peatclsm': 'ValueError',
                            'spline': 'NotImplementedError'}[kind])
        compare('%s unrecorded' % kind, make, fgrids['grid'], record=False)

    print('repeated calls in one process')
    for kind in ('peatclsm', 'spline'):
        shared = load_functions(kind)
        for turn in range(2):
            for name, grid in grids.items():
                if kind == 'spline' and len(grid) > 20:
                    continue
                compare('%s shared objects, %s, turn %d' % (kind, name, turn),
                        lambda: shared, grid, mean=2.0, curvature=1e-3, et=3.0,
                        record=False, expect='*')
    print('dump_simulated_recession on the sample data')
    for sample in (1, 2):
        conn = sample_db(sample)
        for kind in ('peatclsm', 'spline'):
            for observations_only in (False, True):
                outputs = []
                for mod in (OLD, NEW):
                    out = io.StringIO()
                    with open(os.path.join(
                            SAMPLE, kind + '_parameters.yml')) as params:
                        try:
                            mod.dump_simulated_recession(
                                conn, params, out, observations_only)
                            outputs.append(('ok', out.getvalue()))
                        except BaseException as exc:  # noqa
                            outputs.append(('exc', type(exc).__name__,
                                            str(exc), out.getvalue()))
                assert outputs[0] == outputs[1], (sample, kind)
                N_CASES += 1
                print('  sample %d %s observations_only=%s: %s, %d bytes'
                      % (sample, kind, observations_only, outputs[0][0],
                         len(outputs[0][-1])))
    print('diff_check_4: %d comparisons identical' % N_CASES)


if __name__ == '__main__':
    main()
