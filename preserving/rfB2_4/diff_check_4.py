"""Differential check for refactor4.diff (fit_offsets.py: build_head_mapping,
find_offsets, get_connected_components restructured)"""

import copy
import pickle

import numpy as np

import diff_common as dc

orig, new = dc.load_pair(4, 'fit_offsets')
n = 0


def canon(value):
    """Canonical, order- and type-preserving, bit-exact form"""
    if isinstance(value, dict):
        return ('dict', [(canon(k), canon(v)) for k, v in value.items()])
    if isinstance(value, (list, tuple)):
        return (type(value).__name__, [canon(v) for v in value])
    if isinstance(value, np.ndarray):
        return ('ndarray', value.dtype.str, value.shape, value.tobytes())
    if isinstance(value, (float, np.floating)):
        return (type(value).__name__, np.float64(value).tobytes())
    if isinstance(value, (set, frozenset)):
        return (type(value).__name__, sorted(canon(v) for v in value))
    return (type(value).__name__, value)


def same(fn_name, *args):
    """Call fn_name from both modules on private copies of args; compare
    outcome AND the (possibly mutated) arguments"""
    global n
    args_a, args_b = copy.deepcopy(args), copy.deepcopy(args)
    a = dc.outcome(getattr(orig, fn_name), *args_a)
    b = dc.outcome(getattr(new, fn_name), *args_b)
    if a[0] == 'ok':
        assert b[0] == 'ok', (fn_name, b)
        assert canon(a[1]) == canon(b[1]), (fn_name, a[1], b[1])
        assert pickle.dumps(canon(a[1])) == pickle.dumps(canon(b[1]))
    else:
        assert a == b, (fn_name, a, b)
    assert canon(args_a) == canon(args_b), fn_name
    n += 1
    return a


# ---- 1. Real series from the sample data, captured from rise/recession
import sqlite3  # noqa: E402
import spowtd.classify as classify_mod  # noqa: E402
import spowtd.recession as recession_mod  # noqa: E402
import spowtd.rise as rise_mod  # noqa: E402
import spowtd.zeta_grid as zeta_grid_mod  # noqa: E402

load_mod = dc.load_module(dc.ROOT, 'load', 'wt_load')
captured = []


def capturing(series_list, head_step):
    captured.append((copy.deepcopy(series_list), head_step))
    return orig.get_series_time_offsets(series_list, head_step)


recession_mod.get_series_time_offsets = capturing
rise_mod.get_series_time_offsets = capturing
for sample in (1, 2):
    conn = dc.loaded_db(load_mod, sample)
    classify_mod.classify_intervals(
        conn, storm_rain_threshold_mm_h=8.0, rising_jump_threshold_mm_h=5.0
    )
    zeta_grid_mod.populate_zeta_grid(conn, grid_interval_mm=1.0)
    recession_mod.find_recession_offsets(conn)
    rise_mod.find_rise_offsets(conn)
assert len(captured) == 4, len(captured)
for series_list, head_step in captured:
    r = same('get_series_time_offsets', series_list, head_step)
    assert r[0] == 'ok'
    same('get_series_time_offsets', series_list, head_step * 2.5)
    same('get_series_time_offsets', series_list[::-1], head_step)
    same('get_series_time_offsets', series_list[:3], head_step)
    same('build_head_mapping', series_list, head_step)
    mapping = orig.build_head_mapping(copy.deepcopy(series_list), head_step)
    series_at_head = {
        head: set(sid for sid, _ in value) for head, value in mapping.items()
    }
    same('get_connected_components', series_at_head)
    same('find_offsets', mapping)

# ---- 2. Synthetic series
rng = np.random.default_rng(20260926)


def random_series(kind):
    length = int(rng.integers(2, 30))
    t = np.cumsum(rng.uniform(0.1, 3.0, size=length)) + rng.uniform(0, 1e6)
    top = rng.uniform(-50, 50)
    if kind == 'falling':
        H = top - np.cumsum(rng.uniform(0.0, 2.5, size=length))
    elif kind == 'rising':
        H = top + np.cumsum(rng.uniform(0.0, 2.5, size=length))
    else:  # wiggly: same head crossed several times -> means over >1 time
        H = top + np.cumsum(rng.normal(0.0, 1.5, size=length))
    return (t, H)


for trial in range(150):
    kind = ('falling', 'rising', 'wiggly')[trial % 3]
    count = int(rng.integers(1, 12))
    series_list = [random_series(kind) for _ in range(count)]
    if trial % 5 == 0:
        # far-apart clusters -> several connected components
        for i, (t, H) in enumerate(series_list):
            series_list[i] = (t, H + 1000.0 * (i % 3))
    head_step = [1.0, 0.5, 2.0, 0.3][trial % 4]
    same('get_series_time_offsets', series_list, head_step)
    same('build_head_mapping', series_list, head_step)
    mapping = orig.build_head_mapping(copy.deepcopy(series_list), head_step)
    series_at_head = {
        head: set(sid for sid, _ in value) for head, value in mapping.items()
    }
    components = same('get_connected_components', series_at_head)
    same('get_connected_components',
         {k: frozenset(v) for k, v in series_at_head.items()})
    same('find_offsets', mapping)
    for cc in components[1][:2]:
        same('find_offsets', {h: v for h, v in mapping.items() if h in cc})

# ---- 3. Hand-made mappings and error paths
same('get_series_time_offsets', [], 1.0)
same('get_series_time_offsets', [(np.array([0.0, 1.0]), np.array([5.0, 1.0]))],
     1.0)  # single series: no informative heads
same('get_series_time_offsets',
     [(np.array([0.0, 1.0]), np.array([5.0, 1.0])),
      (np.array([0.0, 1.0]), np.array([50.0, 41.0]))], 1.0)  # no overlap
same('get_series_time_offsets',
     [(np.array([0.0, 1.0]), np.array([5.0, np.nan]))], 1.0)
same('get_series_time_offsets',
     [(np.array([0.0, 1.0, 2.0]), np.array([5.0, 1.0]))], 1.0)
same('build_head_mapping', [], 1.0)
same('build_head_mapping', [(np.array([]), np.array([]))], 1.0)
same('build_head_mapping', [(np.array([0.0, 1.0]), np.array([0.2, 0.4]))])
same('build_head_mapping', [(np.array([0.0, 1.0]),)], 1.0)
same('get_connected_components', {})
same('get_connected_components', {1: {0}})
same('get_connected_components', {1: set(), 2: set()})
same('get_connected_components', {3: {0, 1}, 1: {2}, 2: {1, 2}, 9: {7}})
same('get_connected_components',
     {5: {'a'}, 4: {'b'}, 3: {'c'}, 2: {'a', 'c'}, 1: {'b', 'c'}, 0: {'z'}})
same('get_connected_components', {1: [0, 1], 2: [1]})  # lists: AttributeError
same('get_connected_components', {1: {0, 1}, 2: [1]})
same('get_connected_components', {1: {0}, 2: 5})
same('find_offsets', {})
same('find_offsets', {1: [(0, 1.0)]})
same('find_offsets', {1: [(0, 1.0), (1, 2.0)]})
same('find_offsets', {1: [(0, 1.0), (1, 2.0)], 2: [(0, 3.0)], 3: []})
same('find_offsets', {1: [(0, 1.0)], 3: [], 2: [(5, 3.0)]})
same('find_offsets', {1: [(0, 1.0), (1, 2.0)], 2: [(2, 3.0), (3, 7.0)]})
same('find_offsets', {1: [(0, 1.0), (1, 2.0), (2, 2.5)], 2: [(1, 3.0), (2, 7.0)],
                      7: [(0, -1.0), (2, 0.5)]})
same('find_offsets', {1: [('a', 1.0), ('b', 2.0)], 2: [('b', 3.0), ('c', 7.0)]})
same('find_offsets', {1: [('a', 1.0), (1, 2.0)], 2: [(1, 3.0), ('a', 7.0)]})
same('find_offsets', {1: [([0], 1.0), (1, 2.0)]})  # unhashable id
same('find_offsets', {1: [(0, 1.0, 5), (1, 2.0)]})  # bad pair shape
same('find_offsets', {1: [(0, 1.0), (0, 2.0)]})  # same id twice
same('find_offsets', {1: 5})
print('diff_check_4 OK ({} comparisons)'.format(n))
