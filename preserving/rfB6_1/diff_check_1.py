"""Differential check for refactor1.diff (get_connected_components)"""

import sys

import diff_harness

WORKER = r'''
import random

import spowtd.fit_offsets as fit_offsets_mod
import spowtd.recession as recession_mod
import spowtd.rise as rise_mod

# 1. Sample data through the real pipeline, recording every call
_inner = fit_offsets_mod.get_connected_components


def _recording(head_mapping):
    snapshot = dict((key, set(value)) for key, value in head_mapping.items())
    result = _inner(head_mapping)
    RESULTS.append(('pipeline call', list(snapshot.items()), result))
    # input must not be mutated
    assert snapshot == head_mapping
    assert list(snapshot) == list(head_mapping)
    return result


fit_offsets_mod.get_connected_components = _recording
for sample in (1, 2):
    connection = classify_sample(sample)
    record(('recession', sample), recession_mod.find_recession_offsets,
           connection)
    record(('rise', sample), rise_mod.find_rise_offsets, connection)
    RESULTS.append(('database', sample, dump_database(connection)))
fit_offsets_mod.get_connected_components = _inner

# 2. Synthetic inputs
record('empty', _inner, {})
record('single', _inner, {7: {1}})
record('empty set value', _inner, {1: set(), 2: set(), 3: {1}})
record('frozensets', _inner,
       {1: frozenset([1, 2]), 2: frozenset([2, 3]), 3: frozenset([9])})
record('list value', _inner, {1: [1, 2]})
record('list value later', _inner, {1: {1, 2}, 2: [1, 2]})
record('none value', _inner, {1: {1}, 2: None})
# A late head that bridges several earlier components (order of merge)
record('bridge', _inner,
       {10: {1}, 11: {2}, 12: {3}, 13: {4}, 14: {3, 1}, 15: {9},
        16: {4, 2, 1}, 17: {8}})
# Equal-length components: stable order in the final sort
record('ties', _inner,
       {'a': {1}, 'b': {2}, 'c': {3}, 'd': {2}, 'e': {1}, 'f': {3}})
record('tuple keys', _inner,
       {(1, 2): {1}, (3,): {1, 2}, 'x': {5}, None: {5}})

rng = random.Random(12345)
for trial in range(400):
    n_heads = rng.randrange(0, 25)
    n_series = rng.randrange(1, 12)
    keys = rng.sample(range(-50, 50), n_heads)
    mapping = {}
    for key in keys:
        size = rng.choice([0, 1, 1, 1, 2, 2, 3])
        mapping[key] = set(rng.sample(range(n_series), min(size, n_series)))
    before = [(key, set(value)) for key, value in mapping.items()]
    record(('random', trial, before), _inner, mapping)
    assert before == list(mapping.items())

finish()
'''

if __name__ == '__main__':
    sys.exit(diff_harness.main('refactor1.diff', WORKER))
