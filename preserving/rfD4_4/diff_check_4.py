"""Differential check for refactor4 (pestfiles: the two .tpl generators share block helpers).

Usage: PYTHONPATH=/tmp/rf_D /venv/bin/python diff_check_4.py [-v]
"""
import copy
import os
import pickle
import subprocess
import sys
import tempfile

HERE = os.path.dirname(os.path.abspath(__file__))


def norm(value):
    """Exact, picklable representation of a result"""
    import numpy as np
    if isinstance(value, np.ndarray):
        return ('ndarray', str(value.dtype), value.shape, value.tobytes())
    if isinstance(value, np.generic):
        return ('npscalar', str(value.dtype), value.tobytes())
    if isinstance(value, float):
        return ('float', value.hex())
    if isinstance(value, (list, tuple)):
        return (type(value).__name__, [norm(v) for v in value])
    if isinstance(value, dict):
        return ('dict', [(norm(k), norm(v)) for k, v in value.items()])
    return (type(value).__name__, repr(value))


def attempt(func):
    try:
        return ('ok', norm(func()))
    except BaseException as exc:  # pylint: disable=broad-except
        return ('exc', type(exc).__name__, str(exc), repr(exc.args))


def scenarios():
    import io
    import itertools
    import tempfile
    import yaml
    import spowtd.pestfiles as pest_mod
    import spowtd.user_interface as ui_mod
    import spowtd
    sample = os.path.join(os.path.dirname(spowtd.__file__), 'test', 'sample_data')
    results = []
    texts = {}
    for kind in ('peatclsm', 'spline'):
        with open(os.path.join(sample, kind + '_parameters.yml')) as f:
            texts[kind] = f.read()
    generators = (('rise', pest_mod.generate_rise_tpl_file),
                  ('curves', pest_mod.generate_curves_tpl_file))

    def run_generator(gen, pars):
        out = io.StringIO()
        before = repr(pars)
        try:
            ret = gen(connection=None, parameters=pars, configuration={},
                      outfile=out, precision=17)
        finally:
            written = out.getvalue()
        return [ret, written, before == repr(pars)]

    def run_safely(gen, pars):
        """Also record what reached the file when the generator raises"""
        out = io.StringIO()
        try:
            ret = gen(None, pars, {}, out, 17)
            return ['ok', repr(ret), out.getvalue()]
        except BaseException as exc:
            return ['exc', type(exc).__name__, str(exc), out.getvalue()]

    # 1. Sample parameter files, and mixed combinations of their halves
    base = {kind: yaml.safe_load(text) for kind, text in texts.items()}
    for sy_kind, t_kind in itertools.product(base, base):
        pars = {'specific_yield': copy.deepcopy(base[sy_kind]['specific_yield']),
                'transmissivity': copy.deepcopy(base[t_kind]['transmissivity'])}
        for label, gen in generators:
            results.append((label, sy_kind + '/' + t_kind, attempt(
                lambda: run_generator(gen, pars))))
    # 2. Synthetic parameter sets reaching every branch and failure
    def variants():
        for kind in base:
            for section in ('specific_yield', 'transmissivity'):
                for key in list(base[kind][section]):
                    pars = copy.deepcopy(base[kind])
                    del pars[section][key]
                    yield 'del-%s-%s-%s' % (kind, section, key), pars
                for key in list(base[kind][section]):
                    for value in (None, 5, 'abc', [], [1.5, 'x', None], 2.5e-7,
                                  {'a': 1}, True):
                        pars = copy.deepcopy(base[kind])
                        pars[section][key] = value
                        yield 'set-%s-%s-%s-%r' % (kind, section, key, value), pars
            for section in ('specific_yield', 'transmissivity'):
                pars = copy.deepcopy(base[kind])
                del pars[section]
                yield 'nosection-%s-%s' % (kind, section), pars
                pars = copy.deepcopy(base[kind])
                pars[section] = None
                yield 'nonesection-%s-%s' % (kind, section), pars
                pars = copy.deepcopy(base[kind])
                pars[section] = [('type', 'spline')]
                yield 'listsection-%s-%s' % (kind, section), pars
        yield 'empty', {}
        yield 'none', None
        yield 'both-bad', {'specific_yield': {'type': 'x'},
                           'transmissivity': {'type': 'y'}}
        yield 'both-missing-type', {'specific_yield': {}, 'transmissivity': {}}
        yield 'extra-keys', {
            'specific_yield': dict(base['spline']['specific_yield'], extra=1),
            'transmissivity': dict(base['peatclsm']['transmissivity'], more=[2]),
            'other': 3}
        yield 'long-knots', {
            'specific_yield': {'type': 'spline',
                               'zeta_knots_mm': list(range(-120, 0, 10)),
                               'sy_knots': [0.01 * i for i in range(12)]},
            'transmissivity': {'type': 'spline',
                               'zeta_knots_mm': tuple(range(-120, 0, 10)),
                               'K_knots_km_d': tuple(1.5 ** i for i in range(12)),
                               'minimum_transmissivity_m2_d': 1e-3}}
        yield 'generator-knots', {
            'specific_yield': {'type': 'spline',
                               'zeta_knots_mm': (i for i in range(3)),
                               'sy_knots': (i for i in range(3))},
            'transmissivity': base['spline']['transmissivity']}
    for name, pars in variants():
        for label, gen in generators:
            results.append((label, name, ('ok', norm(run_safely(gen, pars)))))
    # 3. Through the public drivers and the CLI
    for kind, text in sorted(texts.items()):
        for label, driver in (('rise', pest_mod.generate_rise_pestfiles),
                              ('curves', pest_mod.generate_curves_pestfiles)):
            def drive(driver=driver, text=text, config=None):
                out = io.StringIO()
                driver(None, io.StringIO(text), 'tpl', config, out)
                return out.getvalue()
            results.append((label, 'driver-' + kind, attempt(drive)))
            results.append((label, 'driver-config-' + kind, attempt(
                lambda: drive(config=io.StringIO('a: 1')))))
            results.append((label, 'driver-badtype-' + kind, attempt(
                lambda: driver(None, io.StringIO(text), 'txt', None,
                               io.StringIO()))))
            results.append((label, 'driver-badyaml-' + kind, attempt(
                lambda: driver(None, io.StringIO(text.replace(
                    'type: ' + kind, 'type: other')), 'tpl', None,
                               io.StringIO()))))
            with tempfile.TemporaryDirectory() as tmp:
                out_path = os.path.join(tmp, 'out.tpl')
                def cli():
                    ret = ui_mod.main(
                        ['pestfiles', label, os.path.join(tmp, 'x.sqlite3'),
                         os.path.join(sample, kind + '_parameters.yml'),
                         'tpl', '-o', out_path])
                    with open(out_path, 'rb') as f:
                        return [ret, f.read()]
                results.append((label, 'cli-' + kind, attempt(cli)))
    return results


def main():
    if len(sys.argv) == 4 and sys.argv[1] == 'run':
        # The script directory is sys.path[0]; make sure the requested
        # copy of the package is the one imported.
        sys.path[:] = [sys.argv[3]] + [
            p for p in sys.path if os.path.abspath(p or '.') != HERE]
        import spowtd
        assert os.path.dirname(os.path.dirname(
            os.path.abspath(spowtd.__file__))) == sys.argv[3], spowtd.__file__
        with open(sys.argv[2], 'wb') as f:
            pickle.dump(scenarios(), f)
        return 0
    outputs = []
    with tempfile.TemporaryDirectory() as tmp:
        for label, root in (('orig', os.path.join(HERE, 'orig_pkg')),
                            ('new', os.environ.get('RF_NEW_ROOT', HERE))):
            out = os.path.join(tmp, label + '.pkl')
            env = dict(os.environ, PYTHONPATH=root,
                       PYTHONDONTWRITEBYTECODE='1')
            subprocess.check_call(
                [sys.executable, os.path.abspath(__file__), 'run', out, root],
                env=env, cwd=tmp)
            with open(out, 'rb') as f:
                outputs.append(pickle.load(f))
    orig, new = outputs
    assert len(orig) == len(new)
    for a, b in zip(orig, new):
        assert a == b, (a, b)
    if '-v' in sys.argv:
        for r in orig:
            print(r[:2], r[2][:3] if r[2][0] == 'exc' else 'ok')
    n_exc = sum(1 for r in orig if r[2][0] == 'exc')
    print('diff_check_4: {} scenarios identical ({} raise)'.format(
        len(orig), n_exc))
    return 0


if __name__ == '__main__':
    sys.exit(main())
