"""Differential check for refactor2.diff (regrid.regrid)"""

import sys

import diff_harness

WORKER = r'''
import warnings

import spowtd.fit_offsets as fit_offsets_mod
import spowtd.recession as recession_mod
import spowtd.regrid as regrid_mod
import spowtd.rise as rise_mod

_inner = regrid_mod.regrid


def drain(*args, **kwargs):
    """Consume the generator item by item; keep what came before an error"""
    items = []
    with warnings.catch_warnings(record=True) as caught:
        warnings.simplefilter('always')
        try:
            for item in _inner(*args, **kwargs):
                assert type(item) is tuple and len(item) == 2
                items.append((type(item[0]).__name__, item[0],
                              type(item[1]).__name__, item[1]))
        except BaseException as exc:  # pylint: disable=broad-except
            outcome = ('raised', type(exc).__name__, str(exc))
        else:
            outcome = ('done',)
    # any new warning is a difference too
    messages = [(w.category.__name__, str(w.message)) for w in caught]
    return (items, outcome, messages)


# 1. Sample data through the real pipeline, recording every call
def _recording(x, y, y_step, interpolant='linear'):
    outcome = drain(x, y, y_step, interpolant)
    RESULTS.append(('pipeline call', np.array(x), np.array(y), y_step,
                    outcome))
    return _inner(x, y, y_step, interpolant)


regrid_mod.regrid = _recording
for sample in (1, 2):
    connection = classify_sample(sample)
    record(('recession', sample), recession_mod.find_recession_offsets,
           connection)
    record(('rise', sample), rise_mod.find_rise_offsets, connection)
    RESULTS.append(('database', sample, dump_database(connection)))
regrid_mod.regrid = _inner

# 2. Synthetic inputs
def case(label, *args, **kwargs):
    RESULTS.append((label, drain(*args, **kwargs)))


ys = np.array([2.0, 5.2, -1.3, -1.2, 10.0])
xs = list(range(len(ys)))
for kind in ('linear', 'nearest', 'zero', 'slinear', 'quadratic', 'cubic',
             'previous', 'next', 'bogus'):
    case(('module demo', kind), xs, ys, 1.0, interpolant=kind)
    case(('module demo array x', kind), np.array(xs, dtype=float), ys, 0.5,
         interpolant=kind)
case('empty', [], np.array([]), 1.0)
case('empty lists', [], [], 1.0)
case('length mismatch', [0, 1, 2], np.array([1.0, 2.0]), 1.0)
case('single point', [0.0], np.array([3.5]), 1.0)
case('list y', [0, 1], [0.0, 3.0], 1.0)
case('nan', [0, 1, 2], np.array([0.0, np.nan, 2.0]), 1.0)
case('inf', [0, 1, 2], np.array([0.0, np.inf, 2.0]), 1.0)
case('flat', [0, 1, 2, 3], np.array([1.5, 1.5, 1.5, 1.5]), 1.0)
case('flat on grid', [0, 1, 2, 3], np.array([2.0, 2.0, 2.0, 2.0]), 1.0)
case('exact grid rising', [0, 1, 2], np.array([1.0, 3.0, 6.0]), 1.0)
case('exact grid falling', [0, 1, 2], np.array([6.0, 3.0, 1.0]), 1.0)
case('negative step', [0, 1, 2, 3], np.array([0.3, 4.1, -2.2, 0.9]), -0.7)
case('zero step', [0, 1, 2], np.array([0.3, 4.1, -2.2]), 0.0)
case('integer y', [0, 1, 2, 3], np.array([0, 4, -2, 1]), 1)
case('integer y step 2', np.array([0, 10, 20, 30]), np.array([0, 5, -3, 1]),
     2)
case('float32 y', np.array([0., 1., 2.], dtype='float32'),
     np.array([0.2, 3.7, -1.1], dtype='float32'), np.float32(0.5))
case('unsorted x', [0, 2, 1, 3], np.array([0.0, 3.0, 1.0, 5.0]), 1.0)
case('repeated x', [0, 1, 1, 2], np.array([0.0, 3.0, 1.0, 5.0]), 1.0)
case('two-dimensional y', [0, 1], np.array([[0.0, 3.0], [4.0, 1.0]]), 1.0)
case('two-dimensional y 3', [0, 1, 2],
     np.array([[0.0, 3.0, 1.], [4.0, 1.0, 1.], [0., 0., 0.]]), 1.0)
case('column y', [0], np.array([[0.0]]), 1.0)
case('large', [0, 1, 2], np.array([1e15, 1e15 + 3, 1e15 - 2]), 1.0)
case('huge', [0, 1, 2], np.array([1e19, 1e19, -1e19]), 1.0)
case('huge flat negative', [0, 1], np.array([-1e19, -1e19]), 1.0)
case('tuple x', (0.0, 0.5, 2.0), np.array([0.25, -3.5, 2.75]), 0.25)

rng = np.random.default_rng(20260927)
for trial in range(300):
    n = int(rng.integers(2, 40))
    x = np.cumsum(rng.uniform(0.1, 5.0, size=n))
    if trial % 3 == 0:
        y = np.cumsum(rng.normal(0, 3, size=n))
    elif trial % 3 == 1:
        y = np.sort(rng.normal(0, 20, size=n))[::-1].copy()
    else:
        y = np.round(np.cumsum(rng.normal(0, 2, size=n)))  # hits the grid
    step = float(rng.choice([0.1, 0.5, 1.0, 2.5]))
    kind = ('linear', 'linear', 'slinear', 'cubic', 'nearest')[trial % 5]
    if trial % 7 == 0:
        x = x.tolist()
    RESULTS.append((('random', trial), np.array(x), y, step, kind,
                    drain(x, y, step, interpolant=kind)))

finish()
'''

if __name__ == '__main__':
    sys.exit(diff_harness.main('refactor2.diff', WORKER))
