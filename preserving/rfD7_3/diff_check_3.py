"""Differential check for refactor3.diff

pestfiles.generate_rise_pst_file / generate_curves_pst_file: the count
query and the observation queries.

Run: cd /tmp/rf_D && /venv/bin/python diff_check_3.py

"""

import os
import sys

sys.path.insert(0, '/tmp/rf_D')
import dc_common as dc  # noqa: E402


def worker():
    return dc.pest_worker('c3', 'pst')


ALIASES = {
    'ard': 'average_rising_depth',
    'art': 'average_recession_time',
    'storage_observation': 'average_rising_depth',
    'time_observation': 'average_recession_time',
}


def check(orig, new):
    assert sorted(orig) == sorted(new)
    tally = {}
    for key in sorted(orig):
        (o, n) = (orig[key], new[key])
        for field in (
            'outcome',
            'text',
            'values',
            'errors',
            'in_transaction',
            'dump',
        ):
            dc.compare(o[field], n[field], '%r %s' % (key, field))
        assert o['sql'] != n['sql'], 'refactored SQL was not exercised'
        assert len(o['sql']) == len(n['sql'])
        # The statements that aggregate floats keep their access path
        # (rise: [count, storage]; curves: [storage, time])
        first = 1 if key[2] == 'rise' else 0
        for i in range(first, len(o['plans'])):
            if o['plans'][i] is None:
                assert n['plans'][i] is None
                continue
            dc.compare(
                dc.scan_signature(o['plans'][i], ALIASES),
                dc.scan_signature(n['plans'][i], ALIASES),
                '%r plan %d' % (key, i),
            )
        tag = (key[2], o['outcome'][0],
               o['outcome'][1] if o['outcome'][0] == 'exc' else '')
        tally[tag] = tally.get(tag, 0) + 1
    for key in sorted(orig):
        if key[1] == 'spline' and key[3] == 0:
            o = orig[key]
            print(key[0], key[2], o['outcome'][:2],
                  'values=%d' % len(o['values']),
                  'text=%d bytes' % len(o['text']))
    for tag in sorted(tally):
        print(tag, tally[tag])
    assert tally[('rise', 'ok', '')] >= 60, tally
    assert tally[('curves', 'ok', '')] >= 60, tally
    assert sum(v for (k, v) in tally.items() if k[1] == 'exc') >= 8, tally


if __name__ == '__main__':
    dc.main(os.path.abspath(__file__), 3, worker, check)
