"""Differential check for refactor2 (Spline: clamp/knot_range helpers, integrate split).

Usage: PYTHONPATH=/tmp/rf_D /venv/bin/python diff_check_2.py [-v]
"""
import copy
import os
import pickle
import subprocess
import sys
import tempfile

HERE = os.path.dirname(os.path.abspath(__file__))


def norm(value):
    """Exact, picklable representation of a result"""
    import numpy as np
    if isinstance(value, np.ndarray):
        return ('ndarray', str(value.dtype), value.shape, value.tobytes())
    if isinstance(value, np.generic):
        return ('npscalar', str(value.dtype), value.tobytes())
    if isinstance(value, float):
        return ('float', value.hex())
    if isinstance(value, (list, tuple)):
        return (type(value).__name__, [norm(v) for v in value])
    if isinstance(value, dict):
        return ('dict', [(norm(k), norm(v)) for k, v in value.items()])
    return (type(value).__name__, repr(value))


def attempt(func):
    try:
        return ('ok', norm(func()))
    except BaseException as exc:  # pylint: disable=broad-except
        return ('exc', type(exc).__name__, str(exc), repr(exc.args))


def scenarios():
    import numpy as np
    import yaml
    import spowtd.spline as spline_mod
    import spowtd.specific_yield as sy_mod
    import spowtd
    sample = os.path.join(os.path.dirname(spowtd.__file__), 'test', 'sample_data')
    results = []
    splines = {}
    with open(os.path.join(sample, 'spline_parameters.yml')) as f:
        pars = yaml.safe_load(f)
    sy = pars['specific_yield']
    splines['sample-cubic'] = spline_mod.Spline.from_points(
        zip(sy['zeta_knots_mm'], sy['sy_knots']), order=3)
    splines['sample-linear'] = spline_mod.Spline.from_points(
        zip(sy['zeta_knots_mm'], sy['sy_knots']), order=1)
    tr = pars['transmissivity']
    splines['sample-logK'] = spline_mod.Spline.from_points(
        zip(tr['zeta_knots_mm'], np.log(tr['K_knots_km_d'])), order=1)
    rng = np.random.default_rng(20240927)
    x = np.cumsum(rng.uniform(0.1, 3.0, 12)) - 10.0
    y = rng.normal(size=12)
    splines['random-cubic'] = spline_mod.Spline.from_points(zip(x, y))
    splines['random-smooth'] = spline_mod.Spline.from_points(
        zip(x, y), s=0.5, order=2)
    splines['ints'] = spline_mod.Spline.from_points(
        [(0, 1), (1, 3), (2, 2), (4, -1)], order=1)
    # Direct construction from a tck, including a list-based one
    splines['tck-lists'] = spline_mod.Spline(
        ([0., 0., 1., 2., 2.], [1., 2., 3., 0., 0.], 1))
    for name, spline in sorted(splines.items()):
        results.append((name, 'domain', attempt(spline.domain)))
        xmin, xmax = spline.domain()
        span = xmax - xmin
        pts = [xmin - 2 * span, xmin - 1e-9, xmin, xmin + 1e-9,
               xmin + 0.3 * span, 0.5 * (xmin + xmax), xmax - 1e-9, xmax,
               xmax + 1e-9, xmax + 3 * span, -0.0, 0.0]
        grid = np.linspace(xmin - span, xmax + span, 41)
        for der in (0, 1, 2):
            results.append((name, 'call-array-%d' % der, attempt(
                lambda: spline(grid, der=der))))
            results.append((name, 'call-list-%d' % der, attempt(
                lambda: spline(list(grid), der))))
            for p in pts:
                results.append((name, 'call-%r-%d' % (p, der), attempt(
                    lambda: spline(p, der=der))))
        results.append((name, 'call-2d', attempt(
            lambda: spline(grid[:40].reshape(4, 10)))))
        results.append((name, 'call-int', attempt(lambda: spline(1))))
        results.append((name, 'call-nan', attempt(
            lambda: spline(np.array([np.nan, xmin, np.inf, -np.inf])))))
        results.append((name, 'call-str', attempt(lambda: spline('a'))))
        results.append((name, 'call-none', attempt(lambda: spline(None))))
        results.append((name, 'call-empty', attempt(lambda: spline([]))))
        for a in pts:
            for b in pts:
                results.append((name, 'int-%r-%r' % (a, b), attempt(
                    lambda: spline.integrate(a, b))))
        for a, b in [(np.float64(xmin - 1), np.float64(xmax + 1)),
                     (np.float32(xmin - 1), xmax), (int(xmin) - 3, int(xmax) + 3),
                     (float('nan'), 1.0), (1.0, float('nan')),
                     (-np.inf, xmin), (xmax, np.inf), (-np.inf, np.inf),
                     (np.inf, np.inf), ('a', 'b'), (None, 1.0),
                     (np.array([xmin - 1, xmin]), xmax),
                     (np.array(xmin - 1), np.array(xmax + 1))]:
            results.append((name, 'int-special-%r-%r' % (a, b), attempt(
                lambda: spline.integrate(a, b))))
    # Consumers of the spline: specific yield functions and rise curve
    sy_spline = sy_mod.SplineSpecificYield(sy['zeta_knots_mm'], sy['sy_knots'])
    zeta = np.linspace(-400, 300, 57)
    results.append(('sy', 'call', attempt(lambda: sy_spline(zeta))))
    results.append(('sy', 'rise', attempt(
        lambda: [sy_spline.integrate(zeta[0], z) for z in zeta])))
    results.append(('sy', 'rise-rev', attempt(
        lambda: [sy_spline.integrate(z, zeta[20]) for z in zeta])))
    # from_points validation is untouched but reaches the same class
    for bad in ([(0, 1), (0, 2), (1, 3), (2, 4)],
                [(0, 1), (1, np.nan), (2, 3), (3, 4)],
                [(0, 1), (np.inf, 2), (2, 3), (3, 4)],
                [(0, 1), (1, 2)], []):
        results.append(('from_points', repr(bad), attempt(
            lambda: spline_mod.Spline.from_points(bad).domain())))
    return results


def main():
    if len(sys.argv) == 4 and sys.argv[1] == 'run':
        # The script directory is sys.path[0]; make sure the requested
        # copy of the package is the one imported.
        sys.path[:] = [sys.argv[3]] + [
            p for p in sys.path if os.path.abspath(p or '.') != HERE]
        import spowtd
        assert os.path.dirname(os.path.dirname(
            os.path.abspath(spowtd.__file__))) == sys.argv[3], spowtd.__file__
        with open(sys.argv[2], 'wb') as f:
            pickle.dump(scenarios(), f)
        return 0
    outputs = []
    with tempfile.TemporaryDirectory() as tmp:
        for label, root in (('orig', os.path.join(HERE, 'orig_pkg')),
                            ('new', os.environ.get('RF_NEW_ROOT', HERE))):
            out = os.path.join(tmp, label + '.pkl')
            env = dict(os.environ, PYTHONPATH=root,
                       PYTHONDONTWRITEBYTECODE='1')
            subprocess.check_call(
                [sys.executable, os.path.abspath(__file__), 'run', out, root],
                env=env, cwd=tmp)
            with open(out, 'rb') as f:
                outputs.append(pickle.load(f))
    orig, new = outputs
    assert len(orig) == len(new)
    for a, b in zip(orig, new):
        assert a == b, (a, b)
    if '-v' in sys.argv:
        for r in orig:
            print(r[:2], r[2][:3] if r[2][0] == 'exc' else 'ok')
    n_exc = sum(1 for r in orig if r[2][0] == 'exc')
    print('diff_check_2: {} scenarios identical ({} raise)'.format(
        len(orig), n_exc))
    return 0


if __name__ == '__main__':
    sys.exit(main())
