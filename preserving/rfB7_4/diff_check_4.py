"""Differential check for refactor4.diff (load.populate_water_level: staging
query, UPDATE of grid_time.data_interval, INSERT into water_level)"""

import sys

import numpy as np

sys.path.insert(0, '/tmp/rf_B')
import dc_common as dc  # noqa: E402

tmp, orig_pkg, new_pkg = dc.build(4)
orig = dc.load_module(orig_pkg, 'load', 'orig_load')
new = dc.load_module(new_pkg, 'load', 'new_load')
assert ':data_interval' in open(new.__file__).read()
assert ':data_interval' not in open(orig.__file__).read()
failures = []

print('load_data paths')
dc.check_load_data_paths(orig, new, failures)


def direct(load_mod, grid_rows, zeta, time_grid, foreign_keys=True, calls=1,
           commit_first=False, pre=()):
    connection, tracer = dc.new_db(load_mod, foreign_keys=foreign_keys)
    connection.executemany(
        'INSERT INTO grid_time (epoch, data_interval) VALUES (?, ?)',
        [row if isinstance(row, tuple) else (row, None) for row in grid_rows],
    )
    dc.stage(connection, zeta=zeta)
    for statement in pre:
        connection.execute(statement)
    if commit_first:
        connection.commit()
    cursor = connection.cursor()
    outcomes = []
    for _ in range(calls):
        outcomes.append(
            dc.attempt(load_mod.populate_water_level, cursor, time_grid)
        )
    observation = dc.observe(connection, tracer, tuple(outcomes))
    connection.close()
    return observation


grid = [3600 * i for i in range(10)]            # 0 .. 32400
zeta_reg = [(1200 * i, -100.0 + 0.37 * i - 0.011 * i * i) for i in range(28)]
zeta_gap = (
    [(1200 * i, -50.0 + 0.3 * i) for i in range(0, 8)]
    + [(1200 * i, -40.0 - 0.7 * i) for i in range(14, 20)]
    + [(1200 * i, -30.0 + 0.1 * i) for i in range(23, 28)]
)
cases = {
    'regular': dict(grid_rows=grid, zeta=zeta_reg, time_grid=grid),
    'regular_ndarray': dict(grid_rows=grid, zeta=zeta_reg,
                            time_grid=np.array(grid)),
    'regular_int32': dict(grid_rows=grid, zeta=zeta_reg,
                          time_grid=np.array(grid, dtype='int32')),
    'gaps': dict(grid_rows=grid, zeta=zeta_gap, time_grid=grid),
    'gap_on_grid_point': dict(
        grid_rows=grid,
        zeta=[(1200 * i, float(i)) for i in (0, 1, 2, 3, 9, 10, 11, 12, 27)],
        time_grid=grid,
    ),
    'zeta_inside_grid': dict(
        grid_rows=grid,
        zeta=[(4000 + 1200 * i, -1.0 * i) for i in range(15)],
        time_grid=grid,
    ),
    'zeta_wider_than_grid': dict(
        grid_rows=grid,
        zeta=[(-6000 + 1200 * i, -1.0 * i) for i in range(60)],
        time_grid=grid,
    ),
    'existing_data_intervals': dict(
        grid_rows=[(e, 7 if i % 2 else None) for i, e in enumerate(grid)],
        zeta=zeta_gap, time_grid=grid,
    ),
    'grid_time_has_extra_rows': dict(
        grid_rows=[-3600] + grid + [36000, 39600], zeta=zeta_gap,
        time_grid=grid,
    ),
    # time grid epochs that are not grid times: UPDATE touches nothing,
    # INSERT fails on the foreign key at the first row
    'time_grid_not_in_grid_time': dict(
        grid_rows=grid, zeta=zeta_reg, time_grid=[e + 1 for e in grid],
    ),
    'time_grid_partly_in_grid_time': dict(
        grid_rows=grid[:5], zeta=zeta_reg, time_grid=grid,
    ),
    'time_grid_partly_fk_off': dict(
        grid_rows=grid[:5], zeta=zeta_reg, time_grid=grid,
        foreign_keys=False,
    ),
    'zeta_signed_zero_ties': dict(
        grid_rows=grid,
        zeta=[(1200 * i, v) for i, v in enumerate(
            [0.0, -0.0, 0, 5, 5.0, -0.0, 0.0, 1, 1, 1] * 3)][:28],
        time_grid=grid,
    ),
    'zeta_integers': dict(
        grid_rows=grid, zeta=[(1200 * i, i) for i in range(28)],
        time_grid=grid,
    ),
    'zeta_numeric_text': dict(
        grid_rows=grid, zeta=[(1200 * i, str(0.5 * i)) for i in range(28)],
        time_grid=grid,
    ),
    'zeta_text': dict(
        grid_rows=grid,
        zeta=[(1200 * i, 'abc' if i == 5 else 0.5 * i) for i in range(28)],
        time_grid=grid,
    ),
    # infinities give NaN on the grid, bound as NULL: NOT NULL failure
    # part-way through the executemany, earlier rows stay
    'zeta_inf': dict(
        grid_rows=grid,
        zeta=[(1200 * i - 600, float('inf') if i == 15 else
               (float('-inf') if i == 16 else 0.5 * i)) for i in range(29)],
        time_grid=grid,
    ),
    'empty_staging': dict(grid_rows=grid, zeta=[], time_grid=grid),
    'one_staging_row': dict(grid_rows=grid, zeta=[(0, 1.0)], time_grid=grid),
    'two_staging_rows': dict(grid_rows=grid, zeta=[(0, 1.0), (32400, 2.0)],
                             time_grid=grid),
    'float_time_grid': dict(grid_rows=grid, zeta=zeta_reg,
                            time_grid=[float(e) for e in grid]),
    'empty_time_grid': dict(grid_rows=grid, zeta=zeta_reg, time_grid=[]),
    'short_time_grid': dict(grid_rows=grid, zeta=zeta_reg, time_grid=[3600]),
    'two_point_time_grid': dict(grid_rows=grid, zeta=zeta_reg,
                                time_grid=[3600, 7200]),
    'unsorted_time_grid': dict(grid_rows=grid, zeta=zeta_reg,
                               time_grid=list(reversed(grid))),
    'duplicate_time_grid': dict(grid_rows=grid, zeta=zeta_reg,
                                time_grid=[0, 3600, 3600, 7200, 10800]),
    'called_twice': dict(grid_rows=grid, zeta=zeta_gap, time_grid=grid,
                         calls=2),
    'called_twice_committed': dict(grid_rows=grid, zeta=zeta_gap,
                                   time_grid=grid, calls=2,
                                   commit_first=True),
    'water_level_collision': dict(
        grid_rows=grid, zeta=zeta_gap, time_grid=grid,
        pre=['INSERT INTO water_level (epoch, zeta_mm) VALUES (7200, 1.5)'],
    ),
    'negative_epochs': dict(
        grid_rows=[-7200, -3600, 0, 3600],
        zeta=[(-7200 + 1200 * i, 0.1 * i) for i in range(10)],
        time_grid=[-7200, -3600, 0, 3600],
    ),
}
print('direct populate_water_level')
for name, kwargs in sorted(cases.items()):
    a = direct(orig, **kwargs)
    b = direct(new, **kwargs)
    dc.compare('direct_' + name, a, b, failures)
    print('  ', name, '->', [dc.summarize(o) for o in a[0]])

dc.cleanup(tmp)
if failures:
    print('FAILED:', failures)
    sys.exit(1)
print('diff_check_4: all comparisons identical')
