"""Differential check for refactor5.diff (zeta_grid.populate_zeta_grid:
bounds query and the INSERTs into zeta_grid / discrete_zeta)"""

import sys

sys.path.insert(0, '/tmp/rf_B')
import dc_common as dc  # noqa: E402

tmp, orig_pkg, new_pkg = dc.build(5)
load = dc.load_module(orig_pkg, 'load', 'orig_load')
orig = dc.load_module(orig_pkg, 'zeta_grid', 'orig_zeta_grid')
new = dc.load_module(new_pkg, 'zeta_grid', 'new_zeta_grid')
assert 'zg.id' in open(new.__file__).read()
assert 'zg.id' not in open(orig.__file__).read()
failures = []

print('sample data')
for sample in (1, 2):
    for interval in (1.0, 0.5, 10, 3, 1e-1, 250.0, -1.0, 1e9):
        observations = []
        for mod in (orig, new):
            connection, tracer, outcome = dc.run_load_sample(
                load, sample, keep=True
            )
            assert outcome[0] == 'ok' and not connection.in_transaction
            result = dc.attempt(mod.populate_zeta_grid, connection, interval)
            observations.append(dc.observe(connection, tracer, result))
            connection.close()
        name = 'sample_{}_interval_{!r}'.format(sample, interval)
        dc.compare(name, observations[0], observations[1], failures)
        print('  ', name, '->', dc.summarize(observations[0][0]),
              [len(entry[2]) for entry in observations[0][3]
               if entry[:2] == ('discrete_zeta', 'natural')])


def direct(mod, zeta, interval, foreign_keys=True, calls=1, pre=(),
           commit_first=True):
    connection, tracer = dc.new_db(load, foreign_keys=foreign_keys)
    connection.executemany(
        'INSERT INTO grid_time (epoch) VALUES (?)',
        [(i,) for i in range(len(zeta))],
    )
    connection.executemany(
        'INSERT INTO water_level (epoch, zeta_mm) VALUES (?, ?)',
        list(enumerate(zeta)),
    )
    for statement in pre:
        connection.execute(statement)
    if commit_first:
        connection.commit()
    intervals = interval if isinstance(interval, tuple) else (interval,) * calls
    outcomes = tuple(
        dc.attempt(mod.populate_zeta_grid, connection, value)
        for value in intervals
    )
    observation = dc.observe(connection, tracer, outcomes)
    connection.close()
    return observation


zeta_a = [-12.5, 3.25, -7.0, 14.75, 0.0, 2.0]
cases = {
    'plain': dict(zeta=zeta_a, interval=1.0),
    'plain_uncommitted': dict(zeta=zeta_a, interval=1.0, commit_first=False),
    'interval_int': dict(zeta=zeta_a, interval=2),
    'interval_bool': dict(zeta=zeta_a, interval=True),
    'interval_fraction': dict(zeta=zeta_a, interval=0.25),
    'interval_third': dict(zeta=zeta_a, interval=1.0 / 3.0),
    'interval_negative': dict(zeta=zeta_a, interval=-1.0),
    'interval_huge': dict(zeta=zeta_a, interval=1e300),
    'interval_inf': dict(zeta=zeta_a, interval=float('inf')),
    'interval_overflow': dict(zeta=[1e300, 1e300], interval=1e-30),
    'interval_int_too_large': dict(zeta=[1e19, 1e19 + 4096.0], interval=1.0),
    'interval_zero': dict(zeta=zeta_a, interval=0.0),
    'interval_zero_int': dict(zeta=zeta_a, interval=0),
    'interval_none': dict(zeta=zeta_a, interval=None),
    'interval_nan': dict(zeta=zeta_a, interval=float('nan')),
    'interval_text_number': dict(zeta=zeta_a, interval='2.0'),
    'interval_text': dict(zeta=zeta_a, interval='abc'),
    'interval_bytes': dict(zeta=zeta_a, interval=b'1'),
    'interval_list': dict(zeta=zeta_a, interval=[1.0]),
    'bounds_on_grid': dict(zeta=[-4.0, 6.0, 1.0], interval=2.0),
    'bounds_ties': dict(zeta=[5.0, 5.0, -3.0, -3.0, 5.0, -3.0], interval=1.0),
    'bounds_signed_zero_a': dict(zeta=[0.0, -0.0], interval=1.0),
    'bounds_signed_zero_b': dict(zeta=[-0.0, 0.0], interval=-1.0),
    'bounds_signed_zero_c': dict(zeta=[-0.0, 0.0, -0.0, 2.5], interval=1.0),
    'single_level': dict(zeta=[3.5], interval=1.0),
    'single_level_on_grid': dict(zeta=[3.0], interval=1.0),
    'integer_levels': dict(zeta=[3, -2, 7], interval=1.0),
    'integer_levels_int_interval': dict(zeta=[3, -2, 7], interval=2),
    'numeric_text_levels': dict(zeta=['3.5', '-2.25', ' 7 '], interval=1.0),
    'text_level_max': dict(zeta=[3.5, 'abc', -2.0], interval=1.0),
    'text_levels_only': dict(zeta=['abc', 'abd'], interval=1.0),
    'blob_level': dict(zeta=[3.5, b'\x01', -2.0], interval=1.0),
    'extreme_levels': dict(zeta=[-1e15, 1e15 + 2.0], interval=1e14),
    'infinite_level': dict(zeta=[1.0, float('inf')], interval=1.0),
    'empty_water_level': dict(zeta=[], interval=1.0),
    'fk_off': dict(zeta=zeta_a, interval=1.0, foreign_keys=False),
    'called_twice': dict(zeta=zeta_a, interval=1.0, calls=2),
    'called_twice_different': dict(zeta=zeta_a, interval=(1.0, 2.0)),
    'called_after_failure': dict(zeta=zeta_a, interval=(0.0, 1.0)),
    'zeta_grid_present': dict(
        zeta=zeta_a, interval=1.0,
        pre=['INSERT INTO zeta_grid (grid_interval_mm) VALUES (5.0)'],
    ),
    # colliding zeta number already present: executemany fails part-way,
    # earlier rows stay in the open transaction
    'discrete_zeta_collision': dict(
        zeta=zeta_a, interval=1.0, foreign_keys=False,
        pre=['INSERT INTO discrete_zeta (zeta_number) VALUES (-2)'],
    ),
    'discrete_zeta_other_rows': dict(
        zeta=zeta_a, interval=1.0, foreign_keys=False,
        pre=['INSERT INTO discrete_zeta (zeta_number) VALUES (100)'],
    ),
}
print('direct populate_zeta_grid')
for name, kwargs in sorted(cases.items()):
    a = direct(orig, **kwargs)
    b = direct(new, **kwargs)
    dc.compare('direct_' + name, a, b, failures)
    print('  ', name, '->', [dc.summarize(o) for o in a[0]])

dc.cleanup(tmp)
if failures:
    print('FAILED:', failures)
    sys.exit(1)
print('diff_check_5: all comparisons identical')
