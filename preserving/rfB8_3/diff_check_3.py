"""Differential check for refactor3.diff (spowtd/fit_offsets.py: get_series_time_offsets, build_head_mapping)

Usage:  /venv/bin/python /tmp/rf_B/diff_check_3.py

Builds two copies of the package in a temporary directory (HEAD, and
HEAD + refactor3.diff), runs the scenarios below in a subprocess against
each copy, and asserts that the pickled, canonicalised results are equal
(floats compared by their bytes / repr, exceptions by type and message).
"""

import os
import pickle
import subprocess
import sys
import tempfile

ROOT = os.path.dirname(os.path.abspath(__file__))
PATCH = os.environ.get('RF_PATCH', os.path.join(ROOT, 'refactor3.diff'))


# ---------------------------------------------------------------- harness
def build_trees(tmp):
    trees = {}
    archive = subprocess.run(
        ['git', '-C', ROOT, 'archive', 'HEAD', 'spowtd'],
        check=True,
        stdout=subprocess.PIPE,
    ).stdout
    for name in ('orig', 'new'):
        tree = os.path.join(tmp, name)
        os.makedirs(tree)
        subprocess.run(['tar', '-x', '-C', tree], input=archive, check=True)
        trees[name] = tree
    subprocess.run(
        ['patch', '-s', '-p1', '-i', PATCH], cwd=trees['new'], check=True
    )
    return trees


def canon(obj):
    """Canonical, picklable, exactly comparable form of a result"""
    import numpy as np

    if isinstance(obj, np.ndarray):
        return ('ndarray', obj.dtype.str, obj.shape, obj.tobytes())
    if isinstance(obj, np.generic):
        return ('npscalar', obj.dtype.str, obj.tobytes())
    if isinstance(obj, float):
        return ('float', obj.hex())
    if isinstance(obj, (bool, int, str, bytes, type(None))):
        return (type(obj).__name__, obj)
    if isinstance(obj, (list, tuple)):
        return (type(obj).__name__, [canon(item) for item in obj])
    if isinstance(obj, dict):
        # order is observable: keep it
        return (
            type(obj).__name__,
            [(canon(key), canon(value)) for key, value in obj.items()],
        )
    if isinstance(obj, (set, frozenset)):
        return (type(obj).__name__, sorted(canon(item) for item in obj))
    raise TypeError('cannot canonicalise {!r}'.format(type(obj)))


def attempt(function, *args, **kwargs):
    """Result of a call, or the exception it raised"""
    import warnings

    try:
        with warnings.catch_warnings(record=True) as caught:
            warnings.simplefilter('always')
            value = function(*args, **kwargs)
        return (
            'ok',
            canon(value),
            [(w.category.__name__, str(w.message)) for w in caught],
        )
    except BaseException as exc:  # pylint: disable=broad-except
        return ('raised', type(exc).__name__, str(exc))


def main():
    with tempfile.TemporaryDirectory(prefix='rfB_check_') as tmp:
        trees = build_trees(tmp)
        results = {}
        for name, tree in trees.items():
            out = os.path.join(tmp, name + '.pkl')
            env = dict(os.environ, PYTHONPATH=tree)
            subprocess.run(
                [sys.executable, os.path.abspath(__file__), '--worker', out],
                check=True,
                env=env,
                cwd=tree,
            )
            with open(out, 'rb') as stream:
                results[name] = pickle.load(stream)
        orig, new = results['orig'], results['new']
        assert orig['__source__'] != new['__source__'], 'patch not applied'
        del orig['__source__'], new['__source__']
        assert list(orig) == list(new)
        n_ok = 0
        for key in orig:
            assert orig[key] == new[key], 'MISMATCH in scenario {}'.format(key)
            n_ok += orig[key][0] == 'ok'
        print(
            'diff_check_3: {} scenarios identical ({} returned, {} raised)'
            .format(len(orig), n_ok, len(orig) - n_ok)
        )


# ---------------------------------------------------------------- worker
def worker(out_path):
    import logging
    import numpy as np
    import spowtd.fit_offsets as fit_offsets_mod

    assert fit_offsets_mod.__file__.startswith(os.environ['PYTHONPATH'])
    results = {}
    with open(fit_offsets_mod.__file__, 'rt') as stream:
        results['__source__'] = stream.read()

    messages = []

    class ListHandler(logging.Handler):
        def emit(self, record):
            messages.append(record.getMessage())

    fit_offsets_mod.LOG.addHandler(ListHandler())
    fit_offsets_mod.LOG.setLevel(logging.DEBUG)

    def describe(mapping):
        # value, plus the types of keys and of the items (observable)
        return (
            mapping,
            type(mapping).__name__,
            [
                (
                    type(key).__name__,
                    [
                        (type(sid).__name__, type(value).__name__)
                        for sid, value in crossings
                    ],
                )
                for key, crossings in mapping.items()
            ],
        )

    def run_series(series_list, head_step):
        del messages[:]
        arguments_before = canon([list(pair) for pair in series_list])
        try:
            indices, offsets, mapping = (
                fit_offsets_mod.get_series_time_offsets(series_list, head_step)
            )
            outcome = (
                'returned',
                indices,
                type(indices).__name__,
                [type(index).__name__ for index in indices],
                offsets,
                describe(mapping),
            )
        except Exception as exc:  # pylint: disable=broad-except
            outcome = ('raised', type(exc).__name__, str(exc))
        # the caller's series must be left alone
        arguments_after = canon([list(pair) for pair in series_list])
        return (
            outcome,
            list(messages),
            arguments_before == arguments_after,
        )

    def run_build(series, *args):
        return describe(fit_offsets_mod.build_head_mapping(series, *args))

    rng = np.random.default_rng(3)

    def random_series(n_series, kind):
        series_list = []
        for k in range(n_series):
            n = int(rng.integers(2, 25))
            t = 1000.0 * k + np.cumsum(rng.uniform(0.5, 2.0, size=n))
            if kind == 'recession':
                H = rng.uniform(5, 12) - np.cumsum(rng.uniform(0, 1.2, size=n))
            elif kind == 'wiggly':
                H = rng.uniform(5, 12) + np.cumsum(rng.normal(-0.3, 1, size=n))
            elif kind == 'integer':
                t = (60 * np.arange(n) + 3600 * k).astype('int64')
                H = (12 - np.cumsum(rng.integers(0, 3, size=n))).astype('int64')
            else:
                H = np.round(
                    rng.uniform(5, 12) - np.cumsum(rng.uniform(0, 1.2, size=n))
                )
            series_list.append((t, H))
        return series_list

    series_sets = {
        'empty': [],
        'one_series': [(np.arange(4.0), np.array([3.5, 2.5, 1.5, 0.5]))],
        'two_series': [
            (np.arange(4.0), np.array([3.5, 2.5, 1.5, 0.5])),
            (np.arange(4.0) + 50, np.array([3.9, 2.1, 1.2, 0.9])),
        ],
        'parallel_recessions': [
            (np.arange(6.0) + 100 * k, 9.7 - 1.3 * np.arange(6.0) + 0.4 * k)
            for k in range(4)
        ],
        'reversed_order': [
            (np.arange(6.0) + 100 * k, 9.7 - 1.3 * np.arange(6.0) - 0.4 * k)
            for k in range(4)
        ],
        'integer_dtype': [
            (np.arange(5) * 60 + 7 * k, np.array([9, 7, 6, 4, 1]) + k)
            for k in range(3)
        ],
        'non_monotonic': [
            (np.arange(7.0), np.array([5.2, 3.1, 4.4, 2.0, 2.9, 0.3, 1.1])),
            (np.arange(7.0), np.array([6.1, 5.5, 5.9, 3.3, 1.2, 2.2, 0.1])),
            (np.arange(4.0), np.array([4.0, 3.0, 3.0, 1.0])),
        ],
        'disconnected': [
            (np.arange(3.0), np.array([10.5, 9.5, 8.5])),
            (np.arange(3.0), np.array([10.2, 9.1, 8.3])),
            (np.arange(3.0), np.array([2.5, 1.5, 0.5])),
        ],
        'disconnected_larger_second': [
            (np.arange(3.0), np.array([10.5, 9.5, 8.5])),
            (np.arange(3.0), np.array([2.2, 1.1, 0.3])),
            (np.arange(3.0), np.array([2.5, 1.5, 0.5])),
            (np.arange(3.0), np.array([2.7, 1.2, 0.1])),
        ],
        'no_crossings': [
            (np.arange(3.0), np.array([0.5, 0.4, 0.3])),
            (np.arange(3.0), np.array([0.6, 0.4, 0.2])),
        ],
        'no_overlap_singletons_only': [
            (np.arange(3.0), np.array([9.5, 8.5, 7.5])),
            (np.arange(3.0), np.array([4.5, 3.5, 2.5])),
        ],
        'ties_in_initial_head': [
            (np.arange(4.0), np.array([5.5, 4.1, 2.2, 0.3])),
            (np.arange(4.0) + 3, np.array([5.5, 3.1, 2.8, 1.3])),
            (np.arange(4.0) + 9, np.array([5.5, 4.9, 1.8, 0.9])),
        ],
        'rises': [
            (np.array((0, 12.5)), np.array((-30.2, -21.7))),
            (np.array((0, 4.0)), np.array((-25.5, -23.1))),
            (np.array((0, 20.25)), np.array((-28.0, -10.0))),
            (np.array((0, 3.0)), np.array((-11.5, -9.5))),
        ],
        'length_mismatch': [
            (np.arange(3.0), np.array([2.5, 1.5])),
            (np.arange(3.0), np.array([2.5, 1.5, 0.5])),
        ],
        'nan_head': [
            (np.arange(3.0), np.array([2.5, np.nan, 0.5])),
            (np.arange(3.0), np.array([2.5, 1.5, 0.5])),
        ],
        'empty_series_inside': [
            (np.array([]), np.array([])),
            (np.arange(3.0), np.array([2.5, 1.5, 0.5])),
        ],
    }
    for i, kind in enumerate(
        ['recession', 'wiggly', 'integer', 'rounded'] * 4
    ):
        series_sets['random_{}_{}'.format(kind, i)] = random_series(
            int(rng.integers(2, 9)), kind
        )
    for name, series_list in series_sets.items():
        for head_step in (1.0, 0.5, 2):
            results['series/{}/{}'.format(name, head_step)] = attempt(
                run_series, series_list, head_step
            )
            results['build/{}/{}'.format(name, head_step)] = attempt(
                run_build, series_list, head_step
            )
        results['build/{}/default'.format(name)] = attempt(
            run_build, series_list
        )
    # repeated calls in one process
    results['series/repeat'] = attempt(
        lambda: [
            run_series(series_sets['non_monotonic'], 0.5) for _ in range(3)
        ]
    )
    # series given as a tuple / a generator-free iterable of lists
    results['build/tuple_of_lists'] = attempt(
        run_build,
        tuple(
            [list(t), H] for t, H in series_sets['parallel_recessions']
        ),
        1.0,
    )

    # The sample data, through the callers
    results.update(sample_data_results())
    with open(out_path, 'wb') as stream:
        pickle.dump(results, stream)


def dump_database(connection):
    """Every table and view, rows in natural order, floats exact"""
    cursor = connection.cursor()
    names = [
        name
        for name, in cursor.execute(
            "SELECT name FROM sqlite_master "
            "WHERE type IN ('table', 'view') ORDER BY name"
        ).fetchall()
    ]
    return [
        (name, cursor.execute('SELECT * FROM "{}"'.format(name)).fetchall())
        for name in names
    ]


def sample_path(kind, sample):
    return os.path.join(
        os.environ['PYTHONPATH'],
        'spowtd',
        'test',
        'sample_data',
        '{}_{}.txt'.format(kind, sample),
    )


def load_sample(connection, sample, time_zone_name='Africa/Lagos'):
    """Load one of the sample data sets, as the test fixtures do"""
    import spowtd.load as load_mod

    files = [
        open(sample_path(kind, sample), 'rt', encoding='utf-8-sig')
        for kind in ('precipitation', 'evapotranspiration', 'water_level')
    ]
    try:
        load_mod.load_data(connection, *files, time_zone_name=time_zone_name)
    finally:
        for stream in files:
            stream.close()


def sample_data_results():
    """Run the CLI steps load .. rise on both sample data sets"""
    import sqlite3
    import spowtd.classify as classify_mod
    import spowtd.recession as recession_mod
    import spowtd.rise as rise_mod
    import spowtd.zeta_grid as zeta_grid_mod

    results = {}
    for sample in (1, 2):
        connection = sqlite3.connect(':memory:')
        load_sample(connection, sample)
        results['sample_{}/loaded'.format(sample)] = (
            'ok',
            canon(dump_database(connection)),
            [],
        )
        classify_mod.classify_intervals(
            connection,
            storm_rain_threshold_mm_h=8.0,
            rising_jump_threshold_mm_h=5.0,
        )
        zeta_grid_mod.populate_zeta_grid(connection, grid_interval_mm=1.0)
        recession_mod.find_recession_offsets(connection)
        rise_mod.find_rise_offsets(connection)
        results['sample_{}/dump'.format(sample)] = (
            'ok',
            canon(dump_database(connection)),
            [],
        )
        connection.close()
    return results


if __name__ == '__main__':
    if len(sys.argv) == 3 and sys.argv[1] == '--worker':
        # import the package from PYTHONPATH, not from the script's directory
        sys.path[:] = [
            entry
            for entry in sys.path
            if os.path.abspath(entry or os.curdir) != ROOT
        ]
        worker(sys.argv[2])
    else:
        main()
