"""Differential check for refactor1.diff (spline.Spline.__call__ / integrate)"""

import itertools
import os
import sys

sys.path.insert(0, os.path.dirname(os.path.abspath(__file__)))
import diff_check_common as common  # noqa: E402


def collect():
    import numpy as np
    import yaml

    import spowtd.spline as spline_mod
    import spowtd.specific_yield as sy_mod
    from spowtd.test import conftest

    results = {}
    splines = {}
    with open(conftest.get_parameter_file_path('spline'), 'rt') as infile:
        pars = yaml.safe_load(infile)
    splines['sy_cubic'] = spline_mod.Spline.from_points(
        zip(
            pars['specific_yield']['zeta_knots_mm'],
            pars['specific_yield']['sy_knots'],
        ),
        order=3,
    )
    splines['logK_linear'] = spline_mod.Spline.from_points(
        zip(
            pars['transmissivity']['zeta_knots_mm'],
            np.log(pars['transmissivity']['K_knots_km_d']),
        ),
        order=1,
    )
    splines['peatclsm'] = sy_mod.PeatclsmSpecificYield(
        sd=0.162, theta_s=0.88, b=7.4, psi_s=-0.024
    )._spline
    rng = np.random.default_rng(20260927)
    xs = np.sort(rng.uniform(-5, 5, 9))
    splines['random_smooth'] = spline_mod.Spline.from_points(
        zip(xs, rng.normal(size=9)), s=0.5, order=3
    )
    splines['neg_values'] = spline_mod.Spline.from_points(
        [(0, -0.0), (1, -2.0), (2, 3.0), (3, -1.0)], order=2
    )
    splines['integer_knots'] = spline_mod.Spline.from_points(
        [(-2, 1), (0, 4), (1, 2), (5, 3)], order=1
    )

    for name, spline in splines.items():
        xmin, xmax = spline.domain()
        xmin, xmax = float(xmin), float(xmax)
        span = xmax - xmin
        # Points in every position relative to the knot range,
        # including the end knots themselves and their neighbours
        points = [
            xmin - 2.5 * span,
            xmin - 1.0,
            np.nextafter(xmin, -np.inf),
            xmin,
            np.nextafter(xmin, np.inf),
            xmin + 0.25 * span,
            xmin + 0.5 * span,
            xmax - 0.125 * span,
            np.nextafter(xmax, -np.inf),
            xmax,
            np.nextafter(xmax, np.inf),
            xmax + 1.0,
            xmax + 3.25 * span,
        ]
        points = [float(p) for p in points]
        # __call__: scalars of several types, arrays, lists, derivatives
        call_args = {
            'array': np.array(points),
            'array2d': np.array(points[:12]).reshape(3, 4),
            'list': list(points),
            'tuple': tuple(points),
            'float32': np.array(points, dtype='float32'),
            'ints': np.arange(int(xmin) - 3, int(xmax) + 4),
            'int_list': list(range(int(xmin) - 3, int(xmax) + 4)),
            'bools': np.array([True, False]),
            'empty': np.array([], dtype='float64'),
            'zero_d': np.array(points[5]),
            'nonfinite': np.array([np.nan, np.inf, -np.inf, xmin, xmax]),
            'nan': float('nan'),
            'inf': float('inf'),
            '-inf': float('-inf'),
            'pyint': int(xmin) + 1,
            'pyint_below': int(xmin) - 7,
            'np_int64': np.int64(int(xmax) + 2),
            'np_float32': np.float32(xmin + 0.3 * span),
            'None': None,
        }
        for index, point in enumerate(points):
            call_args['scalar{}'.format(index)] = point
            call_args['npscalar{}'.format(index)] = np.float64(point)
        for label, x in call_args.items():
            for der in (0, 1, 2):
                results[(name, 'call', label, der)] = common.outcome(
                    spline, x, der=der
                )
            results[(name, 'call-default', label)] = common.outcome(spline, x)
        results[(name, 'call', 'bad-der')] = common.outcome(
            spline, points[5], der=7
        )
        # integrate: every ordered pair, so a<b, a>b and a==b, both
        # below, straddling either end, inside, both above, spanning
        limits = points + [float('nan'), float('inf'), float('-inf')]
        for (i, a), (j, b) in itertools.product(
            enumerate(limits), enumerate(limits)
        ):
            results[(name, 'integrate', i, j)] = common.outcome(
                spline.integrate, a, b
            )
        # mixed argument types (Python int, numpy scalars, 0-d / 1-element arrays)
        typed = [
            int(xmin) - 4,
            int(xmin),
            int(xmin) + 1,
            int(xmax),
            int(xmax) + 5,
            np.float64(xmin),
            np.float64(xmax),
            np.float32(xmin - 2),
            np.int64(int(xmax) + 1),
            np.array(xmin - 0.5),
            np.array([xmax + 0.5]),
            -(2 ** 60) - 1,
            2 ** 60 + 1,
        ]
        for (i, a), (j, b) in itertools.product(
            enumerate(typed), enumerate(typed)
        ):
            results[(name, 'integrate-typed', i, j)] = common.outcome(
                spline.integrate, a, b
            )
        results[(name, 'integrate-array')] = common.outcome(
            spline.integrate, np.array([xmin, xmin]), np.array([xmax, xmax])
        )
        results[(name, 'integrate-str')] = common.outcome(
            spline.integrate, 'a', 'b'
        )
    # Through the public wrapper used by simulate_rise
    sy = sy_mod.SplineSpecificYield(
        pars['specific_yield']['zeta_knots_mm'],
        pars['specific_yield']['sy_knots'],
    )
    grid = np.linspace(-600, 400, 41)
    for i, lo in enumerate(grid):
        results[('sy', 'call', i)] = common.outcome(sy, lo)
        for j, hi in enumerate(grid):
            results[('sy', 'integrate', i, j)] = common.outcome(
                sy.integrate, lo, hi
            )
    return results


if __name__ == '__main__':
    common.main(os.path.abspath(__file__), 'refactor1.diff', collect)
