"""Differential check for refactor5.diff (fit_offsets.find_offsets)"""

import sys

import diff_harness

WORKER = r'''
import copy
import logging
import random
import warnings

import spowtd.fit_offsets as fit_offsets_mod
import spowtd.recession as recession_mod
import spowtd.rise as rise_mod


class ListHandler(logging.Handler):
    def __init__(self):
        super().__init__()
        self.messages = []

    def emit(self, record_):
        self.messages.append((record_.levelname, record_.getMessage()))


HANDLER = ListHandler()
fit_offsets_mod.LOG.addHandler(HANDLER)
fit_offsets_mod.LOG.setLevel(logging.DEBUG)

_inner = fit_offsets_mod.find_offsets


def call(label, head_mapping):
    """Call find_offsets; record outcome, log, warnings, mutated input"""
    before = copy.deepcopy(head_mapping)
    del HANDLER.messages[:]
    with warnings.catch_warnings(record=True) as caught:
        warnings.simplefilter('always')
        try:
            series_ids, offsets = _inner(head_mapping)
        except BaseException as exc:  # pylint: disable=broad-except
            outcome = ('raised', type(exc).__name__, str(exc))
            result = None
        else:
            outcome = ('returned', type(series_ids).__name__, series_ids,
                       offsets)
            result = (series_ids, offsets)
    RESULTS.append((
        label, before, outcome,
        # the input mapping is pruned in place: keep its final state
        copy.deepcopy(head_mapping),
        list(HANDLER.messages),
        [(w.category.__name__, str(w.message)) for w in caught]))
    return result


# 1. Sample data through the real pipeline
def _recording(head_mapping):
    result = call('pipeline call', head_mapping)
    assert result is not None
    return result


fit_offsets_mod.find_offsets = _recording
for sample in (1, 2):
    connection = classify_sample(sample)
    record(('recession', sample), recession_mod.find_recession_offsets,
           connection)
    record(('rise', sample), rise_mod.find_rise_offsets, connection)
    RESULTS.append(('database', sample, dump_database(connection)))
fit_offsets_mod.find_offsets = _inner

# 1b. get_series_time_offsets on synthetic series (uses find_offsets)
rng = np.random.default_rng(55)
for trial in range(40):
    series = []
    for _ in range(int(rng.integers(1, 7))):
        n = int(rng.integers(2, 25))
        t = float(rng.integers(0, 1000)) + np.arange(n) * 30.0
        H = rng.uniform(-5, 25) - np.cumsum(rng.uniform(0.0, 1.5, size=n))
        series.append((t, H))
    record(('series', trial), fit_offsets_mod.get_series_time_offsets,
           series, float(rng.choice([0.5, 1.0])))

# 2. Synthetic head mappings
call('empty', {})
call('all single', {1: [(0, 1.0)], 2: [(1, 2.0)]})
call('empty crossing list', {1: [(0, 1.0), (1, 2.0)], 2: []})
call('empty crossing list after deletions',
     {0: [(3, 1.0)], 1: [(0, 1.0), (1, 2.0)], 2: [], 3: [(4, 1.5)]})
call('two series one head', {5: [(0, 1.0), (1, 4.0)]})
call('two series', {5: [(0, 1.0), (1, 4.0)], 6: [(0, 2.0), (1, 5.5)],
                    7: [(1, 9.0)]})
call('three series chain',
     {1: [(0, 1.0), (1, 4.0)], 2: [(1, 2.0), (2, 5.5)], 3: [(0, 0.5)],
      4: [(2, 7.0), (1, 3.0)]})
call('reference absent from a head',
     {1: [(0, 1.0), (1, 4.0)], 2: [(1, 2.0), (2, 5.5)],
      3: [(0, 3.0), (1, 6.5)]})
call('disconnected',
     {1: [(0, 1.0), (1, 4.0)], 2: [(2, 2.0), (3, 5.5)]})
call('same series twice at a head', {1: [(0, 1.0), (0, 4.0)]})
call('same series twice plus others',
     {1: [(0, 1.0), (0, 4.0), (1, 2.0)], 2: [(0, 1.0), (1, 2.5), (2, 9.0)]})
call('string ids',
     {'h1': [('a', 1.0), ('b', 4.0)], 'h2': [('b', 2.0), ('c', 5.5)],
      'h3': [('a', 0.5), ('c', 4.5), ('b', 2.25)]})
call('mixed ids', {1: [('a', 1.0), (2, 4.0)]})
call('tuple crossings',
     {1: ((0, 1.0), (1, 4.0)), 2: ((1, 2.0), (2, 5.5), (0, -1.0))})
call('array crossings',
     {1: np.array([[0, 1.0], [1, 4.0]]),
      2: np.array([[1, 2.0], [2, 5.5], [0, -1.0]]),
      3: np.array([[2, 2.0]])})
call('integer times',
     {1: [(0, 1), (1, 4)], 2: [(1, 2), (2, 5), (0, -1)]})
call('big integer times',
     {1: [(0, 2 ** 60 + 1), (1, 2 ** 60 + 5)],
      2: [(1, 2 ** 61 + 3), (2, 5), (0, -1)]})
call('numpy scalar times',
     {1: [(0, np.float64(1.1)), (1, np.float32(4.3))],
      2: [(np.int64(1), np.float64(2.0)), (2, 5.5), (0, -1.0)]})
call('bad crossing shape', {1: [(0, 1.0, 2.0), (1, 4.0, 3.0)]})
call('short crossing', {1: [(0,), (1,)]})
call('unhashable id', {1: [([0], 1.0), ([1], 4.0)]})
call('nan time', {1: [(0, float('nan')), (1, 4.0)],
                  2: [(0, 1.0), (1, 2.0)]})
call('many at one head', {1: [(k, 0.1 * k * k) for k in range(40)]})

prng = random.Random(99)
for trial in range(400):
    n_series = prng.randrange(1, 9)
    n_heads = prng.randrange(0, 30)
    true_offsets = [prng.uniform(-1e4, 1e4) for _ in range(n_series)]
    heads = prng.sample(range(-100, 100), n_heads)
    mapping = {}
    for head in heads:
        size = prng.choice([1, 2, 2, 3, 4, n_series])
        members = prng.sample(range(n_series), min(size, n_series))
        if trial % 3 == 0:
            members.sort()
        mapping[head] = [
            (sid, 37.0 * head - true_offsets[sid] + prng.gauss(0, 5))
            for sid in members
        ]
    call(('random', trial), mapping)

finish()
'''

if __name__ == '__main__':
    sys.exit(diff_harness.main('refactor5.diff', WORKER))
