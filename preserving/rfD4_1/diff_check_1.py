"""Differential check for refactor1 (factory functions share a helper).

Usage: PYTHONPATH=/tmp/rf_D /venv/bin/python diff_check_1.py
Runs the scenarios once against the pristine copy in orig_pkg and once
against the working tree, in separate processes, and compares exactly.
"""
import copy
import os
import pickle
import subprocess
import sys
import tempfile

HERE = os.path.dirname(os.path.abspath(__file__))


def norm(value):
    """Exact, picklable representation of a result"""
    import numpy as np
    if isinstance(value, np.ndarray):
        return ('ndarray', str(value.dtype), value.shape, value.tobytes())
    if isinstance(value, np.generic):
        return ('npscalar', str(value.dtype), value.tobytes())
    if isinstance(value, float):
        return ('float', value.hex())
    if isinstance(value, (list, tuple)):
        return (type(value).__name__, [norm(v) for v in value])
    if isinstance(value, dict):
        return ('dict', [(norm(k), norm(v)) for k, v in value.items()])
    return (type(value).__name__, repr(value))


def attempt(func):
    try:
        return ('ok', norm(func()))
    except BaseException as exc:  # pylint: disable=broad-except
        return ('exc', type(exc).__name__, str(exc), repr(exc.args))


def scenarios():
    import numpy as np
    import yaml
    import spowtd.specific_yield as sy_mod
    import spowtd.transmissivity as t_mod
    import spowtd
    sample = os.path.join(os.path.dirname(spowtd.__file__), 'test', 'sample_data')
    results = []
    levels = np.linspace(-290, 160, 23)
    for name in ('peatclsm_parameters.yml', 'spline_parameters.yml'):
        with open(os.path.join(sample, name)) as f:
            pars = yaml.safe_load(f)
        sy_pars = copy.deepcopy(pars['specific_yield'])
        t_pars = copy.deepcopy(pars['transmissivity'])

        def make_sy(sy_pars=sy_pars):
            f = sy_mod.create_specific_yield_function(sy_pars)
            return [type(f).__name__, type(f).__module__, f(levels),
                    f(-3.5), f.integrate(-250.0, 100.0),
                    f.zeta_knots_mm, f.sy_knots, sorted(sy_pars)]
        results.append((name, 'sy', attempt(make_sy)))

        def make_t(t_pars=t_pars, name=name):
            f = t_mod.create_transmissivity_function(t_pars)
            lv = levels[levels < 5.0] if 'peatclsm' in name else levels[::4]
            return [type(f).__name__, type(f).__module__, f(lv), f(-3.5),
                    sorted(t_pars)]
        results.append((name, 'T', attempt(make_t)))
        # Second call with the same (now type-less) dict: ValueError
        results.append((name, 'sy-again', attempt(
            lambda: sy_mod.create_specific_yield_function(sy_pars))))
        results.append((name, 'T-again', attempt(
            lambda: t_mod.create_transmissivity_function(t_pars))))
    bad_inputs = [
        {},
        {'type': 'nope', 'a': 1},
        {'type': None},
        {'type': ['unhashable']},
        {'type': 'spline'},
        {'type': 'spline', 'bogus': 3},
        {'type': 'peatclsm', 'sd': 0.1},
        {'type': 'spline', 'zeta_knots_mm': [0, 1, 2, 3],
         'sy_knots': [0.1, 0.2, 0.3, 0.4]},
        {'type': 'spline', 'zeta_knots_mm': [0, 1, 1, 3],
         'sy_knots': [0.1, 0.2, 0.3, 0.4]},
        {'type': 'spline', 'zeta_knots_mm': [0., 1., 2.],
         'K_knots_km_d': [1., 2., 3.], 'minimum_transmissivity_m2_d': 1.5},
        {'type': 'peatclsm', 'Ksmacz0': 7.3, 'alpha': 3, 'zeta_max_cm': 1.0},
        {1: 2, 'type': 'spline'},
        None,
        'type',
        ['type'],
        [],
        5,
    ]
    for i, bad in enumerate(bad_inputs):
        for label, factory in (
                ('sy', sy_mod.create_specific_yield_function),
                ('T', t_mod.create_transmissivity_function)):
            arg = copy.deepcopy(bad)

            def run(factory=factory, arg=arg):
                f = factory(arg)
                return [type(f).__name__, f(np.array([0.5, 1.5])), f(0.75),
                        repr(arg)]
            results.append((i, label, attempt(run), repr(arg)))
    return results


def main():
    if len(sys.argv) == 4 and sys.argv[1] == 'run':
        # The script directory is sys.path[0]; make sure the requested
        # copy of the package is the one imported.
        sys.path[:] = [sys.argv[3]] + [
            p for p in sys.path if os.path.abspath(p or '.') != HERE]
        import spowtd
        assert os.path.dirname(os.path.dirname(
            os.path.abspath(spowtd.__file__))) == sys.argv[3], spowtd.__file__
        with open(sys.argv[2], 'wb') as f:
            pickle.dump(scenarios(), f)
        return 0
    outputs = []
    with tempfile.TemporaryDirectory() as tmp:
        for label, root in (('orig', os.path.join(HERE, 'orig_pkg')),
                            ('new', os.environ.get('RF_NEW_ROOT', HERE))):
            out = os.path.join(tmp, label + '.pkl')
            env = dict(os.environ, PYTHONPATH=root,
                       PYTHONDONTWRITEBYTECODE='1')
            subprocess.check_call(
                [sys.executable, os.path.abspath(__file__), 'run', out, root],
                env=env, cwd=tmp)
            with open(out, 'rb') as f:
                outputs.append(pickle.load(f))
    orig, new = outputs
    assert len(orig) == len(new)
    for a, b in zip(orig, new):
        assert a == b, (a, b)
    if '-v' in sys.argv:
        for r in orig:
            print(r[:2], r[2][:3] if r[2][0] == 'exc' else 'ok')
    n_exc = sum(1 for r in orig if r[2][0] == 'exc')
    print('diff_check_1: {} scenarios identical ({} raise)'.format(
        len(orig), n_exc))
    return 0


if __name__ == '__main__':
    sys.exit(main())
