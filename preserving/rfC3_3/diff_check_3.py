"""Differential check for refactor3.diff (spowtd/simulate_rise.py)

compute_rise_curve: spline and PEATCLSM specific yield on regular, random,
descending, one- and two-point grids, default and explicit mean storage,
plus degenerate inputs (empty array, 2-D array, list) for the exceptions.
simulate_rise: on databases built from both sample data sets and synthetic
variants, both parameter files, both output modes, called directly, through
the CLI, and on a database without a rise curve (unpacking error).

"""

import dc_common as dc


def collect():
    import gc
    import io
    import os
    import sqlite3
    import tempfile

    import numpy as np
    import yaml

    import spowtd.rise as rise_mod
    import spowtd.simulate_rise as simulate_rise_mod
    import spowtd.specific_yield as specific_yield_mod
    import spowtd.user_interface as cli_mod
    import spowtd.zeta_grid as zeta_grid_mod
    from spowtd.test import conftest

    results = {}

    def specific_yield_function(sy_type):
        with open(conftest.get_parameter_file_path(sy_type), 'rt') as handle:
            return specific_yield_mod.create_specific_yield_function(
                yaml.safe_load(handle)['specific_yield']
            )

    rng = np.random.default_rng(20240927)
    grids = {
        'linspace': np.linspace(-865, 50, 10),
        'fine': np.linspace(-300.0, 160.0, 461),
        'random-sorted': np.sort(rng.uniform(-280, 150, size=37)),
        'random-unsorted': rng.uniform(-280, 150, size=11),
        'descending': np.linspace(100, -250, 15),
        'one-point': np.array([-12.5]),
        'two-points': np.array([-100.0, 3.0]),
        'integers': np.arange(-50, 20, 5),
        'empty': np.array([], dtype=float),
        'two-dimensional': np.linspace(-200, 0, 6).reshape(3, 2),
        'list': [-3.0, -2.0, -1.0],
    }
    for sy_type in ('spline', 'peatclsm'):
        for grid_label, grid in grids.items():
            specific_yield = specific_yield_function(sy_type)
            results[('curve', sy_type, grid_label, 'default-mean')] = dc.canon(
                dc.attempt(
                    simulate_rise_mod.compute_rise_curve, specific_yield, grid
                )
            )
            for mean in (7.0, np.float64(-33.125), 0):
                results[('curve', sy_type, grid_label, repr(mean))] = dc.canon(
                    dc.attempt(
                        simulate_rise_mod.compute_rise_curve,
                        specific_yield,
                        grid,
                        mean,
                    )
                )
                results[
                    ('curve-kw', sy_type, grid_label, repr(mean))
                ] = dc.canon(
                    dc.attempt(
                        simulate_rise_mod.compute_rise_curve,
                        specific_yield=specific_yield,
                        zeta_grid_mm=grid,
                        mean_storage_mm=mean,
                    )
                )

    def simulate(connection, sy_type, observations_only):
        outfile = io.StringIO()
        with open(conftest.get_parameter_file_path(sy_type), 'rt') as handle:
            outcome = dc.attempt(
                simulate_rise_mod.simulate_rise,
                connection,
                handle,
                outfile,
                observations_only,
            )
        return (outcome, outfile.getvalue())

    for label, connection in dc.classified_sources():
        # No rise curve assembled yet: nothing to unpack
        results[('simulate', label, 'no-rise')] = dc.canon(
            simulate(connection, 'spline', False)
        )
        for grid_mm, reference in ((1.0, None), (2.5, -50.0)):
            gridded = dc.clone(connection)
            zeta_grid_mod.populate_zeta_grid(gridded, grid_mm)
            outcome = dc.attempt(
                rise_mod.find_rise_offsets, gridded, reference
            )
            if outcome[0] != 'ok':
                gridded.close()
                gridded = dc.clone(connection)
                zeta_grid_mod.populate_zeta_grid(gridded, grid_mm)
                rise_mod.find_rise_offsets(gridded)
            for sy_type in ('spline', 'peatclsm'):
                for observations_only in (False, True):
                    results[
                        ('simulate', label, grid_mm, sy_type, observations_only)
                    ] = dc.canon(simulate(gridded, sy_type, observations_only))
            if grid_mm == 1.0:
                # Through the CLI
                with tempfile.TemporaryDirectory() as tmp:
                    db_path = os.path.join(tmp, 'spowtd.sqlite3')
                    on_disk = sqlite3.connect(db_path)
                    gridded.backup(on_disk)
                    on_disk.close()
                    for flags in ([], ['--observations']):
                        out_path = os.path.join(tmp, 'out.yml')
                        status = cli_mod.main(
                            [
                                'simulate',
                                'rise',
                                db_path,
                                conftest.get_parameter_file_path('spline'),
                                '-o',
                                out_path,
                            ]
                            + flags
                        )
                        gc.collect()
                        with open(out_path, 'rt') as handle:
                            results[('cli', label, tuple(flags))] = dc.canon(
                                (status, handle.read())
                            )
            gridded.close()
        connection.close()
    return results


if __name__ == '__main__':
    dc.main(3, __file__, collect)
