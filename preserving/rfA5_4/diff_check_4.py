"""Differential check for refactor4.diff (match_storms, get_candidate_match_intervals)"""
import numpy as np

import diff_common as dc

orig, new, orig_root, new_root = dc.load_versions(4)

counts = dc.check_databases(orig, new, orig_root, twice=False)
print("classify_intervals on sample + synthetic databases:", counts)
assert counts["ok"] >= 40 and counts["exc"] >= 6, counts


def both(label, name, *args):
    a, b = (dc.run_captured(getattr(mod, name), *args) for mod in (orig, new))
    return dc.compare(label, a, b), a


# --- match_storms on the sample series and on synthetic series
tally = {"ok": 0, "exc": 0}
n_matches = 0
for sample in (1, 2):
    conn = dc.loaded_sample_db(sample, orig_root)
    for (data_interval,) in conn.execute(
        "SELECT DISTINCT data_interval FROM grid_time WHERE data_interval IS NOT NULL"
    ).fetchall():
        rows = conn.execute(
            "SELECT rainfall_intensity_mm_h, zeta_mm FROM grid_time "
            "JOIN rainfall_intensity ON from_epoch = grid_time.epoch "
            "JOIN water_level ON water_level.epoch = from_epoch "
            "WHERE data_interval = ? ORDER BY from_epoch",
            (data_interval,),
        ).fetchall()
        rain, head = (np.array(v) for v in zip(*rows))
        for thr in ((4.0, 8.0), (8.0, 5.0), (1.0, 1.0), (0.0, 0.0), (0.5, 20.0)):
            kind, a = both(f"sample{sample}", "match_storms", rain, head, *thr)
            tally[kind] += 1
            n_matches += len(a[0][1][0])
for seed in range(300):
    rng = np.random.default_rng(seed)
    n = int(rng.integers(2, 300))
    if seed % 3 == 0:
        # dense, blocky series: many storms overlap many rises
        rain = rng.choice([0.0, 10.0], size=n, p=[0.5, 0.5])
        head = np.cumsum(rng.choice([0.0, 10.0], size=n, p=[0.5, 0.5]))
        if seed % 2:
            # a rise that spans several storms
            head = np.cumsum(rng.choice([0.0, 10.0], size=n, p=[0.15, 0.85]))
    else:
        rain, head = dc.random_series(rng, n, p_storm=0.2, p_mystery=0.1)
    thr = (float(rng.uniform(0, 6)), float(rng.uniform(0, 6)))
    kind, a = both(f"synthetic{seed}", "match_storms", rain, head, *thr)
    tally[kind] += 1
    if kind == "ok":
        n_matches += len(a[0][1][0])
        # also with integer-valued inputs
        both(f"int{seed}", "match_storms", rain.astype(np.int64), head.astype(np.int64), 3, 2)
# degenerate and bad inputs
empty = np.array([], dtype=float)
for label, args in {
    "empty": (empty, empty, 1.0, 1.0),
    "one": (np.array([9.0]), np.array([0.0]), 1.0, 1.0),
    "two": (np.array([9.0, 9.0]), np.array([0.0, 50.0]), 1.0, 1.0),
    "all-wet-rising": (np.full(20, 9.0), np.arange(20) * 30.0, 1.0, 1.0),
    "length-mismatch": (np.full(20, 9.0), np.arange(10) * 30.0, 1.0, 1.0),
    "length-mismatch-2": (np.full(10, 9.0), np.arange(20) * 30.0, 1.0, 1.0),
    "list-rain": ([9.0, 9.0, 0.0], np.array([0.0, 50.0, 50.0]), 1.0, 1.0),
    "list-head": (np.array([9.0, 9.0, 0.0]), [0.0, 50.0, 50.0], 1.0, 1.0),
    "none-threshold": (np.array([9.0, 9.0, 0.0]), np.array([0.0, 50.0, 50.0]), None, 1.0),
    "none-jump-threshold": (np.array([9.0, 9.0, 0.0]), np.array([0.0, 50.0, 50.0]), 1.0, None),
    "two-d": (np.full((4, 4), 9.0), np.zeros((4, 4)), 1.0, 1.0),
    "nan": (np.array([np.nan, 9.0, 0.0, 9.0]), np.array([0.0, np.nan, 50.0, 90.0]), 1.0, 1.0),
}.items():
    kind, _ = both(label, "match_storms", *args)
    tally[kind] += 1
print("match_storms:", tally, "matches in total:", n_matches)
assert tally["ok"] >= 250 and tally["exc"] >= 6 and n_matches > 1500

# --- get_candidate_match_intervals: valid calls and every assertion message
head = np.array([0.0, 0.0, 10.0, 20.0, 30.0, 30.0, 30.0, 45.0, 45.0, 45.0])
rain = np.array([0.0, 9.0, 9.0, 9.0, 0.0, 0.0, 9.0, 0.0, 0.0, 9.0])
jthr = 5.0
is_raining = rain > 1.0
rain_masks = list(orig.get_true_interval_masks(is_raining))
jump_masks = list(orig.get_true_interval_masks(np.diff(head) > jthr))


def mask(n, *idx):
    out = np.zeros(n, bool)
    out[list(idx)] = True
    return out


cases = {
    "valid-0": (head, jthr, is_raining, rain_masks, jump_masks[0], 0),
    "valid-1": (head, jthr, is_raining, rain_masks, jump_masks[1], np.int64(1)),
    "valid-last-storm": (head, jthr, is_raining, rain_masks, jump_masks[1], 2),
    "valid-jump-at-ends": (
        np.array([0.0, 10.0, 10.0, 20.0]), jthr, np.array([True, False, False, True]),
        [mask(4, 0), mask(4, 3)], mask(3, 0), 0),
    "valid-jump-at-end": (
        np.array([0.0, 10.0, 10.0, 20.0]), jthr, np.array([True, False, False, True]),
        [mask(4, 0), mask(4, 3)], mask(3, 2), 1),
    "storm-not-raining": (head, jthr, is_raining, [mask(10, 0, 1)], jump_masks[0], 0),
    "rain-before": (head, jthr, is_raining, [mask(10, 2, 3)], jump_masks[0], 0),
    "rain-after": (head, jthr, is_raining, [mask(10, 1, 2)], jump_masks[0], 0),
    "not-a-jump": (head, jthr, is_raining, rain_masks, mask(9, 1, 2, 3, 4), 0),
    "jump-before": (head, jthr, is_raining, rain_masks, mask(9, 2, 3), 0),
    "jump-after": (head, jthr, is_raining, rain_masks, mask(9, 1, 2), 0),
    "empty-rain-mask": (head, jthr, is_raining, [mask(10)], jump_masks[0], 0),
    "empty-jump-mask": (head, jthr, is_raining, rain_masks, mask(9), 0),
    "bad-storm-index": (head, jthr, is_raining, rain_masks, jump_masks[0], 7),
    "int-head": (head.astype(np.int64), 5, is_raining, rain_masks, mask(9, 2, 3), 0),
}
seen = set()
for label, args in cases.items():
    kind, a = both(label, "get_candidate_match_intervals", *args)
    seen.add(a[0][2] if kind == "exc" else "ok")
    print(f"  {label}: {a[0][1:] if kind == 'exc' else a[0][1]}")
for text in (
    "Storm includes only raining time steps",
    "No heavy rain just before slice",
    "No heavy rain at end of slice",
    "Head pair [1, 6) meets jump threshold 5.0 mm",
    "Jump <= 5.0 starts at jump_start: 2, 10.0",
    "Jump > 5.0 ends at jump_stop: 4, 10.0",
    "Jump <= 5 starts at jump_start: 2, 10",
):
    assert text in seen, text
print("diff_check_4 OK")
