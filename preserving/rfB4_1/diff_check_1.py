"""Differential check for refactor1.diff (load.copy_staged_intervals)"""

import sqlite3

import diffcheck_harness as H


def direct_populate(which, time_grid, time_step, staged, grid):
    """Call one populate_* function directly on a hand-made database"""
    import pytz
    import spowtd.load as load_mod

    connection = sqlite3.connect(':memory:')
    cursor = connection.cursor()
    with open(load_mod.SCHEMA_PATH, 'rt') as schema_file:
        cursor.executescript(schema_file.read())
    cursor.execute(
        'INSERT INTO time_grid (source_time_zone, time_step_s) VALUES (?, ?)',
        ('UTC', time_step),
    )
    cursor.executemany(
        'INSERT INTO grid_time (epoch) VALUES (?)', [(t,) for t in grid]
    )
    if which == 'rain':
        cursor.executemany(
            'INSERT INTO rainfall_intensity_staging VALUES (?, ?)', staged
        )
        outcome = H.capture(
            load_mod.populate_rainfall_intensity, cursor, time_grid, time_step
        )
    else:
        cursor.executemany(
            'INSERT INTO evapotranspiration_staging VALUES (?, ?)', staged
        )
        outcome = H.capture(
            load_mod.populate_evapotranspiration,
            cursor,
            time_grid,
            time_step,
            tz=pytz.timezone('Asia/Jakarta'),
        )
    return (outcome, H.norm(H.dump_db(connection)))


def scenarios():
    yield 'sample 1', lambda: H.load_sample(1)
    yield 'sample 2', lambda: H.load_sample(2)
    precip, et, zeta = H.synthetic_series(seed=1)
    yield 'synthetic uniform', lambda: H.load_rows(precip, et, zeta)
    # water level covers only part of the rain record, with a gap; staging
    # rows inserted out of time order; ET has extra rows beyond the grid
    shuffled = precip[30:] + precip[:30]
    et_more = et[::-1] + [(et[-1][0] + 3600 * k, 0.125) for k in (1, 2, 3)]
    zeta_gap = zeta[5:20] + zeta[26:50]
    yield 'synthetic gap/shuffled', lambda: H.load_rows(
        shuffled, et_more, zeta_gap, tz='Asia/Jakarta'
    )
    # ET missing at some grid times -> ValueError with datetimes
    yield 'ET missing', lambda: H.load_rows(precip, et[:40] + et[45:], zeta)
    # ET record lacks only the closing grid time
    yield 'ET lacks last', lambda: H.load_rows(precip, et[:-1], zeta)
    grid = [0, 10, 20, 30, 40]
    staged = [(40, 4.0), (0, 0.5), (20, 2.0), (10, 1.0), (30, 3.0), (50, 5.0)]
    for which in ('rain', 'et'):
        yield which + ' direct', lambda which=which: direct_populate(
            which, grid, 10, staged, grid
        )
        # time_step differs from grid spacing: foreign keys off, any value goes
        yield which + ' direct odd step', lambda which=which: direct_populate(
            which, grid, 7, staged, grid
        )
        yield which + ' direct short grid', lambda which=which: direct_populate(
            which, [0], 10, [(0, 1.0)], [0]
        )
        yield which + ' direct empty grid', lambda which=which: direct_populate(
            which, [], 10, [], []
        )
        yield which + ' direct float step', lambda which=which: direct_populate(
            which, grid, 10.5, staged, grid
        )


if __name__ == '__main__':
    H.main(__file__, 'refactor1.diff', scenarios)
