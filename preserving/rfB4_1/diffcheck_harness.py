"""Shared harness for diff_check_K.py

Exports the unmodified package (git HEAD) into two scratch directories,
applies refactorK.diff to one of them, runs the calling script in
"worker" mode once against each copy (separate processes, PYTHONPATH set
to the copy) and compares the normalised results for exact equality.

"""

import os
import pickle
import shutil
import subprocess
import sys
import tempfile
import traceback

ROOT = os.path.dirname(os.path.abspath(__file__))
PYTHON = '/venv/bin/python'


def norm(obj):
    """Normalise obj into plain, exactly comparable structures"""
    import numpy as np

    if isinstance(obj, np.ndarray):
        if obj.dtype == object:
            return ('ndobj', obj.shape, [norm(o) for o in obj.ravel().tolist()])
        return ('nd', obj.dtype.str, obj.shape, obj.tobytes())
    if isinstance(obj, np.generic):
        return ('npscalar', type(obj).__name__, obj.tobytes())
    if isinstance(obj, bool) or obj is None:
        return ('py', type(obj).__name__, obj)
    if isinstance(obj, float):
        return ('float', obj.hex())
    if isinstance(obj, (int, str, bytes)):
        return ('py', type(obj).__name__, obj)
    if isinstance(obj, dict):
        # insertion order is significant
        return ('dict', [(norm(k), norm(v)) for k, v in obj.items()])
    if isinstance(obj, (list, tuple)):
        return (type(obj).__name__, [norm(o) for o in obj])
    if isinstance(obj, (set, frozenset)):
        return (type(obj).__name__, sorted(norm(o) for o in obj))
    raise TypeError('cannot normalise {!r}'.format(type(obj)))


def capture(func, *args, **kwargs):
    """Call func; return ('ok', result) or ('exc', type name, message)"""
    try:
        return ('ok', norm(func(*args, **kwargs)))
    except BaseException as exc:  # pylint: disable=broad-except
        return ('exc', type(exc).__name__, str(exc))


def dump_db(connection):
    """Everything in the database, rowids included, in storage order"""
    cursor = connection.cursor()
    names = [
        row[0]
        for row in cursor.execute(
            "SELECT name FROM sqlite_master WHERE type='table' ORDER BY name"
        )
    ]
    out = {}
    for name in names:
        try:
            rows = cursor.execute(
                'SELECT rowid, * FROM {}'.format(name)
            ).fetchall()
        except Exception:  # WITHOUT ROWID tables
            rows = cursor.execute('SELECT * FROM {}'.format(name)).fetchall()
        out[name] = rows
    cursor.close()
    return out


def describe(result):
    """Short text: did the original return or raise?"""
    if isinstance(result, tuple):
        if result and result[0] == 'ok':
            return 'returned'
        if result and result[0] == 'exc':
            return 'raised {}: {}'.format(result[1], result[2])[:110]
        for item in result:
            text = describe(item)
            if text:
                return text
    return ''


def main(script, patch_name, scenarios):
    """Entry point used by each diff_check_K.py"""
    if len(sys.argv) == 3 and sys.argv[1] == '--worker':
        # The script directory (the worktree) is on sys.path; make sure the
        # package comes from the exported copy in the current directory
        sys.path[:] = [os.getcwd()] + [
            p for p in sys.path if os.path.abspath(p or '.') != ROOT
        ]
        import spowtd

        assert os.path.abspath(spowtd.__file__).startswith(
            os.getcwd() + os.sep
        ), spowtd.__file__
        results = {}
        for name, func in scenarios():
            try:
                results[name] = func()
            except BaseException:  # pylint: disable=broad-except
                results[name] = ('harness-exc', traceback.format_exc())
        with open(sys.argv[2], 'wb') as out:
            pickle.dump(results, out)
        return
    os.makedirs(os.path.join(ROOT, '_scratch'), exist_ok=True)
    scratch = tempfile.mkdtemp(
        prefix='check_', dir=os.path.join(ROOT, '_scratch')
    )
    try:
        outputs = []
        for variant in ('orig', 'refactored'):
            tree = os.path.join(scratch, variant)
            os.mkdir(tree)
            archive = subprocess.run(
                ['git', '-C', ROOT, 'archive', 'HEAD', 'spowtd'],
                check=True,
                stdout=subprocess.PIPE,
            ).stdout
            subprocess.run(
                ['tar', '-x', '-C', tree], input=archive, check=True
            )
            if variant == 'refactored':
                subprocess.run(
                    ['git', 'apply', os.path.join(ROOT, patch_name)],
                    check=True,
                    cwd=tree,
                )
            out_path = os.path.join(scratch, variant + '.pkl')
            env = dict(os.environ, PYTHONPATH=tree + os.pathsep + ROOT)
            subprocess.run(
                [PYTHON, os.path.abspath(script), '--worker', out_path],
                check=True,
                cwd=tree,
                env=env,
            )
            with open(out_path, 'rb') as in_file:
                outputs.append(pickle.load(in_file))
        orig, refactored = outputs
        assert list(orig) == list(refactored), (list(orig), list(refactored))
        failures = 0
        for name in orig:
            assert orig[name][0] != 'harness-exc', orig[name][1]
            same = orig[name] == refactored[name]
            print(
                '{:45s} {:9s} {}'.format(
                    name, 'same' if same else 'DIFFERENT', describe(orig[name])
                )
            )
            if not same:
                failures += 1
                print('   orig:', repr(orig[name])[:400])
                print('   new :', repr(refactored[name])[:400])
        assert failures == 0, '{} scenario(s) differ'.format(failures)
        print('OK: {} scenarios identical for {}'.format(len(orig), patch_name))
    finally:
        shutil.rmtree(scratch)


# ---------------------------------------------------------------------------
# Helpers shared by the load.py checks


def iso(epoch_utc):
    """Text datetime (UTC wall clock) for an integer epoch"""
    import datetime

    return datetime.datetime.fromtimestamp(
        epoch_utc, datetime.timezone.utc
    ).strftime('%Y-%m-%d %H:%M:%S')


def csv_text(header, rows):
    """CSV text from a header list and rows of (epoch or text, value...)"""
    lines = [','.join(header)]
    for row in rows:
        first = iso(row[0]) if isinstance(row[0], int) else row[0]
        lines.append(','.join([first] + [str(v) for v in row[1:]]))
    return '\n'.join(lines) + '\n'


def load_texts(precip, et, zeta, tz='UTC', connection=None):
    """Run load_data on three CSV texts; return outcome and DB dump"""
    import io
    import sqlite3

    import spowtd.load as load_mod

    if connection is None:
        connection = sqlite3.connect(':memory:')
    outcome = capture(
        load_mod.load_data,
        connection,
        io.StringIO(precip),
        io.StringIO(et),
        io.StringIO(zeta),
        tz,
    )
    return ('load', outcome, norm(dump_db(connection)))


def load_sample(sample, tz='Africa/Lagos'):
    """Run load_data on sample data set 1 or 2"""
    texts = []
    for kind in ('precipitation', 'evapotranspiration', 'water_level'):
        path = os.path.join(
            os.getcwd(),
            'spowtd',
            'test',
            'sample_data',
            '{}_{}.txt'.format(kind, sample),
        )
        with open(path, 'rt', encoding='utf-8-sig') as in_file:
            texts.append(in_file.read())
    return load_texts(*texts, tz=tz)


def synthetic_series(seed=0, n=60, step=3600, t0=1600000000 - 1600000000 % 3600):
    """Return (precip_rows, et_rows, zeta_rows) on a uniform grid"""
    import random

    rng = random.Random(seed)
    times = [t0 + i * step for i in range(n)]
    precip = [(t, round(rng.choice([0, 0, 0, 5.5, 12.25]), 3)) for t in times]
    # ET is needed at the closing grid time as well
    et = [(t, round(rng.random() * 0.3, 4)) for t in times + [t0 + n * step]]
    zeta = [(t, round(-100 + 50 * rng.random(), 3)) for t in times]
    return precip, et, zeta


HEADERS = (
    ['Datetime', 'precip_mm_h'],
    ['datetime (local)', 'et_mm_h'],
    ['DATETIME', 'zeta_mm'],
)


def load_rows(precip, et, zeta, tz='UTC', headers=HEADERS):
    """load_data on row lists"""
    return load_texts(
        csv_text(headers[0], precip),
        csv_text(headers[1], et),
        csv_text(headers[2], zeta),
        tz=tz,
    )


# ---------------------------------------------------------------------------
# Helpers shared by the fit_offsets / regrid checks


def sample_pipeline(sample, grid_interval_mm=1.0, record_series=False):
    """load, classify, set zeta grid, recession and rise on a sample data set

    Returns the final database contents and, if asked, every argument
    list and result of get_series_time_offsets on the way.

    """
    import sqlite3

    import spowtd.classify as classify_mod
    import spowtd.recession as recession_mod
    import spowtd.rise as rise_mod
    import spowtd.zeta_grid as zeta_grid_mod

    _, outcome, _ = load_sample_into(sample, sqlite3.connect(':memory:'))
    connection = outcome
    classify_mod.classify_intervals(
        connection,
        storm_rain_threshold_mm_h=8.0,
        rising_jump_threshold_mm_h=5.0,
    )
    zeta_grid_mod.populate_zeta_grid(
        connection, grid_interval_mm=grid_interval_mm
    )
    calls = []
    for module in (recession_mod, rise_mod):
        original = module.get_series_time_offsets

        def recording(series_list, head_step, original=original):
            result = original(series_list, head_step)
            calls.append(norm((list(series_list), head_step, result)))
            return result

        if record_series:
            module.get_series_time_offsets = recording
    out = [
        capture(recession_mod.find_recession_offsets, connection),
        capture(rise_mod.find_rise_offsets, connection),
    ]
    return (out, calls, norm(dump_db(connection)))


def load_sample_into(sample, connection, tz='Africa/Lagos'):
    """load_data on a sample data set; returns ('load', connection, None)"""
    import spowtd.load as load_mod

    files = [
        open(
            os.path.join(
                os.getcwd(),
                'spowtd',
                'test',
                'sample_data',
                '{}_{}.txt'.format(kind, sample),
            ),
            'rt',
            encoding='utf-8-sig',
        )
        for kind in ('precipitation', 'evapotranspiration', 'water_level')
    ]
    try:
        load_mod.load_data(connection, *files, tz)
    finally:
        for in_file in files:
            in_file.close()
    return ('load', connection, None)


def random_series(seed, count, kind='recession', length=(3, 30), step=600):
    """Random (time, head) series resembling recessions or rises"""
    import numpy as np

    rng = np.random.default_rng(seed)
    series = []
    for _ in range(count):
        n = int(rng.integers(length[0], length[1]))
        t0 = int(rng.integers(0, 10**6)) * step
        t = t0 + step * np.arange(n, dtype='int64')
        start = rng.uniform(-400.0, 50.0)
        if kind == 'recession':
            head = start - np.cumsum(rng.uniform(0.0, 4.0, size=n))
        elif kind == 'rise':
            head = start + np.cumsum(rng.uniform(0.0, 9.0, size=n))
        else:  # wiggly, not monotonic
            head = start + np.cumsum(rng.normal(0.0, 3.0, size=n))
        series.append((t, head))
    return series
