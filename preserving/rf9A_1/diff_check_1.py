"""Differential check of refactor1.diff: classify.get_mystery_jump_mask

State transition extracted into _next_mystery_state (early returns, lazy look
at is_jump[i]); the closing assertions moved into _check_mystery_jump_mask.
"""

import itertools
import os
import sys

import numpy as np

sys.path.insert(0, os.path.dirname(os.path.abspath(__file__)))
import _dc_common as dc  # noqa: E402

ORIG, REFAC = dc.load_pair(1)
CHK = dc.Checker("refactor1 get_mystery_jump_mask")


class Boom:
    """Element whose truth value cannot be taken"""

    def __bool__(self):
        raise RuntimeError("truth of Boom requested")

    def __repr__(self):
        return "Boom()"


def both(what, *args):
    a = dc.call(ORIG.get_mystery_jump_mask, *args)
    b = dc.call(REFAC.get_mystery_jump_mask, *args)
    CHK.same(what, a, b)
    return a


def main():
    # 1. exhaustive over all boolean pairs up to length 6
    for n in range(0, 7):
        for jump in itertools.product([False, True], repeat=n):
            for rain in itertools.product([False, True], repeat=n):
                both(
                    ("exhaustive", jump, rain),
                    np.array(jump, dtype=bool),
                    np.array(rain, dtype=bool),
                )
    # 2. random longer vectors, several densities
    rng = np.random.default_rng(20260927)
    for n in (7, 16, 100, 1000):
        for p_jump in (0.0, 0.1, 0.5, 1.0):
            for p_rain in (0.0, 0.1, 0.5, 1.0):
                both(
                    ("random", n, p_jump, p_rain),
                    rng.random(n) < p_jump,
                    rng.random(n) < p_rain,
                )
    # 3. other dtypes and containers, including ones on which it fails
    t, f = True, False
    cases = {
        "empty lists": ([], []),
        "lists": ([t, f, t], [f, f, t]),
        "list jump, array rain": ([t, f, t], np.array([f, f, t])),
        "array jump, list rain": (np.array([t, f, t]), [f, f, t]),
        "tuples": ((t, f), (f, t)),
        "int8 arrays": (np.array([1, 0, 1], np.int8), np.array([0, 0, 1], np.int8)),
        "int64 arrays": (np.array([1, 0, 2, 0]), np.array([0, 0, 1, 0])),
        "int rain, bool jump": (np.array([t, f, t, f]), np.array([0, 0, 1, 0])),
        "bool rain, int jump": (np.array([1, 0, 1, 0]), np.array([f, f, t, f])),
        "float arrays": (np.array([1.0, 0.0]), np.array([0.0, 1.0])),
        "float jump only": (np.array([1.0, 0.0]), np.array([f, t])),
        "nan rain": (np.array([t, f]), np.array([np.nan, 0.0])),
        "length mismatch": (np.array([t, f, t]), np.array([f, t])),
        "length mismatch 2": (np.array([t]), np.array([f, t, f])),
        "mismatch vs empty": (np.array([], bool), np.array([f])),
        "2-d both": (np.array([[t, f], [f, t]]), np.array([[f, f], [t, t]])),
        "2-d jump": (np.array([[t, f], [f, t]]), np.array([f, t])),
        "2-d jump, rain first": (np.array([[t, f], [f, t]]), np.array([t, t])),
        "2-d one column": (np.array([[t], [f]]), np.array([[f], [t]])),
        "0-d": (np.array(True), np.array(False)),
        "None": (None, None),
        "strings": ("ab", "cd"),
        "object jump lazy ok": (
            np.array([Boom(), Boom()], dtype=object),
            np.array([t, t]),
        ),
        "object jump boom at 1": (
            np.array([True, Boom(), True], dtype=object),
            np.array([f, f, t]),
        ),
        "object rain boom": (
            np.array([t, t]),
            np.array([False, Boom()], dtype=object),
        ),
        "list jump lazy ok": ([Boom(), Boom()], np.array([t, t])),
        "list jump boom": ([False, Boom()], np.array([f, f])),
    }
    for name, (jump, rain) in cases.items():
        both(("case", name), jump, rain)

    # 4. the two new helpers called through the pipeline on the sample data
    for sample in (1, 2):
        data = dc.loaded_db_bytes(sample)
        for thresholds in ((4.0, 8.0), (8.0, 5.0), (0.0, 0.0), (2.5, 50.0)):

            def run(mod, thresholds=thresholds):
                return lambda conn: mod.classify_intervals(conn, *thresholds)

            CHK.same(
                ("sample db", sample, thresholds),
                dc.run_on_db(data, run(ORIG)),
                dc.run_on_db(data, run(REFAC)),
            )
            # the mask itself on the series of the sample data
            conn = dc.fresh_connection(data)
            rows = conn.execute(
                """SELECT zeta_mm, rainfall_intensity_mm_h > 0
                   FROM rainfall_intensity JOIN water_level
                     ON from_epoch = epoch ORDER BY epoch"""
            ).fetchall()
            conn.close()
            zeta = np.array([r[0] for r in rows])
            raining = np.array([r[1] for r in rows]).astype(bool)
            is_jump = np.concatenate(([0], np.diff(zeta))) > thresholds[1] / 4
            both(("sample mask", sample, thresholds), is_jump, raining)
    CHK.finish()
    dc.rerun_optimized(os.path.abspath(__file__))
    print("OK")


if __name__ == "__main__":
    main()
