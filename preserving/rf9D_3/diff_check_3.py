#!/venv/bin/python
"""Differential check for refactor3.diff (spowtd/simulate_recession.py)

simulate_recession: database reads and the choice of transmissivity
function extracted into helpers.

Builds the original module (git show HEAD:...) and the refactored one
(original + refactor3.diff) in a temporary directory, imports both
under private names and compares them exactly on both sample data
sets and on degenerate databases and parameter files: return values
(bytes of arrays), output files, exceptions (type and message), the
sequence of calls made on the connection and its cursors (SQL text
included), whether the parameter file had been read when an error was
raised, and database dumps.

"""

import importlib.util
import io
import os
import sqlite3
import subprocess
import sys
import tempfile

import numpy as np

HERE = os.path.dirname(os.path.abspath(__file__))
# (DIFF_CHECK_PATCH: another patch, to try the check on a mutant)
PATCH = os.environ.get(
    'DIFF_CHECK_PATCH', os.path.join(HERE, 'refactor3.diff')
)
PATHS = ['spowtd/simulate_recession.py']
SAMPLE_DATA_DIR = os.path.join(HERE, 'spowtd', 'test', 'sample_data')


def build_trees():
    """Return (orig_dir, new_dir) holding original and patched files"""
    root = tempfile.mkdtemp(prefix='dc3_')
    dirs = []
    for label in ('orig', 'new'):
        top = os.path.join(root, label)
        for path in PATHS:
            dest = os.path.join(top, path)
            os.makedirs(os.path.dirname(dest), exist_ok=True)
            text = subprocess.check_output(
                ['git', 'show', 'HEAD:' + path], cwd=HERE
            )
            with open(dest, 'wb') as f:
                f.write(text)
        dirs.append(top)
    subprocess.check_call(['git', 'apply', PATCH], cwd=dirs[1])
    for path in PATHS:
        with open(os.path.join(dirs[0], path), 'rb') as f0, open(
            os.path.join(dirs[1], path), 'rb'
        ) as f1:
            assert f0.read() != f1.read(), 'patch changed nothing'
    return dirs


def load(top, path, name):
    spec = importlib.util.spec_from_file_location(
        name, os.path.join(top, path)
    )
    module = importlib.util.module_from_spec(spec)
    sys.modules[name] = module
    spec.loader.exec_module(module)
    return module


def describe(value):
    """Exact, comparable description of a value"""
    if isinstance(value, np.ndarray) and value.dtype == object:
        return ('ndarray', type(value).__name__, 'object', repr(value))
    if isinstance(value, np.ndarray):
        return (
            'ndarray',
            type(value).__name__,
            str(value.dtype),
            value.shape,
            value.tobytes(),
        )
    if isinstance(value, np.generic):
        return ('npscalar', type(value).__name__, value.tobytes())
    if isinstance(value, float):
        return ('float', value.hex())
    if isinstance(value, (tuple, list)):
        return (type(value).__name__, tuple(describe(v) for v in value))
    return (type(value).__name__, repr(value))


def outcome(function, *args, **kwargs):
    """Description of the return value or of the exception raised"""
    try:
        with np.errstate(all='ignore'):
            return ('returned', describe(function(*args, **kwargs)))
    except BaseException as exc:  # pylint: disable=broad-except
        return ('raised', type(exc).__name__, str(exc))


class Log(list):
    """Record of events, with a failure injected at the n'th call"""

    def __init__(self, fail_at=None):
        list.__init__(self)
        self.fail_at = fail_at
        self.n_calls = 0

    def note(self, *event):
        self.append(event)
        self.n_calls += 1
        if self.n_calls == self.fail_at:
            raise RuntimeError('injected failure at {}'.format(event))


class RecordingCursor:
    """Cursor proxy that records every call made on it"""

    def __init__(self, cursor, log):
        self._cursor = cursor
        self._log = log

    def execute(self, *args):
        self._log.note('execute', args)
        self._cursor.execute(*args)
        return self

    def fetchone(self):
        self._log.note('fetchone')
        return self._cursor.fetchone()

    def fetchall(self):
        self._log.note('fetchall')
        return self._cursor.fetchall()

    def __iter__(self):
        self._log.note('iter')
        for row in self._cursor:
            self._log.note('row')
            yield row

    def close(self):
        self._log.note('close')
        self._cursor.close()


class RecordingConnection:
    """Connection proxy that records every call made on it"""

    def __init__(self, connection, fail_at=None):
        self._connection = connection
        self.log = Log(fail_at)

    def cursor(self):
        self.log.note('cursor')
        return RecordingCursor(self._connection.cursor(), self.log)

    def __getattr__(self, name):
        self.log.note('getattr', name)
        return getattr(self._connection, name)


class RecordingFile(io.StringIO):
    """Parameter file that records the reads made on it"""

    def __init__(self, text, log):
        io.StringIO.__init__(self, text)
        self._log = log

    def read(self, *args):
        self._log.append(('parameter file read',))
        return io.StringIO.read(self, *args)


def build_database(sample):
    """Database with classified sample data and rise/recession offsets"""
    import spowtd.classify as classify_mod
    import spowtd.load as load_mod
    import spowtd.recession as recession_mod
    import spowtd.rise as rise_mod
    import spowtd.zeta_grid as zeta_grid_mod

    connection = sqlite3.connect(':memory:')

    def path(kind):
        return os.path.join(SAMPLE_DATA_DIR, '{}_{}.txt'.format(kind, sample))

    with open(path('precipitation'), 'rt', encoding='utf-8-sig') as p_f, open(
        path('evapotranspiration'), 'rt', encoding='utf-8-sig'
    ) as e_f, open(path('water_level'), 'rt', encoding='utf-8-sig') as z_f:
        load_mod.load_data(
            connection=connection,
            precipitation_data_file=p_f,
            evapotranspiration_data_file=e_f,
            water_level_data_file=z_f,
            time_zone_name='Africa/Lagos',
        )
    classify_mod.classify_intervals(
        connection,
        storm_rain_threshold_mm_h=8.0,
        rising_jump_threshold_mm_h=5.0,
    )
    zeta_grid_mod.populate_zeta_grid(connection, grid_interval_mm=1.0)
    rise_mod.find_rise_offsets(connection)
    recession_mod.find_recession_offsets(connection)
    connection.commit()
    return connection


def clone(connection, statements=()):
    """Copy of a database, with some statements applied"""
    copy = sqlite3.connect(':memory:')
    connection.backup(copy)
    for statement in statements:
        copy.execute(statement)
    copy.commit()
    return copy


def dump(connection):
    return '\n'.join(connection.iterdump())


def read(name):
    with open(os.path.join(SAMPLE_DATA_DIR, name), 'rt') as f:
        return f.read()


def main():
    orig_dir, new_dir = build_trees()
    orig = load(orig_dir, PATHS[0], 'dc3_simulate_recession_orig')
    new = load(new_dir, PATHS[0], 'dc3_simulate_recession_new')
    n_cases = 0

    spline_text = read('spline_parameters.yml')
    peatclsm_text = read('peatclsm_parameters.yml')
    parameter_texts = {
        'spline': spline_text,
        'peatclsm (ceiling 1 cm)': peatclsm_text,
        'peatclsm (ceiling 1 m)': peatclsm_text.replace(
            'zeta_max_cm: 1.0', 'zeta_max_cm: 100.0'
        ),
        'mixed: peatclsm Sy, spline T': (
            peatclsm_text.split('transmissivity:')[0]
            + 'transmissivity:'
            + spline_text.split('transmissivity:')[1]
        ),
        'mixed: spline Sy, peatclsm T': (
            spline_text.split('transmissivity:')[0]
            + 'transmissivity:'
            + peatclsm_text.split('transmissivity:')[1].replace(
                'zeta_max_cm: 1.0', 'zeta_max_cm: 100.0'
            )
        ),
        'empty': '',
        'scalar': '3',
        'list': '- 1\n- 2\n',
        'no transmissivity': spline_text.split('transmissivity:')[0],
        'no specific yield': 'transmissivity:'
        + spline_text.split('transmissivity:')[1],
        'transmissivity null': spline_text.split('transmissivity:')[0]
        + 'transmissivity:\n',
        'transmissivity a list': spline_text.split('transmissivity:')[0]
        + 'transmissivity:\n  - 1\n  - 2\n',
        'transmissivity a string': spline_text.split('transmissivity:')[0]
        + 'transmissivity: peatclsm\n',
        'T without type': spline_text.replace(
            'transmissivity:\n  type: spline', 'transmissivity:'
        ),
        'T of unknown type': spline_text.replace(
            'transmissivity:\n  type: spline',
            'transmissivity:\n  type: nonesuch',
        ),
        'T type a list': spline_text.replace(
            'transmissivity:\n  type: spline',
            'transmissivity:\n  type: [peatclsm]',
        ),
        'T type null': spline_text.replace(
            'transmissivity:\n  type: spline', 'transmissivity:\n  type:'
        ),
        'T type peatclsm, spline arguments': spline_text.replace(
            'transmissivity:\n  type: spline',
            'transmissivity:\n  type: peatclsm',
        ),
        'T type spline, peatclsm arguments': peatclsm_text.replace(
            'transmissivity:\n  type: peatclsm',
            'transmissivity:\n  type: spline',
        ),
        'Sy of unknown type': spline_text.replace(
            'specific_yield:\n  type: spline',
            'specific_yield:\n  type: nonesuch',
        ),
        'Sy without type': spline_text.replace(
            'specific_yield:\n  type: spline', 'specific_yield:'
        ),
        'invalid YAML': 'a: [1, 2\nb: }',
        'K knot not positive': spline_text.replace('5.356e-3', '-1.0'),
        'zeta knots not increasing': spline_text.replace(
            '    - -5.167', '    - -500.0'
        ),
    }
    assert parameter_texts['T without type'] != spline_text
    assert parameter_texts['T type a list'] != spline_text
    assert parameter_texts['Sy without type'] != spline_text
    assert parameter_texts['zeta knots not increasing'] != spline_text
    assert parameter_texts['T type spline, peatclsm arguments'] != peatclsm_text

    set_curvature = "INSERT INTO curvature (curvature_m_km2) VALUES (2.36)"
    database_variants = {
        'complete': [set_curvature],
        'zero curvature': [
            "INSERT INTO curvature (curvature_m_km2) VALUES (0)"
        ],
        'negative curvature': [
            "INSERT INTO curvature (curvature_m_km2) VALUES (-1.5)"
        ],
        'integer curvature': [
            "INSERT INTO curvature (curvature_m_km2) VALUES (2)"
        ],
        'curvature not set': [],
        'no evapotranspiration in recessions': [
            set_curvature,
            "DELETE FROM evapotranspiration",
        ],
        'negative evapotranspiration': [
            set_curvature,
            "UPDATE evapotranspiration "
            "SET evapotranspiration_mm_h = -evapotranspiration_mm_h - 1",
        ],
        'no average recession time': [
            set_curvature,
            "DROP VIEW average_recession_time",
            "CREATE VIEW average_recession_time AS "
            "SELECT 1 AS elapsed_time_s, 1 AS zeta_mm WHERE 0",
        ],
        'one grid point': [
            set_curvature,
            "DROP VIEW average_recession_time",
            "CREATE VIEW average_recession_time AS "
            "SELECT 86400 AS elapsed_time_s, -20.0 AS zeta_mm",
        ],
        'two grid points, integer levels': [
            set_curvature,
            "DROP VIEW average_recession_time",
            "CREATE VIEW average_recession_time AS "
            "SELECT 86400 AS elapsed_time_s, -25 AS zeta_mm "
            "UNION ALL SELECT 0, -5",
        ],
        'no curvature table': ["DROP TABLE curvature"],
        'no recession tables': [
            set_curvature,
            "DROP VIEW average_recession_time",
        ],
    }

    for sample in (1, 2):
        base = build_database(sample)
        kind = base.execute(
            "SELECT type FROM sqlite_master "
            "WHERE name = 'average_recession_time'"
        ).fetchone()[0]
        variants = dict(database_variants)
        if kind != 'view':
            for key in list(variants):
                variants[key] = [
                    s.replace('DROP VIEW', 'DROP TABLE').replace(
                        'CREATE VIEW', 'CREATE TABLE'
                    )
                    for s in variants[key]
                ]
        for db_label, statements in variants.items():
            # The functions only read: one copy of the database serves
            # all the cases of a variant, and is checked to be
            # untouched after each call (change counter, no open
            # transaction) and after all of them (full dump)
            database = clone(base, statements)
            before = dump(database)
            texts = (
                parameter_texts
                if db_label == 'complete' and sample == 1
                else {
                    key: parameter_texts[key]
                    for key in (
                        'spline',
                        'peatclsm (ceiling 1 cm)',
                        'peatclsm (ceiling 1 m)',
                        'empty',
                        'T of unknown type',
                    )
                }
            )
            for par_label, text in texts.items():
                for entry, extra in (
                    ('simulate_recession', ()),
                    ('dump_simulated_recession', (True,)),
                    ('dump_simulated_recession', (False,)),
                ):
                    if entry != 'simulate_recession' and not (
                        db_label == 'complete'
                        or par_label.startswith('spline')
                    ):
                        continue
                    pair = []
                    for module in (orig, new):
                        changes = database.total_changes
                        connection = RecordingConnection(database)
                        parameter_file = RecordingFile(text, connection.log)
                        outfile = io.StringIO()
                        args = (connection, parameter_file)
                        if extra:
                            args += (outfile,) + extra
                        result = outcome(getattr(module, entry), *args)
                        pair.append(
                            (
                                result,
                                list(connection.log),
                                outfile.getvalue(),
                            )
                        )
                        assert database.total_changes == changes
                        assert not database.in_transaction
                    assert pair[0] == pair[1], (
                        sample,
                        db_label,
                        par_label,
                        entry,
                        pair[0][0][:1] + pair[0][0][1:][:2],
                        pair[1][0][:1] + pair[1][0][1:][:2],
                    )
                    n_cases += 1
                    if entry == 'simulate_recession':
                        print(
                            'sample {} / {} / {}: {}'.format(
                                sample,
                                db_label,
                                par_label,
                                'returned'
                                if pair[0][0][0] == 'returned'
                                else pair[0][0][1:],
                            )
                        )
            assert dump(database) == before, (sample, db_label)
            database.close()

        # A failure injected at each successive call on the cursor:
        # the same calls must have been made before it, and the
        # parameter file must not have been read
        n_events = None
        database = clone(base, [set_curvature])
        before = dump(database)
        for fail_at in range(1, 2000):
            pair = []
            for module in (orig, new):
                connection = RecordingConnection(database, fail_at=fail_at)
                parameter_file = RecordingFile(spline_text, connection.log)
                result = outcome(
                    module.simulate_recession, connection, parameter_file
                )
                pair.append((result, list(connection.log)))
            assert pair[0] == pair[1], (sample, fail_at)
            n_cases += 1
            if pair[0][0][0] == 'returned':
                n_events = fail_at
                break
            assert pair[0][0][1] == 'RuntimeError', pair[0][0]
            assert ('parameter file read',) not in pair[0][1]
        assert n_events is not None
        assert dump(database) == before
        database.close()
        print(
            'sample {}: failures injected at {} points'.format(
                sample, n_events - 1
            )
        )
        base.close()

    # compute_recession_curve is untouched, but must still agree
    import yaml

    import spowtd.specific_yield as specific_yield_mod
    import spowtd.transmissivity as transmissivity_mod

    for grid in (
        np.linspace(0, -400, 10),
        np.linspace(-400, 0, 4),
        np.array([-10.0]),
        np.array([]),
        np.array(-3.0),
        [-10.0, -5.0],
    ):
        for et_mm_d, curvature_km in ((4.15, 2.36e-3), (0.0, 0.0), (-1, 1)):
            pair = []
            for module in (orig, new):
                parameters = yaml.safe_load(spline_text)
                pair.append(
                    outcome(
                        module.compute_recession_curve,
                        specific_yield_mod.create_specific_yield_function(
                            parameters['specific_yield']
                        ),
                        transmissivity_mod.create_transmissivity_function(
                            parameters['transmissivity']
                        ),
                        grid,
                        mean_elapsed_time_d=19.0,
                        curvature_km=curvature_km,
                        et_mm_d=et_mm_d,
                    )
                )
            assert pair[0] == pair[1], (grid, et_mm_d, curvature_km)
            n_cases += 1

    print('compared {} cases'.format(n_cases))
    print('OK')


if __name__ == '__main__':
    main()
