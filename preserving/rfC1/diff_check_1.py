"""Differential check for refactor1.diff (spowtd/rise.py)

Runs find_rise_offsets with the original and the refactored package on
the sample data and on synthetic data, covering: no reference zeta,
reference zeta on the grid, off the grid (ValueError), on the grid but
without crossings (KeyError), zeta grid not set (ValueError), and no
storms at all (ValueError); compares the complete contents of
rising_interval and rising_interval_zeta (rowid order) and the
average_rising_depth view bit for bit.

"""

import dc_harness as h


TABLES = ['rising_interval', 'rising_interval_zeta']


def run_case(files, reference_zeta_mm, **kwargs):
    import spowtd.rise as rise_mod

    connection = h.make_connection(files, **kwargs)
    result = h.outcome(
        rise_mod.find_rise_offsets, connection, reference_zeta_mm
    )
    tables = h.dump_tables(connection, TABLES)
    view = connection.execute(
        'SELECT * FROM average_rising_depth ORDER BY zeta_mm'
    ).fetchall()
    n_rows = [len(rows) for _, rows in tables]
    print('  ', reference_zeta_mm, kwargs, result, n_rows, flush=True)
    connection.close()
    return (result, tables, view)


def worker():
    cases = []
    sample_1 = h.sample_files(1)
    sample_2 = h.sample_files(2)
    for files in (sample_1, sample_2):
        cases.append(run_case(files, None))
    cases.append(run_case(sample_1, -250.0))
    cases.append(run_case(sample_1, -250.3))
    cases.append(run_case(sample_1, 10000.0))
    cases.append(run_case(sample_2, -100.0, grid_interval_mm=2.5))
    cases.append(run_case(sample_2, None, grid_interval_mm=None))
    cases.append(
        run_case(
            h.sample_files(2, 12000),
            None,
            storm_rain_threshold_mm_h=4.0,
            rising_jump_threshold_mm_h=8.0,
            grid_interval_mm=0.5,
        )
    )
    for seed in (0, 1, 2):
        synthetic = h.synthetic_files(seed)
        cases.append(run_case(synthetic, None))
        cases.append(run_case(synthetic, -100.0, grid_interval_mm=2.5))
        cases.append(run_case(synthetic, -101.0, grid_interval_mm=2.5))
    # No storms at all
    cases.append(
        run_case(
            h.synthetic_files(3, n_days=10),
            None,
            storm_rain_threshold_mm_h=1000.0,
        )
    )
    # Direct call of compute_rise_offsets on a cursor
    import spowtd.rise as rise_mod

    connection = h.make_connection(h.synthetic_files(4, n_days=20))
    cursor = connection.cursor()
    cases.append(
        (
            h.outcome(rise_mod.compute_rise_offsets, cursor, None),
            h.dump_tables(connection, TABLES),
        )
    )
    return cases


if __name__ == '__main__':
    h.run(1, __file__)
