"""Shared harness for the differential checks diff_check_K.py

Each diff_check_K.py defines worker() -> picklable result and calls
run(K, __file__).  The harness materialises two copies of the package
(HEAD, and HEAD + refactorK.diff) under /tmp/rf_C/_cmp, runs the worker
once with each copy on PYTHONPATH, and asserts that the (normalised)
results are exactly equal.  It does not depend on the state of the
worktree itself.

"""

import io
import math
import os
import pickle
import shutil
import sqlite3
import subprocess
import sys

ROOT = '/tmp/rf_C'
if len(sys.argv) >= 3 and sys.argv[1] == 'worker':
    # The package must come from PYTHONPATH, not from the directory of
    # the script (which is the worktree itself)
    sys.path[:] = [p for p in sys.path if os.path.abspath(p or '.') != ROOT] + [
        ROOT
    ]
CMP = os.path.join(ROOT, '_cmp')
PYTHON = '/venv/bin/python'


def _materialise(name, patch):
    dest = os.path.join(CMP, name)
    if os.path.exists(dest):
        shutil.rmtree(dest)
    os.makedirs(dest)
    archive = subprocess.run(
        ['git', '-C', ROOT, 'archive', 'HEAD', 'spowtd'],
        check=True,
        stdout=subprocess.PIPE,
    ).stdout
    subprocess.run(['tar', '-x', '-C', dest], input=archive, check=True)
    if patch is not None:
        with open(patch, 'rb') as patch_file:
            subprocess.run(
                ['patch', '-p1', '-s', '-d', dest],
                stdin=patch_file,
                check=True,
            )
    return dest


def run(k, script):
    """Entry point for diff_check_K.py"""
    if len(sys.argv) >= 3 and sys.argv[1] == 'worker':
        import spowtd  # pylint: disable=import-outside-toplevel

        main_mod = sys.modules['__main__']
        result = {
            'package': os.path.dirname(spowtd.__file__),
            'result': normalise(main_mod.worker()),
        }
        with open(sys.argv[2], 'wb') as out:
            pickle.dump(result, out)
        return
    os.makedirs(CMP, exist_ok=True)
    dirs = {
        'orig': _materialise('orig_{}'.format(k), None),
        'new': _materialise(
            'new_{}'.format(k),
            os.path.join(ROOT, 'refactor{}.diff'.format(k)),
        ),
    }
    results = {}
    for label, directory in dirs.items():
        out = os.path.join(CMP, 'result_{}_{}.pkl'.format(k, label))
        env = dict(os.environ, PYTHONPATH=directory + os.pathsep + ROOT)
        subprocess.run(
            [PYTHON, os.path.abspath(script), 'worker', out],
            check=True,
            env=env,
            cwd=directory,
        )
        with open(out, 'rb') as result_file:
            results[label] = pickle.load(result_file)
        assert results[label]['package'] == os.path.join(
            directory, 'spowtd'
        ), results[label]['package']
    orig = results['orig']['result']
    new = results['new']['result']
    n_leaves = count_leaves(orig)
    mismatches = []
    compare(orig, new, '', mismatches)
    if mismatches:
        for mismatch in mismatches[:20]:
            print('MISMATCH', mismatch)
        raise SystemExit('diff_check_{}: FAILED'.format(k))
    assert pickle.dumps(orig) == pickle.dumps(new)
    print(
        'diff_check_{}: OK ({} cases, {} leaf values identical)'.format(
            k, len(orig[1]), n_leaves
        )
    )


def normalise(obj):
    """Convert to plain structure in which == means bit-identical"""
    import numpy as np  # pylint: disable=import-outside-toplevel

    if isinstance(obj, np.ndarray):
        return ('ndarray', str(obj.dtype), obj.shape, obj.tobytes())
    if isinstance(obj, (bool, np.bool_)):
        return ('bool', bool(obj))
    if isinstance(obj, (float, np.floating)):
        return ('float', type(obj).__name__, float(obj).hex())
    if isinstance(obj, (int, np.integer)):
        return ('int', type(obj).__name__, int(obj))
    if isinstance(obj, dict):
        return ('dict', [(normalise(k), normalise(v)) for k, v in obj.items()])
    if isinstance(obj, (list, tuple)):
        return (type(obj).__name__, [normalise(v) for v in obj])
    if isinstance(obj, BaseException):
        return ('exception', type(obj).__name__, str(obj))
    if obj is None or isinstance(obj, (str, bytes)):
        return obj
    raise TypeError(type(obj))


def count_leaves(obj):
    if isinstance(obj, (list, tuple)):
        return sum(count_leaves(v) for v in obj) or 1
    return 1


def compare(a, b, path, mismatches):
    if type(a) is not type(b):
        mismatches.append((path, a, b))
    elif isinstance(a, (list, tuple)):
        if len(a) != len(b):
            mismatches.append((path + '/len', len(a), len(b)))
        for i, (x, y) in enumerate(zip(a, b)):
            compare(x, y, '{}/{}'.format(path, i), mismatches)
    elif a != b:
        mismatches.append((path, a, b))


def outcome(function, *args, **kwargs):
    """Return ('ok', value) or ('raised', exception)"""
    try:
        return ('ok', function(*args, **kwargs))
    except Exception as exc:  # pylint: disable=broad-except
        return ('raised', exc)


# ---------------------------------------------------------------------
# Data sets


def sample_files(sample, max_lines=None):
    """Return (precip, et, zeta) text of a sample data set"""
    from spowtd.test import conftest  # pylint: disable=import-outside-toplevel

    texts = []
    for file_type in ('precipitation', 'evapotranspiration', 'water_level'):
        with open(
            conftest.get_sample_file_path(file_type, sample),
            'rt',
            encoding='utf-8-sig',
        ) as sample_file:
            lines = sample_file.readlines()
        texts.append(lines)
    if max_lines is not None:
        # Truncate all three files at the same timestamp
        zeta_lines = texts[2][:max_lines]
        last = zeta_lines[-1].split(',')[0]
        # (evapotranspiration must cover the end of the last time step)
        last_et = texts[2][max_lines + 6].split(',')[0]
        texts = [
            [
                line
                for i, line in enumerate(lines)
                if i == 0 or line.split(',')[0] <= end
            ]
            for lines, end in zip(texts[:2], (last, last_et))
        ] + [zeta_lines]
    return tuple(''.join(lines) for lines in texts)


def synthetic_files(seed=0, n_days=50, sy=0.25):
    """Return (precip, et, zeta) text of a synthetic data set

    Hourly data; storms every few days raise the water level by rain /
    sy; between storms the water level recedes.

    """
    import datetime  # pylint: disable=import-outside-toplevel
    import random  # pylint: disable=import-outside-toplevel

    rng = random.Random(seed)
    start = datetime.datetime(2015, 3, 1)
    n_steps = n_days * 24
    rain = [0.0] * n_steps
    step = 30
    while step < n_steps - 30:
        duration = rng.randint(1, 3)
        for j in range(duration):
            rain[step + j] = rng.uniform(9.0, 25.0)
        # Trailing drizzle, so the last jump is seen while it rains
        for j in range(duration, duration + 2):
            rain[step + j] = 0.5
        step += rng.randint(40, 110)
    zeta = []
    level = -50.0
    for i in range(n_steps):
        zeta.append(level)
        level += rain[i] / sy
        level -= (0.3 + 0.01 * max(level + 300.0, 0.0)) * (
            1.0 + 0.05 * rng.random()
        )
    fmt = '%Y-%m-%d %H:%M:%S'
    times = [
        (start + datetime.timedelta(hours=i)).strftime(fmt)
        for i in range(n_steps)
    ]
    precip_text = 'datetime,precipitation rate (mm/h)\n' + ''.join(
        '{},{!r}\n'.format(t, r) for t, r in zip(times, rain)
    )
    et_times = times + [
        (start + datetime.timedelta(hours=n_steps)).strftime(fmt)
    ]
    et_text = 'datetime,evapotranspiration (mm/h)\n' + ''.join(
        '{},{!r}\n'.format(t, 0.08 + 0.05 * math.sin(i / 3.8) ** 2)
        for i, t in enumerate(et_times)
    )
    zeta_text = 'datetime,wtd (mm)\n' + ''.join(
        '{},{!r}\n'.format(t, z) for t, z in zip(times, zeta)
    )
    return (precip_text, et_text, zeta_text)


def make_connection(
    files,
    storm_rain_threshold_mm_h=8.0,
    rising_jump_threshold_mm_h=5.0,
    grid_interval_mm=1.0,
):
    """Return in-memory database, loaded, classified and gridded

    grid_interval_mm None leaves the zeta grid unset.

    """
    # pylint: disable=import-outside-toplevel
    import spowtd.classify as classify_mod
    import spowtd.load as load_mod
    import spowtd.zeta_grid as zeta_grid_mod

    connection = sqlite3.connect(':memory:')
    load_mod.load_data(
        connection=connection,
        precipitation_data_file=io.StringIO(files[0]),
        evapotranspiration_data_file=io.StringIO(files[1]),
        water_level_data_file=io.StringIO(files[2]),
        time_zone_name='Africa/Lagos',
    )
    classify_mod.classify_intervals(
        connection,
        storm_rain_threshold_mm_h=storm_rain_threshold_mm_h,
        rising_jump_threshold_mm_h=rising_jump_threshold_mm_h,
    )
    if grid_interval_mm is not None:
        zeta_grid_mod.populate_zeta_grid(
            connection, grid_interval_mm=grid_interval_mm
        )
    return connection


def dump_tables(connection, tables):
    """Return full contents of tables in rowid order, and views as given"""
    result = []
    for table in tables:
        cursor = connection.cursor()
        is_table = cursor.execute(
            "SELECT type FROM sqlite_master WHERE name = ?", (table,)
        ).fetchone()[0]
        if is_table == 'table':
            try:
                cursor.execute(
                    'SELECT rowid, * FROM {} ORDER BY rowid'.format(table)
                )
            except sqlite3.OperationalError:
                cursor.execute('SELECT * FROM {}'.format(table))
        else:
            cursor.execute('SELECT * FROM {}'.format(table))
        result.append((table, cursor.fetchall()))
        cursor.close()
    return result


def make_curves_connection(files, curvature_m_km2=2.36, **kwargs):
    """Return database with rise and recession curves assembled

    curvature_m_km2 None leaves the curvature unset.

    """
    # pylint: disable=import-outside-toplevel
    import spowtd.recession as recession_mod
    import spowtd.rise as rise_mod
    import spowtd.set_curvature as set_curvature_mod

    connection = make_connection(files, **kwargs)
    rise_mod.find_rise_offsets(connection)
    recession_mod.find_recession_offsets(connection)
    if curvature_m_km2 is not None:
        set_curvature_mod.set_curvature(
            connection, curvature_m_km2=curvature_m_km2
        )
    return connection


def parameter_text(parameterization):
    """Return text of sample parameter file"""
    from spowtd.test import conftest  # pylint: disable=import-outside-toplevel

    with open(
        conftest.get_parameter_file_path(parameterization), 'rt'
    ) as parameter_file:
        return parameter_file.read()
