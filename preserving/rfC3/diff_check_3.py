"""Differential check for refactor3.diff (spowtd/simulate_rise.py)

Compares, between the original and the refactored package:
 - compute_rise_curve on regular, irregular, single-point, empty,
   two-dimensional and list grids, with and without mean storage, for
   both specific yield parameterizations (arrays compared bytewise,
   exceptions by type and message);
 - the text written by simulate_rise (both output modes, both
   parameterizations) for the two sample data sets and synthetic data
   sets, and for a database without a rise curve (ValueError);
 - the output file of the CLI "spowtd simulate rise".

"""

import io
import os
import tempfile

import dc_harness as h


def worker():
    import numpy as np
    import yaml

    import spowtd.simulate_rise as simulate_rise_mod
    import spowtd.specific_yield as specific_yield_mod
    import spowtd.user_interface as cli_mod

    cases = []
    rng = np.random.default_rng(42)
    grids = [
        np.linspace(-865, 50, 10),
        np.linspace(-280.0, 160.0, 441),
        np.sort(rng.uniform(-290.0, 160.0, 57)),
        np.array([-20.0, -100.0, 30.0, 30.0, 12.5]),
        np.array([3.25]),
        np.array([]),
        np.array(-4.0),
        np.linspace(-100.0, 100.0, 12).reshape((4, 3)),
        np.arange(-50, 50, 7),
        [-10.0, 0.0, 10.0],
    ]
    for parameterization in ('spline', 'peatclsm'):
        for grid in grids:
            for kwargs in (
                {},
                {'mean_storage_mm': 7.0},
                {'mean_storage_mm': np.float32(-3.1)},
                {'mean_storage_mm': 2},
            ):
                specific_yield = (
                    specific_yield_mod.create_specific_yield_function(
                        yaml.safe_load(h.parameter_text(parameterization))[
                            'specific_yield'
                        ]
                    )
                )
                grid_before = np.array(grid, copy=True)
                result = h.outcome(
                    simulate_rise_mod.compute_rise_curve,
                    specific_yield,
                    grid,
                    **kwargs
                )
                cases.append((result, np.array(grid), grid_before))
    print('  compute_rise_curve cases:', len(cases), flush=True)

    datasets = [
        ('sample 1', h.sample_files(1), {}),
        ('sample 2', h.sample_files(2), {}),
        ('synthetic 0', h.synthetic_files(0), {}),
        ('synthetic 1', h.synthetic_files(1), {'grid_interval_mm': 2.5}),
    ]
    for name, files, kwargs in datasets:
        connection = h.make_curves_connection(files, **kwargs)
        for parameterization in ('spline', 'peatclsm'):
            for observations_only in (False, True):
                outfile = io.StringIO()
                result = h.outcome(
                    simulate_rise_mod.simulate_rise,
                    connection,
                    io.StringIO(h.parameter_text(parameterization)),
                    outfile,
                    observations_only,
                )
                print(
                    '  ',
                    name,
                    parameterization,
                    observations_only,
                    result,
                    len(outfile.getvalue()),
                    flush=True,
                )
                cases.append((result, outfile.getvalue()))
        if name == 'synthetic 0':
            # CLI
            with tempfile.TemporaryDirectory() as tmpdir:
                db_path = os.path.join(tmpdir, 'db.sqlite3')
                import sqlite3

                # (backup blocks while a transaction is open)
                connection.commit()
                with sqlite3.connect(db_path) as disk_connection:
                    connection.backup(disk_connection)
                disk_connection.close()
                for parameterization in ('spline', 'peatclsm'):
                    for flags in ([], ['--observations']):
                        par_path = os.path.join(tmpdir, 'par.yml')
                        out_path = os.path.join(tmpdir, 'out.yml')
                        with open(par_path, 'wt') as par_file:
                            par_file.write(h.parameter_text(parameterization))
                        status = cli_mod.main(
                            ['simulate', 'rise', db_path, par_path]
                            + ['-o', out_path]
                            + flags
                        )
                        # Output file is closed at interpreter exit only
                        import gc

                        gc.collect()
                        with open(out_path, 'rt') as out_file:
                            text = out_file.read()
                        cases.append((status, text))
        connection.close()
    # No rise curve in the database
    connection = h.make_connection(h.synthetic_files(3, n_days=10))
    for observations_only in (False, True):
        outfile = io.StringIO()
        result = h.outcome(
            simulate_rise_mod.simulate_rise,
            connection,
            io.StringIO(h.parameter_text('spline')),
            outfile,
            observations_only,
        )
        print('  no rise curve', result, flush=True)
        cases.append((result, outfile.getvalue()))
    # Bad parameters
    outfile = io.StringIO()
    cases.append(
        (
            h.outcome(
                simulate_rise_mod.simulate_rise,
                connection,
                io.StringIO('specific_yield:\n  sd: 1.0\n'),
                outfile,
                False,
            ),
            outfile.getvalue(),
        )
    )
    return cases


if __name__ == '__main__':
    h.run(3, __file__)
