"""Differential check for refactor3.diff (round 7)

recession.compute_offsets: the interstorm-interval query (CTE, aliases,
IN ('interstorm'), ORDER BY 1), the existence check (EXISTS sub-select ->
COUNT(*) over the primary key, named parameter) and the two INSERTs (VALUES
instead of SELECT, explicit default column interval_type, positional
parameters).

Runs recession.find_recession_offsets with the original package and with the
patched package (two extracted copies, separate processes) on the sample data
(library and CLI), on synthetic classified databases and on databases where
the statements return nothing or fail part-way (no interstorm intervals, no
grid, UNIQUE conflict on the first / a middle / the last interval, FOREIGN KEY
failure on discrete_zeta, foreign keys off); compares the series read, the
exception, connection.in_transaction, total_changes and a dump of every table
and view taken before the rollback (float bit patterns, storage classes --
mean_crossing_time has integer affinity).

The failing branch of the existence check cannot be reached through the
function, so the check statement itself is also lifted out of the source of
each copy and run with existing / storm / absent / float / NULL / text keys.

Run: cd /tmp/rf_C && PYTHONPATH=/tmp/rf_C /venv/bin/python diff_check_3.py
"""

import ast
import inspect
import sys
import textwrap

import _dc_common as common


def existence_statement():
    """The SQL text of the existence check in compute_offsets"""
    import spowtd.recession as recession_mod

    tree = ast.parse(
        textwrap.dedent(inspect.getsource(recession_mod.compute_offsets))
    )
    found = [
        node.value
        for node in ast.walk(tree)
        if isinstance(node, ast.Constant)
        and isinstance(node.value, str)
        and 'FROM zeta_interval' in node.value
        and 'ORDER BY' not in node.value
        and ('EXISTS' in node.value or 'COUNT' in node.value)
    ]
    assert len(found) == 1, found
    return found[0]


def existence_probe():
    """Run the lifted existence statement against many keys"""
    import numpy as np

    sql = existence_statement()
    connection, info = common.synthetic_connection(21, 6, 1.0)
    epochs = info['epochs']
    keys = []
    for start, thru in info['interstorms']:
        keys += [epochs[start], float(epochs[start]),
                 np.float64(epochs[start]), epochs[thru],
                 epochs[start] + 0.5, str(epochs[start])]
    for storm in info['storms']:
        keys += [epochs[storm[2]], np.float64(epochs[storm[0]])]
    keys += [None, 0, -1, 1e300, float('nan'), float('inf'), 'abc', b'x',
             epochs[-1] + 3600]
    results = []
    for key in keys:
        params = {'start_epoch': key} if ':start_epoch' in sql else (key,)
        row = connection.execute(sql, params).fetchall()
        results.append(common.canon(row))
    empty = common.empty_connection()
    params = ({'start_epoch': epochs[0]} if ':start_epoch' in sql
              else (epochs[0],))
    results.append(common.canon(empty.execute(sql, params).fetchall()))
    return {'rows': results,
            'summary': '%d keys, %d hits' % (
                len(keys), sum(1 for r in results if r == [[('i', 1)]]))}


def scenarios():
    yield 'existence_statement_probe', existence_probe
    yield from common.step_scenarios(
        'recession', 'find_recession_offsets', 'recession_interval_zeta',
        'recession_interval',
    )


if __name__ == '__main__':
    if '--worker' in sys.argv:
        common.worker_main(scenarios)
    else:
        common.drive(__file__, 3)
