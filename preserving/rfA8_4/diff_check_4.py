"""Differential check for refactor4.diff (disambiguate_matching / find_stable_matching)

Run: cd /tmp/rf_A && PYTHONPATH=/tmp/rf_A /venv/bin/python diff_check_4.py
"""

import copy
import random

import numpy as np

from dc_common import (
    dump,
    load_variants,
    loaded_sample_db,
    outcome,
    same,
    synthetic_db,
)

orig, new = load_variants(4)
rng = random.Random(44)


# --- find_stable_matching called directly; the candidate lists are consumed in
# place, so the state they are left in is compared as well
def both_matching(storm_candidates, jump_preferences, what):
    cand_a, pref_a = copy.deepcopy(storm_candidates), copy.deepcopy(jump_preferences)
    cand_b, pref_b = copy.deepcopy(storm_candidates), copy.deepcopy(jump_preferences)
    a = (outcome(orig.find_stable_matching, cand_a, pref_a), cand_a, pref_a)
    b = (outcome(new.find_stable_matching, cand_b, pref_b), cand_b, pref_b)
    same(a, b, what)
    return a[0]


n_ok = n_raised = 0
for trial in range(6000):
    n_storms = rng.choice([0, 1, 2, 3, 5, 9, 20])
    n_jumps = rng.choice([1, 2, 3, 5, 9, 20])
    # storm ids include 0 (a storm that starts at the first time step); large
    # ids make the iteration order of the set of free storms non-trivial
    storms = rng.sample([0, 1, 2, 3, 7, 8, 9, 15, 16, 17, 24, 31, 32, 33, 40, 64,
                         65, 100, 128, 1000, 1024, 4096], n_storms)
    jumps = rng.sample(range(0, 60), n_jumps)
    kind = trial % 6
    storm_candidates = {}
    jump_preferences = {jump: {} for jump in jumps}
    for storm in storms:
        k = rng.randint(0 if kind == 1 else 1, n_jumps)
        chosen = rng.sample(jumps, k)
        if kind == 2 and chosen:  # repeated candidate
            chosen.append(rng.choice(chosen))
        storm_candidates[storm] = chosen
        for jump in chosen:
            # few distinct values: ties between storms are common
            jump_preferences[jump][storm] = -abs(rng.choice([0, 1, 1, 2, 5]))
    if kind == 3:  # float preferences
        jump_preferences = {
            j: {s: float(v) - 0.5 for s, v in p.items()}
            for j, p in jump_preferences.items()
        }
    if kind == 4 and storms:  # a missing preference: KeyError in both
        jump = rng.choice(jumps)
        if jump_preferences[jump]:
            del jump_preferences[jump][rng.choice(list(jump_preferences[jump]))]
    if kind == 5:  # numpy integer ids, as match_storms passes them
        storm_candidates = {
            np.int64(s): [np.int64(j) for j in c] for s, c in storm_candidates.items()
        }
        jump_preferences = {
            np.int64(j): {np.int64(s): np.int64(v) for s, v in p.items()}
            for j, p in jump_preferences.items()
        }
    result = both_matching(storm_candidates, jump_preferences, "matching {}".format(trial))
    if result[0] == "ok":
        n_ok += 1
    else:
        n_raised += 1

# storm 0 holding a jump that another storm then asks for (both directions)
for prefs in ({0: -1, 5: 0}, {0: 0, 5: -1}, {0: -1, 5: -1}):
    for order in ([0, 5], [5, 0]):
        both_matching(
            {s: [3, 4] for s in order}, {3: dict(prefs), 4: dict(prefs)}, "storm zero"
        )


# --- disambiguate_matching
def both_disambiguate(rain_intervals, jump_intervals, what):
    a = outcome(orig.disambiguate_matching, list(rain_intervals), list(jump_intervals))
    b = outcome(new.disambiguate_matching, list(rain_intervals), list(jump_intervals))
    same(a, b, what)
    return a


n_dis = 0
for trial in range(6000):
    n_storms = rng.choice([0, 1, 2, 3, 6, 12, 30])
    n_jumps = rng.choice([1, 2, 3, 6, 12, 30])
    starts = rng.sample(range(0, 400, 2), n_storms)
    storms = [(s, s + rng.randint(1, 6)) for s in starts]
    jstarts = rng.sample(range(0, 400, 2), n_jumps)
    jumps = [(j, j + rng.randint(2, 7)) for j in jstarts]
    rain_intervals, jump_intervals = [], []
    for storm in storms:
        for jump in rng.sample(jumps, rng.randint(1, min(4, n_jumps))):
            rain_intervals.append(storm)
            jump_intervals.append(jump)
    kind = trial % 5
    if kind == 1 and rain_intervals:  # a pair listed twice, stops differing
        k = rng.randrange(len(rain_intervals))
        rain_intervals.append((rain_intervals[k][0], rain_intervals[k][1] + 1))
        jump_intervals.append((jump_intervals[k][0], jump_intervals[k][1] + 2))
    if kind == 2:  # numpy integers, as produced by np.nonzero
        rain_intervals = [(np.int64(a), np.int64(b)) for a, b in rain_intervals]
        jump_intervals = [(np.int64(a), np.int64(b)) for a, b in jump_intervals]
    if kind == 3 and rain_intervals:  # sequences of different length
        rain_intervals = rain_intervals[:-1]
    if kind == 4 and rain_intervals:  # malformed interval
        jump_intervals[rng.randrange(len(jump_intervals))] = (1, 2, 3)
    both_disambiguate(rain_intervals, jump_intervals, "disambiguate {}".format(trial))
    n_dis += 1
both_disambiguate([], [], "empty")
both_disambiguate([(0, 1)], [(0, 2)], "single, storm 0")
both_disambiguate([(0, 1), (0, 1)], [(0, 2), (5, 8)], "storm 0, two rises")
both_disambiguate([(0, 3), (4, 6)], [(1, 4), (1, 4)], "two storms, one rise, storm 0 first")
both_disambiguate([(4, 6), (0, 3)], [(1, 4), (1, 4)], "two storms, one rise, storm 0 last")

# --- match_storms on the sample series and the whole step on synthetic databases
n_sample = 0
for sample in (1, 2):
    connection = loaded_sample_db(sample)
    rows = connection.execute(
        """
        SELECT zeta_mm, rainfall_intensity_mm_h
        FROM rainfall_intensity JOIN water_level ON from_epoch = epoch
        ORDER BY from_epoch"""
    ).fetchall()
    zeta = np.array([r[0] for r in rows])
    rain = np.array([r[1] for r in rows])
    for rain_thr in (0.0, 0.5, 2.0, 4.0, 8.0):
        for jump_thr in (0.0, 0.05, 0.5, 1.0, 2.5, 4.0):
            a = outcome(orig.match_storms, rain, zeta, rain_thr, jump_thr)
            b = outcome(new.match_storms, rain, zeta, rain_thr, jump_thr)
            assert a[0] == "ok"
            same(a, b, "match_storms sample {}".format(sample))
            n_sample += 1
    results = []
    for module in (orig, new):
        fresh = loaded_sample_db(sample)
        result = outcome(module.classify_intervals, fresh, 8.0, 5.0)
        results.append((result, dump(fresh)))
        fresh.close()
    same(results[0], results[1], "classify sample {}".format(sample))
    connection.close()

for trial in range(40):
    intervals = []
    start = 1_000_000_800
    for _ in range(rng.choice([1, 2])):
        n = rng.choice([3, 6, 30, 80])
        level = 0.0
        rain, zeta = [], []
        raining = rising = False
        for i in range(n):
            raining ^= rng.random() < 0.45
            rising ^= rng.random() < 0.15
            rain.append(9.0 if raining else 0.0)
            level += 4.0 if rising else -0.5
            zeta.append(level)
        intervals.append((start, rain, zeta))
        start += (n + 5) * 1800
    results = []
    for module in (orig, new):
        connection = synthetic_db(intervals)
        result = outcome(module.classify_intervals, connection, 4.0, 5.0)
        results.append((result, dump(connection)))
        connection.close()
    same(results[0], results[1], "synthetic db {}".format(trial))

print(
    "diff_check_4 OK: find_stable_matching {} ok / {} raising identically, "
    "{} disambiguate cases, {} sample match_storms cases".format(
        n_ok, n_raised, n_dis, n_sample
    )
)
