"""Differential check for refactor4.diff (simulate_recession.py)

compute_recession_curve on synthetic grids with both parameterizations, a
range of curvature / evapotranspiration values (incl. the assertions) and
with scipy's quad wrapped so that the exact integration bounds and their
types are logged; simulate_recession and dump_simulated_recession (library
and CLI) on both full sample data sets and a trimmed one, both output
modes, both parameterizations, plus the error paths.  Arrays are compared
bitwise, output text and exception type + message exactly.

"""

import io
import os
import sys

sys.path.insert(0, os.path.dirname(os.path.abspath(__file__)))
import dc_harness as H  # noqa: E402


def build_results(results, tree):
    import numpy as np
    import yaml
    import spowtd.recession as recession_mod
    import spowtd.set_curvature as set_curvature_mod
    import spowtd.simulate_recession as simulate_recession_mod
    import spowtd.specific_yield as specific_yield_mod
    import spowtd.transmissivity as transmissivity_mod
    import spowtd.user_interface as ui_mod

    rng = np.random.default_rng(2024)
    grids = {
        'test': np.linspace(0, -400, 10),
        'ascending': np.linspace(-290, 5, 25),
        'irregular': np.sort(rng.uniform(-280, 8, 21)),
        'unsorted': rng.uniform(-280, 8, 7),
        'int': np.arange(-200, 1, 25),
        'two': np.array([-10.0, -2.5]),
        'one': np.array([-3.0]),
        'empty': np.array([], dtype=float),
        'list': [-20.0, -10.0, 0.0],
        'repeated': np.array([-50.0, -50.0, -20.0, -20.0]),
    }

    def functions(kind):
        parameters = yaml.safe_load(H.parameter_text(tree, kind))
        return (
            specific_yield_mod.create_specific_yield_function(
                parameters['specific_yield']
            ),
            transmissivity_mod.create_transmissivity_function(
                parameters['transmissivity']
            ),
        )

    for kind in ('spline', 'peatclsm'):
        for grid_name, grid in grids.items():
            for (mean, curvature_km, et_mm_d) in (
                (19.0, 2.36e-3, 4.15),
                (0.0, 0.0, 3.0),
                (np.float64(-7.5), 1e-2, 0.5),
                (1.0, -1e-3, 4.0),
                (1.0, 1e-3, -4.0),
            ):

                def curve(
                    kind=kind,
                    grid=grid,
                    mean=mean,
                    curvature_km=curvature_km,
                    et_mm_d=et_mm_d,
                ):
                    specific_yield, transmissivity = functions(kind)
                    grid_copy = grid.copy() if hasattr(grid, 'copy') else grid
                    calls = []
                    quad = simulate_recession_mod.integrate_mod.quad

                    def logging_quad(func, a, b, *args, **kwargs):
                        calls.append(
                            (
                                type(a).__name__,
                                type(b).__name__,
                                float(a),
                                float(b),
                                args,
                                sorted(kwargs),
                            )
                        )
                        return quad(func, a, b, *args, **kwargs)

                    simulate_recession_mod.integrate_mod.quad = logging_quad
                    try:
                        out = simulate_recession_mod.compute_recession_curve(
                            specific_yield,
                            transmissivity,
                            grid_copy,
                            mean,
                            curvature_km=curvature_km,
                            et_mm_d=et_mm_d,
                        )
                    finally:
                        simulate_recession_mod.integrate_mod.quad = quad
                    return (out, grid_copy, calls)

                H.scenario(
                    results,
                    'curve-{}-{}-{!r}-{!r}-{!r}'.format(
                        kind, grid_name, mean, curvature_km, et_mm_d
                    ),
                    curve,
                )

    # Databases with recession curve assembled and curvature set
    def prepared(sample, trimmed, curvature=2.36):
        def build():
            connection = H.classified_connection(
                tree, sample, 5.0 if trimmed else 1.0
            )
            if trimmed:
                connection.execute('PRAGMA foreign_keys = OFF')
                connection.execute(
                    """
                DELETE FROM zeta_interval
                WHERE interval_type = 'interstorm'
                  AND start_epoch > (
                    SELECT start_epoch FROM zeta_interval
                    WHERE interval_type = 'interstorm'
                    ORDER BY start_epoch LIMIT 1 OFFSET 60)"""
                )
            recession_mod.find_recession_offsets(connection)
            if curvature is not None:
                set_curvature_mod.set_curvature(connection, curvature)
            return connection

        return H._clone(('prepared', sample, trimmed, curvature), build)

    databases = (
        ('full1', lambda: prepared(1, False)),
        ('full2', lambda: prepared(2, False)),
        ('trim1', lambda: prepared(1, True)),
        ('trim2-flat', lambda: prepared(2, True, 0.0)),
    )
    for db_name, factory in databases:
        for kind in ('spline', 'peatclsm'):

            def simulate(factory=factory, kind=kind):
                connection = factory()
                value = simulate_recession_mod.simulate_recession(
                    connection, io.StringIO(H.parameter_text(tree, kind))
                )
                return (
                    type(value).__name__,
                    len(value),
                    list(value),
                    connection.in_transaction,
                    H.dump_db(connection),
                )

            H.scenario(
                results, 'simulate-{}-{}'.format(db_name, kind), simulate
            )
            for observations_only in (False, True, 0, 'yes'):

                def dump(
                    factory=factory,
                    kind=kind,
                    observations_only=observations_only,
                ):
                    connection = factory()
                    outfile = io.StringIO()
                    value = simulate_recession_mod.dump_simulated_recession(
                        connection=connection,
                        parameter_file=io.StringIO(
                            H.parameter_text(tree, kind)
                        ),
                        outfile=outfile,
                        observations_only=observations_only,
                    )
                    return (value, outfile.getvalue())

                H.scenario(
                    results,
                    'dump-{}-{}-{!r}'.format(db_name, kind, observations_only),
                    dump,
                )

    # Command line
    for db_name, factory in databases[:2]:
        for kind in ('spline', 'peatclsm'):
            for flags in ((), ('--observations',)):

                def cli(factory=factory, kind=kind, flags=flags):
                    connection = factory()
                    db_path = os.path.join(os.getcwd(), 'cli4.sqlite3')
                    out_path = os.path.join(os.getcwd(), 'cli4.out')
                    with open(db_path, 'wb') as db_file:
                        db_file.write(connection.serialize())
                    connection.close()
                    status = ui_mod.main(
                        [
                            'simulate',
                            'recession',
                            db_path,
                            os.path.join(
                                tree,
                                'spowtd',
                                'test',
                                'sample_data',
                                '{}_parameters.yml'.format(kind),
                            ),
                            '-o',
                            out_path,
                        ]
                        + list(flags)
                    )
                    with open(out_path, 'rt', encoding='utf-8') as out_file:
                        text = out_file.read()
                    os.remove(db_path)
                    os.remove(out_path)
                    return (status, text)

                H.scenario(
                    results, 'cli-{}-{}-{}'.format(db_name, kind, flags), cli
                )

    # Error paths
    def error(factory, text, mutate=None):
        def func():
            connection = factory()
            if mutate is not None:
                mutate(connection)
            outfile = io.StringIO()
            try:
                simulate_recession_mod.dump_simulated_recession(
                    connection, io.StringIO(text), outfile, False
                )
            finally:
                func.written = outfile.getvalue()
            return outfile.getvalue()

        return func

    spline_text = H.parameter_text(tree, 'spline')
    peatclsm_text = H.parameter_text(tree, 'peatclsm')
    H.scenario(
        results,
        'error-no-curvature',
        error(lambda: prepared(1, True, None), spline_text),
    )
    H.scenario(
        results,
        'error-empty-db',
        error(lambda: H.empty_connection(tree), spline_text),
    )

    def classified_with_curvature():
        connection = H.classified_connection(tree, 1, 1.0)
        set_curvature_mod.set_curvature(connection, 1.0)
        return connection

    H.scenario(
        results,
        'error-no-recession-yet',
        error(classified_with_curvature, spline_text),
    )

    def negative_et(connection):
        connection.execute(
            'UPDATE evapotranspiration '
            'SET evapotranspiration_mm_h = -evapotranspiration_mm_h - 0.125'
        )

    H.scenario(
        results,
        'error-negative-et',
        error(lambda: prepared(1, True), spline_text, negative_et),
    )

    def no_et(connection):
        connection.execute('PRAGMA foreign_keys = OFF')
        connection.execute('DELETE FROM evapotranspiration')

    H.scenario(
        results,
        'error-no-et',
        error(lambda: prepared(1, True), peatclsm_text, no_et),
    )
    for name, text in (
        ('missing-transmissivity', 'specific_yield: {type: spline}\n'),
        (
            'missing-type',
            'transmissivity: {alpha: 3}\n'
            + spline_text.split('transmissivity:')[0],
        ),
        (
            'bad-type',
            'transmissivity: {type: nonesuch}\n'
            + spline_text.split('transmissivity:')[0],
        ),
        (
            'missing-specific-yield',
            'transmissivity:' + peatclsm_text.split('transmissivity:')[1],
        ),
        (
            'peatclsm-extra-argument',
            peatclsm_text + '  nonesuch: 1\n',
        ),
        (
            'mixed-spline-sy-peatclsm-t',
            spline_text.split('transmissivity:')[0]
            + 'transmissivity:'
            + peatclsm_text.split('transmissivity:')[1],
        ),
        (
            'mixed-peatclsm-sy-spline-t',
            peatclsm_text.split('transmissivity:')[0]
            + 'transmissivity:'
            + spline_text.split('transmissivity:')[1],
        ),
        ('bad-yaml', 'a: [1, 2\n'),
        ('not-a-mapping', '- 1\n- 2\n'),
    ):
        H.scenario(
            results,
            'parameters-{}'.format(name),
            error(lambda: prepared(1, True), text),
        )


if __name__ == '__main__':
    H.main(os.path.abspath(__file__), 4, build_results)
