#!/venv/bin/python
"""Differential check for refactor4.diff:
spowtd.fit_offsets.get_series_time_offsets

Sorting the series by initial head is moved into sort_by_initial_head,
which shifts the series first, then finds the sorting permutation by a
stable sort of positions (instead of sorting decorated triples and
taking them apart again), and builds the mapping from new to original
position from that permutation.  Putting original indices back into
the head mapping is moved into relabel_series.

Runs the scenarios below twice in sub-processes, once against the tree
of HEAD (exported with git archive into a temporary directory) and once
against the work tree (which must have the refactoring applied), and
compares the outcomes exactly: the returned indices, offsets (dtype and
bytes) and head mapping (order of keys, types and bytes of the times),
exception type and message, log messages, the order in which min() of
the times and the first heads are evaluated, and that the arguments
are left as they were.  Series lists: overlapping, tied initial heads
(stability of the sort), several connected groups, disjoint, lists /
tuples / arrays / iterators / generators, malformed entries at
different positions (which failure comes first), NaN first heads,
many head steps.  Also the sample data taken through load, classify,
zeta grid, rise and recession offsets, comparing the arguments and
results of every call of get_series_time_offsets and the dump of the
database.

Usage: PYTHONPATH=/tmp/wt/rf9_B /venv/bin/python diff_check_4.py
"""

import hashlib
import importlib
import io
import os
import pickle
import subprocess
import sys
import tempfile

HERE = os.path.dirname(os.path.abspath(__file__))
PATCH = 'refactor4.diff'
MODULE_NAME = 'spowtd.fit_offsets'
MODULE = 'spowtd/fit_offsets.py'
MARKER = 'def sort_by_initial_head('
SAMPLE_DATA_DIR = os.path.join(HERE, 'spowtd', 'test', 'sample_data')


# ---------------------------------------------------------------- canon


def canon(obj):
    """Describe obj exactly (type, dtype, bytes) with plain objects"""
    import numpy as np

    if isinstance(obj, np.ndarray):
        if obj.dtype == object:
            return ('ndarray-object', obj.shape, [canon(v) for v in obj.flat])
        return ('ndarray', obj.dtype.str, obj.shape, obj.tobytes())
    if isinstance(obj, np.generic):
        return ('npscalar', type(obj).__name__, obj.dtype.str, obj.tobytes())
    if isinstance(obj, bool) or obj is None:
        return ('const', repr(obj))
    if isinstance(obj, int):
        return ('int', obj)
    if isinstance(obj, float):
        return ('float', obj.hex())
    if isinstance(obj, (str, bytes)):
        return (type(obj).__name__, obj)
    if isinstance(obj, (list, tuple)):
        return (type(obj).__name__, [canon(v) for v in obj])
    if isinstance(obj, dict):
        # order of insertion is part of the result
        return ('dict', [(canon(k), canon(v)) for k, v in obj.items()])
    if isinstance(obj, (set, frozenset)):
        return (type(obj).__name__, sorted(repr(canon(v)) for v in obj))
    if isinstance(obj, BaseException):
        return (
            'exception',
            type(obj).__module__ + '.' + type(obj).__qualname__,
            str(obj),
            canon(obj.args),
        )
    return ('other', type(obj).__name__, repr(obj))


def call(function, *args, **kwargs):
    """Outcome of a call: its value or its exception"""
    try:
        return ('returned', canon(function(*args, **kwargs)))
    except BaseException as exc:  # pylint: disable=broad-except
        return ('raised', canon(exc))


# ------------------------------------------------------------ scenarios


def run_pipeline(sample):
    """Sample data through to the rise and recession offsets"""
    import sqlite3
    import spowtd.classify as classify_mod
    import spowtd.load as load_mod
    import spowtd.recession as recession_mod
    import spowtd.rise as rise_mod
    import spowtd.zeta_grid as zeta_grid_mod

    connection = sqlite3.connect(':memory:')
    files = [
        open(
            os.path.join(SAMPLE_DATA_DIR, '{}_{}.txt'.format(kind, sample)),
            'rt',
            encoding='utf-8-sig',
        )
        for kind in ('precipitation', 'evapotranspiration', 'water_level')
    ]
    load_mod.load_data(connection, *files, 'Africa/Lagos')
    for data_file in files:
        data_file.close()
    classify_mod.classify_intervals(
        connection, storm_rain_threshold_mm_h=8.0,
        rising_jump_threshold_mm_h=5.0,
    )
    zeta_grid_mod.populate_zeta_grid(connection, grid_interval_mm=1.0)
    calls = []

    def recording(function):
        def wrapper(*args, **kwargs):
            before = canon((args, kwargs))
            try:
                result = function(*args, **kwargs)
            except BaseException as exc:
                calls.append((before, ('raised', canon(exc)),
                              canon((args, kwargs)) == before))
                raise
            calls.append((before, ('returned', canon(result)),
                          canon((args, kwargs)) == before))
            return result

        return wrapper

    rise_mod.get_series_time_offsets = recording(
        rise_mod.get_series_time_offsets
    )
    recession_mod.get_series_time_offsets = recording(
        recession_mod.get_series_time_offsets
    )
    outcomes = [
        call(rise_mod.find_rise_offsets, connection),
        call(recession_mod.find_recession_offsets, connection),
    ]
    dump = '\n'.join(connection.iterdump())
    result = {
        'outcome': ('returned', outcomes),
        'calls': hashlib.sha256(pickle.dumps(calls)).hexdigest(),
        'number of calls': len(calls),
        'series per call': [len(before[1][0][1][0][1]) for before, _, _
                            in calls],
        'call outcomes': [outcome[0] for _, outcome, _ in calls],
        'dump': (len(dump), hashlib.sha256(dump.encode('utf-8')).hexdigest()),
        'offsets': connection.execute(
            'SELECT * FROM rising_interval ORDER BY 1'
        ).fetchall() + connection.execute(
            'SELECT * FROM recession_interval ORDER BY 1'
        ).fetchall(),
    }
    connection.close()
    return result


class Series:
    """A series (time, head) that is not a tuple but unpacks like one"""

    def __init__(self, t, H):
        self.pair = (t, H)

    def __iter__(self):
        return iter(self.pair)


class NoisyHead:
    """A head series that records when its first item is looked at"""

    log = []

    def __init__(self, name, values):
        self.name = name
        self.values = values

    def __getitem__(self, index):
        NoisyHead.log.append(('getitem', self.name, index))
        return self.values[index]

    def __len__(self):
        return len(self.values)

    def __truediv__(self, other):
        return self.values / other


class NoisyTime:
    """A time series that records when its minimum is asked for"""

    def __init__(self, name, values):
        self.name = name
        self.values = values

    def min(self):
        NoisyHead.log.append(('min', self.name))
        return self.values.min()

    def __sub__(self, other):
        NoisyHead.log.append(('sub', self.name))
        return self.values - other


def scenarios():
    import logging
    import numpy as np
    import spowtd.fit_offsets as fit_offsets_mod

    results = []
    for sample in (1, 2):
        results.append(('pipeline sample {}'.format(sample),
                        run_pipeline(sample)))

    messages = []

    class Handler(logging.Handler):
        def emit(self, record):
            messages.append(record.getMessage())

    fit_offsets_mod.LOG.addHandler(Handler())
    fit_offsets_mod.LOG.setLevel(logging.DEBUG)

    def add(name, series_list, head_step, materialize=None):
        before = canon((series_list, head_step))
        del messages[:]
        del NoisyHead.log[:]
        argument = series_list if materialize is None else materialize(
            series_list)
        result = {
            'outcome': call(fit_offsets_mod.get_series_time_offsets,
                            argument, head_step),
            'arguments unchanged': canon((series_list, head_step)) == before,
            'log': list(messages),
            'order of evaluation': canon(list(NoisyHead.log)),
        }
        results.append((name, result))

    rng = np.random.default_rng(20260927)

    def rise(start, n, t0=0.0, dt=1.0, rate=1.3):
        t = t0 + dt * np.arange(n)
        H = start + np.cumsum(rng.uniform(0.1, 2.0 * rate, n))
        return (t, H)

    def fall(start, n, t0=0.0, dt=1.0, rate=1.3):
        t = t0 + dt * np.arange(n)
        H = start - np.cumsum(rng.uniform(0.1, 2.0 * rate, n))
        return (t, H)

    overlapping = [rise(s, 8, t0=100.0 * i) for i, s in
                   enumerate((3.0, -2.0, 9.5, 0.25, 6.0, -7.0, 12.0))]
    falling = [fall(s, 8, t0=1e9 + 50.0 * i) for i, s in
               enumerate((13.0, 22.0, 9.5, 30.25, 16.0, 17.0))]
    tied = [rise(s, 9, t0=7.0 * i) for i, s in
            enumerate((2.0, 5.0, 2.0, 5.0, 2.0, -1.0, 5.0))]
    # Ties in the initial head between series that differ otherwise
    for t, H in tied:
        H[0] = np.floor(H[0])
    two_groups = [rise(s, 5, t0=3.0 * i) for i, s in
                  enumerate((0.0, 100.0, 2.0, 103.0, 1.0, 98.0, 4.0))]
    three_groups = two_groups + [rise(s, 4) for s in (-50.0, -52.0)]
    equal_groups = [rise(s, 5) for s in (0.0, 100.0, 2.0, 103.0)]
    disjoint = [rise(s, 4) for s in (0.0, 100.0, 200.0)]
    wandering = [(np.arange(15.0) * 2.0 + 5.0 * i,
                  s + np.cumsum(rng.normal(0.3, 2.0, 15)))
                 for i, s in enumerate((0.0, 4.0, -3.0, 8.0))]
    mixed_types = [
        (np.arange(6), np.array([1, 3, 4, 7, 9, 12])),
        (np.arange(6, dtype='int32'), np.array([2.5, 3, 4.5, 7, 9.5, 12])),
        (np.arange(6, dtype='float32') + 0.5,
         np.array([0, 2, 5, 6, 8, 11], dtype='float32')),
        (np.array([5, 3, 9, 12, 20, 21]), np.array([-1, 2, 5, 6, 8, 11.5])),
    ]
    lists = {
        'overlapping': overlapping,
        'overlapping, reversed': overlapping[::-1],
        'overlapping, sorted already':
            sorted(overlapping, key=lambda s: s[1][0]),
        'falling': falling,
        'tied initial heads': tied,
        'tied initial heads, reversed': tied[::-1],
        'all initial heads equal':
            [(t, H - H[0]) for t, H in overlapping],
        'two groups': two_groups,
        'three groups': three_groups,
        'two groups of equal size': equal_groups,
        'two groups of equal size, reversed': equal_groups[::-1],
        'disjoint': disjoint,
        'wandering': wandering,
        'mixed types': mixed_types,
        'two series': overlapping[:2],
        'two series, not overlapping': disjoint[:2],
        'one series': overlapping[:1],
        'same series twice': [overlapping[0], overlapping[0]],
        'same series three times and another':
            [overlapping[0]] * 3 + [overlapping[2]],
        'copies of one series':
            [(t.copy(), H.copy()) for t, H in [overlapping[1]] * 4],
    }
    steps = (1.0, 0.5, 2, 5.0, -1.0, 0.3)
    for list_name, series_list in lists.items():
        for step in steps:
            add('{} / {}'.format(list_name, step), series_list, step)
        add('{} / as tuple'.format(list_name), tuple(series_list), 1.0)
        add('{} / lists of two'.format(list_name),
            [list(pair) for pair in series_list], 1.0)
        add('{} / arrays of two rows'.format(list_name),
            [np.array([t, H], dtype='float64') for t, H in series_list], 1.0)
        if len(set(len(t) for t, H in series_list)) == 1:
            add('{} / one array'.format(list_name),
                np.array([[t, H] for t, H in series_list], dtype='float64'),
                1.0)
        add('{} / iterator'.format(list_name), series_list, 1.0,
            materialize=iter)
        add('{} / generator'.format(list_name), series_list, 1.0,
            materialize=lambda seq: (pair for pair in seq))
        add('{} / dict keys'.format(list_name),
            dict((Series(t, H), None) for t, H in series_list), 1.0)
        add('{} / unpackable objects'.format(list_name),
            [Series(t, H) for t, H in series_list], 1.0)
        add('{} / order of evaluation'.format(list_name),
            [(NoisyTime(i, t), NoisyHead(i, H))
             for i, (t, H) in enumerate(series_list)], 1.0)

    good = overlapping[:4]
    t0, H0 = good[0]
    nan_first = H0.copy()
    nan_first[0] = np.nan
    odd = {
        'empty list': [],
        'empty tuple': (),
        'empty array': np.array([]),
        'empty dict': {},
        'empty iterator': iter(()),
        'None': None,
        'zero': 0,
        'a number': 3,
        'a string': 'ab',
        'array of numbers': np.arange(4.0),
        'list of numbers': [1.0, 2.0],
        'list of None': [None, None],
        'triples': [(t, H, 1) for t, H in good],
        'third is a triple': good[:2] + [(t0, H0, 1)] + good[2:],
        'singletons': [(t,) for t, H in good],
        'last is a singleton': good + [(t0,)],
        'time a list': [(list(t), H) for t, H in good],
        'last time a list': good + [(list(t0), H0)],
        'time a tuple, head a list':
            [(tuple(t), list(H)) for t, H in good],
        'head a list': [(t, list(H)) for t, H in good],
        'head a tuple': [(t, tuple(H)) for t, H in good],
        'head empty': [(t[:0], H[:0]) for t, H in good],
        'second head empty': good[:1] + [(t0[:0], H0[:0])] + good[1:],
        'second head empty, third time a list':
            good[:1] + [(t0[:0], H0[:0]), (list(t0), H0)] + good[1:],
        'second time a list, third head empty':
            good[:1] + [(list(t0), H0), (t0, H0[:0])] + good[1:],
        'time empty, head not': [(t[:0], H) for t, H in good],
        'head a number': [(t, 3.0) for t, H in good],
        'head None': [(t, None) for t, H in good],
        'time None': [(None, H) for t, H in good],
        'head shorter than time': [(t, H[:-2]) for t, H in good],
        'time shorter than head': [(t[:-2], H) for t, H in good],
        'one point each': [(t[:1], H[:1]) for t, H in good],
        'two points each': [(t[:2], H[:2]) for t, H in good],
        'nan first head': good[:2] + [(t0, nan_first)] + good[2:],
        'nan first head, first': [(t0, nan_first)] + good,
        'all nan first heads':
            [(t, np.where(np.arange(len(H)) == 0, np.nan, H))
             for t, H in good],
        'nan later in head':
            [(t, np.where(np.arange(len(H)) == 3, np.nan, H))
             for t, H in good],
        'inf in head':
            good[:3] + [(t0, np.where(np.arange(len(H0)) == 5, np.inf, H0))],
        'nan in time':
            [(np.where(np.arange(len(t)) == 2, np.nan, t), H)
             for t, H in good],
        'first heads are strings and numbers':
            [(t, np.array(H, dtype=object)) for t, H in good[:2]]
            + [(t0, np.array(['a'] + list(H0[1:]), dtype=object))],
        'first heads are arrays':
            [(t, np.tile(H, (2, 1)).T) for t, H in good],
        'first heads are arrays of one':
            [(t, H.reshape((-1, 1))) for t, H in good],
        'first heads complex':
            [(t, H.astype(complex)) for t, H in good],
        'times two-dimensional':
            [(t.reshape((-1, 1)), H) for t, H in good],
        'times not increasing': [(t[::-1], H) for t, H in good],
        'times shuffled': [(rng.permutation(t), H) for t, H in good],
        'times repeated': [(np.repeat(t[::2], 2), H) for t, H in good],
        'times datetime64':
            [(t.astype('int64').astype('datetime64[s]'), H)
             for t, H in good],
        'times unsigned': [(t.astype('uint8'), H) for t, H in good],
        'times bool':
            [(np.arange(len(t)) > 3, H) for t, H in good],
        'heads constant': [(t, np.full(len(t), 2.0)) for t, H in good],
        'heads constant, off multiple':
            [(t, np.full(len(t), 2.5)) for t, H in good],
        'heads integer, equal': [(t, np.arange(len(t))) for t, H in good],
        'heads huge': [(t, H * 1e18) for t, H in good],
        'heads tiny range': [(t, 0.5 + H * 1e-3) for t, H in good],
        'read-only arrays': [(t.copy(), H.copy()) for t, H in good],
        'masked heads':
            [(t, np.ma.masked_array(H, mask=np.arange(len(H)) == 2))
             for t, H in good],
    }
    for t, H in odd['read-only arrays']:
        t.setflags(write=False)
        H.setflags(write=False)
    for name, series_list in odd.items():
        add(name, series_list, 1.0)

    for name, step in {
        'zero': 0.0, 'integer zero': 0, 'nan': np.nan, 'inf': np.inf,
        'None': None, 'a string': '1', 'tiny': 1e-300, 'huge': 1e300,
        'an array': np.full(8, 2.0), 'an array of one': np.array([1.0]),
        'a short array': np.array([1.0, 2.0]), 'bool': True,
        'numpy float32': np.float32(0.5), 'numpy int': np.int64(2),
    }.items():
        add('head step {}'.format(name), good, step)
        add('head step {}, empty list'.format(name), [], step)
    return results


# -------------------------------------------------------------- harness


def run_scenarios(root, out_path):
    sys.path[:] = [
        path
        for path in sys.path
        if os.path.abspath(path or os.getcwd()) != HERE
    ]
    sys.path.insert(0, root)
    module = importlib.import_module(MODULE_NAME)
    assert os.path.abspath(module.__file__) == os.path.join(
        os.path.abspath(root), MODULE
    ), module.__file__
    with open(out_path, 'wb') as out_file:
        pickle.dump(scenarios(), out_file)


def main():
    if len(sys.argv) == 4 and sys.argv[1] == '--run':
        run_scenarios(sys.argv[2], sys.argv[3])
        return 0
    with tempfile.TemporaryDirectory() as tmp:
        orig_root = os.path.join(tmp, 'orig')
        os.makedirs(orig_root)
        subprocess.run(
            'git archive HEAD spowtd | tar -x -C "{}"'.format(orig_root),
            shell=True, cwd=HERE, check=True,
        )
        with open(os.path.join(orig_root, MODULE)) as f:
            orig_source = f.read()
        with open(os.path.join(HERE, MODULE)) as f:
            new_source = f.read()
        assert MARKER not in orig_source, 'HEAD already has the refactoring'
        assert MARKER in new_source, (
            'work tree does not have {} applied'.format(PATCH))
        # Both sides run at the same time, each in its own process
        processes = {}
        for name, root in (('orig', orig_root), ('new', HERE)):
            out_path = os.path.join(tmp, name + '.pickle')
            env = dict(os.environ)
            env.pop('PYTHONPATH', None)
            processes[name] = (
                subprocess.Popen(
                    [sys.executable, '-W', 'ignore',
                     os.path.abspath(__file__), '--run', root, out_path],
                    cwd=tmp, env=env,
                ),
                out_path,
            )
        outputs = {}
        for name, (process, out_path) in processes.items():
            assert process.wait() == 0, '{} side failed'.format(name)
            with open(out_path, 'rb') as out_file:
                outputs[name] = pickle.load(out_file)
    orig, new = outputs['orig'], outputs['new']
    assert [name for name, _ in orig] == [name for name, _ in new]
    failures = 0
    outcomes = {}
    for (name, expected), (_, actual) in zip(orig, new):
        if expected != actual:
            failures += 1
            print('DIFFERENT: {}'.format(name))
            for key in expected:
                if expected[key] != actual[key]:
                    print('  {}:\n    orig {!r}\n    new  {!r}'.format(
                        key, expected[key], actual[key])[:2000])
        outcome = expected['outcome']
        kind = outcome[0] if outcome[0] == 'returned' else outcome[1][1]
        outcomes[kind] = outcomes.get(kind, 0) + 1
        if '-v' in sys.argv:
            print('{:45s} {}'.format(
                name, outcome[1][1:3] if outcome[0] == 'raised' else 'ok'))
    print('{} scenarios; outcomes in the original: {}'.format(
        len(orig), outcomes))
    if failures:
        print('FAILED: {} scenarios differ'.format(failures))
        return 1
    print('OK')
    return 0


if __name__ == '__main__':
    sys.exit(main())
