"""Differential check for refactor2.diff (round 7)

rise.compute_rise_offsets: the zeta_grid step query (table alias, column
alias, LIMIT 1 instead of relying on fetchone alone) and the two INSERT
statements (VALUES instead of SELECT, explicit default column interval_type,
positional parameters / permuted column list and renamed named parameter).

Runs rise.find_rise_offsets with the original package and with the patched
package (two extracted copies, separate processes) on the sample data (library
and CLI), on synthetic classified databases (including zeta_grid rows with a
NULL id in front of the real one, and no zeta_grid row at all) and on databases
where the INSERTs fail part-way (UNIQUE conflict on the first / a middle / the
last interval, FOREIGN KEY failure on discrete_zeta, foreign keys off);
compares the exception, connection.in_transaction, total_changes and a dump of
every table and view taken before the rollback, with float bit patterns and
SQLite storage classes.

Run: cd /tmp/rf_C && PYTHONPATH=/tmp/rf_C /venv/bin/python diff_check_2.py
"""

import sys

import _dc_common as common


def scenarios():
    return common.step_scenarios(
        'rise', 'find_rise_offsets', 'rising_interval_zeta', 'rising_interval'
    )


if __name__ == '__main__':
    if '--worker' in sys.argv:
        common.worker_main(scenarios)
    else:
        common.drive(__file__, 2)
