"""Differential check for refactor2.diff (match_storms: overlap loop)

Loads spowtd/classify.py twice, once from git HEAD and once from HEAD with
refactor2.diff applied (in a temporary directory), and compares

 - the candidate lists handed to disambiguate_matching (order included, so
   the iteration order of the per-rise set of storm indices is checked) and
 - the result (or exception) of match_storms

on the two sample data sets, on random rain / head series, on series built
so that one rise overlaps many storms whose indices do not iterate in
sorted order in a set (e.g. {6, 7, 8, 9}), and on malformed input (unequal
lengths, too short).

Run as:  cd /tmp/rf_A && PYTHONPATH=/tmp/rf_A /venv/bin/python diff_check_2.py
"""

import copy
import importlib.util
import os
import random
import shutil
import sqlite3
import subprocess
import sys
import tempfile

import numpy as np

HERE = os.path.dirname(os.path.abspath(__file__))
K = 2


def load_variants():
    """Return (original module, refactored module)"""
    tmp = tempfile.mkdtemp(prefix="diffcheck_", dir=HERE)
    try:
        source = subprocess.check_output(
            ["git", "-C", HERE, "show", "HEAD:spowtd/classify.py"]
        )
        modules = []
        for name in ("orig", "new"):
            os.makedirs(os.path.join(tmp, name, "spowtd"))
            path = os.path.join(tmp, name, "spowtd", "classify.py")
            with open(path, "wb") as f:
                f.write(source)
            if name == "new":
                with open(os.path.join(HERE, f"refactor{K}.diff"), "rb") as patch:
                    subprocess.check_call(
                        ["patch", "-s", "-p1", "-d", os.path.join(tmp, name)],
                        stdin=patch,
                    )
                with open(path, "rb") as f:
                    assert f.read() != source, "patch changed nothing"
            spec = importlib.util.spec_from_file_location(f"classify_{name}", path)
            module = importlib.util.module_from_spec(spec)
            spec.loader.exec_module(module)
            modules.append(module)
        return tuple(modules)
    finally:
        shutil.rmtree(tmp)


def describe(obj):
    """Exact, type-revealing description of a nested result"""
    if isinstance(obj, dict):
        return ("dict", [(describe(k), describe(v)) for k, v in obj.items()])
    if isinstance(obj, (list, tuple)):
        return (type(obj).__name__, [describe(v) for v in obj])
    if isinstance(obj, np.ndarray):
        return ("ndarray", str(obj.dtype), obj.shape, obj.tobytes())
    return (type(obj).__name__, repr(obj))


def outcome(function, *args):
    """Result or exception of a call"""
    try:
        return ("ok", describe(function(*args)))
    except Exception as exc:  # pylint: disable=broad-except
        return ("raised", type(exc).__name__, str(exc))


def sample_series(sample):
    """(rain, head, time step in h) for each data interval of a sample"""
    import spowtd.load as load_mod  # unchanged by the patch

    data_dir = os.path.join(HERE, "spowtd", "test", "sample_data")
    connection = sqlite3.connect(":memory:")
    with open(
        os.path.join(data_dir, f"precipitation_{sample}.txt"),
        "rt",
        encoding="utf-8-sig",
    ) as precip_f, open(
        os.path.join(data_dir, f"evapotranspiration_{sample}.txt"),
        "rt",
        encoding="utf-8-sig",
    ) as et_f, open(
        os.path.join(data_dir, f"water_level_{sample}.txt"),
        "rt",
        encoding="utf-8-sig",
    ) as zeta_f:
        load_mod.load_data(
            connection=connection,
            precipitation_data_file=precip_f,
            evapotranspiration_data_file=et_f,
            water_level_data_file=zeta_f,
            time_zone_name="Africa/Lagos",
        )
    cursor = connection.cursor()
    (time_step_h,) = cursor.execute(
        "SELECT CAST(time_step_s AS double precision) / 3600. FROM time_grid"
    ).fetchone()
    labels = [
        row[0]
        for row in cursor.execute(
            "SELECT DISTINCT data_interval FROM grid_time "
            "WHERE data_interval IS NOT NULL ORDER BY 1"
        ).fetchall()
    ]
    for label in labels:
        rows = cursor.execute(
            """
            SELECT zeta_mm, rainfall_intensity_mm_h
            FROM grid_time
            JOIN rainfall_intensity
              ON rainfall_intensity.from_epoch = grid_time.epoch
              AND grid_time.data_interval = ?
            JOIN water_level
              ON rainfall_intensity.from_epoch = water_level.epoch
            ORDER BY from_epoch""",
            (label,),
        ).fetchall()
        head, rain = (np.array(v) for v in zip(*rows))
        yield rain, head, time_step_h
    connection.close()


def random_series(rng):
    """Random rain and head series with overlapping storms and rises"""
    n = rng.randint(2, 120)
    rain = np.zeros(n)
    head = np.zeros(n)
    level = 0.0
    raining = False
    rising = False
    for i in range(n):
        if rng.random() < 0.25:
            raining = not raining
        if rng.random() < 0.3:
            rising = not rising
        rain[i] = rng.choice([5.0, 9.0, 20.0]) if raining else rng.choice([0.0, 1.0])
        level += rng.choice([2.0, 3.0, 7.0]) if rising else rng.choice([-0.5, 0.0, 0.5])
        head[i] = level
    return rain, head



def run_match_storms(module, rain, head, rain_threshold, jump_threshold):
    """match_storms, recording what disambiguate_matching receives"""
    seen = []
    inner = module.disambiguate_matching

    def spy(rain_intervals, head_intervals):
        seen.append(
            (
                describe(rain_intervals),
                describe(head_intervals),
                [int(rain_start) for rain_start, _ in rain_intervals],
            )
        )
        return inner(rain_intervals, head_intervals)

    module.disambiguate_matching = spy
    try:
        result = outcome(
            module.match_storms, rain.copy(), head.copy(), rain_threshold, jump_threshold
        )
    finally:
        module.disambiguate_matching = inner
    return (seen, result)


def many_storms_one_rise(n_before, n_during, rng=None):
    """n_before isolated storms, then one long rise overlapping n_during storms"""
    rain = []
    head = []
    level = 0.0
    for _ in range(n_before):
        for intensity in (10.0, 0.0, 0.0):
            rain.append(intensity)
            head.append(level)
    for _ in range(n_during):
        on = 1 if rng is None else rng.randint(1, 3)
        off = 1 if rng is None else rng.randint(1, 2)
        for intensity in [10.0] * on + [0.0] * off:
            rain.append(intensity)
            level += 6.0
            head.append(level)
    for _ in range(3):
        rain.append(0.0)
        head.append(level)
    return np.array(rain), np.array(head)


def main():
    orig, new = load_variants()
    rng = random.Random(20260927)
    n_cases = 0
    n_unsorted = 0

    def compare(rain, head, rain_threshold, jump_threshold, expect_ok=None):
        nonlocal n_cases, n_unsorted
        a = run_match_storms(orig, rain, head, rain_threshold, jump_threshold)
        b = run_match_storms(new, rain, head, rain_threshold, jump_threshold)
        assert a == b, (rain, head, rain_threshold, jump_threshold, a, b)
        if expect_ok is not None:
            assert (a[1][0] == "ok") == expect_ok, a[1]
        n_cases += 1
        if a[0]:
            starts = a[0][0][2]
            if starts != sorted(starts):
                n_unsorted += 1
        return a

    for sample in (1, 2):
        for rain, head, time_step_h in sample_series(sample):
            for rain_threshold, jump_threshold_mm_h in [
                (8.0, 5.0),
                (4.0, 8.0),
                (1.0, 1.0),
                (0.0, 0.5),
            ]:
                compare(
                    rain,
                    head,
                    rain_threshold,
                    jump_threshold_mm_h * time_step_h,
                    expect_ok=True,
                )

    for n_before in range(0, 20):
        for n_during in (1, 2, 4, 7, 12, 30):
            rain, head = many_storms_one_rise(n_before, n_during)
            compare(rain, head, 4.0, 5.0, expect_ok=True)
            rain, head = many_storms_one_rise(n_before, n_during, rng)
            compare(rain, head, 4.0, 5.0, expect_ok=True)
    assert n_unsorted > 0, "set iteration order never differed from sorted order"

    for _ in range(2000):
        rain, head = random_series(rng)
        compare(rain, head, rng.choice([4.0, 8.0]), rng.choice([1.0, 2.5, 5.0]))

    # Degenerate and malformed input
    compare(np.zeros(5), np.zeros(5), 4.0, 5.0, expect_ok=True)  # nothing
    compare(np.full(5, 9.0), np.arange(5) * 10.0, 4.0, 5.0, expect_ok=True)
    compare(np.full(5, 9.0), np.zeros(5), 4.0, 5.0, expect_ok=True)  # no rise
    compare(np.zeros(5), np.arange(5) * 10.0, 4.0, 5.0, expect_ok=True)  # no rain
    compare(np.array([9.0]), np.array([1.0]), 4.0, 5.0)
    compare(np.array([]), np.array([]), 4.0, 5.0)
    compare(np.array([9.0, 9.0]), np.array([0.0, 10.0]), 4.0, 5.0, expect_ok=True)
    # unequal lengths
    compare(np.full(4, 9.0), np.arange(6) * 10.0, 4.0, 5.0, expect_ok=False)
    compare(np.full(7, 9.0), np.arange(5) * 10.0, 4.0, 5.0, expect_ok=False)
    compare(np.full(7, 9.0), np.zeros(5), 4.0, 5.0)
    compare(np.full(2, 9.0), np.arange(5) * 10.0, 4.0, 5.0)
    compare(np.full(6, 9.0), np.arange(2) * 10.0, 4.0, 5.0)
    compare(np.array([9.0, 0.0]), np.arange(5) * 10.0, 4.0, 5.0)
    compare(np.array([0.0, 9.0]), np.arange(5) * 10.0, 4.0, 5.0)

    print(
        f"diff_check_{K}: OK ({n_cases} cases identical, "
        f"{n_unsorted} with unsorted set iteration order)"
    )


if __name__ == "__main__":
    sys.exit(main())
