"""Differential check for refactor2.diff (specific_yield.py, factory + spline class)

Exercises create_specific_yield_function / SplineSpecificYield on the sample
parameters, on synthetic knots, on bad input, and through simulate_rise on
both sample data sets, with the original and the refactored package; asserts
bit-exact equality of everything (values, messages of exceptions, the state
of the parameter dict after the call, YAML text written).
"""

import io
import warnings

import _dc_harness


def worker():
    import numpy as np
    import yaml

    import spowtd.simulate_rise as simulate_rise_mod
    import spowtd.specific_yield as sy_mod
    from spowtd.test import conftest

    warnings.simplefilter('ignore')
    results = {}

    with open(conftest.get_parameter_file_path('spline'), 'rt') as f:
        sample_spline = yaml.safe_load(f)['specific_yield']
    with open(conftest.get_parameter_file_path('peatclsm'), 'rt') as f:
        sample_peatclsm = yaml.safe_load(f)['specific_yield']

    probe_mm = np.linspace(-400, 300, 141)

    def probe(sy):
        out = {
            'class': type(sy).__name__,
            'bases': [c.__name__ for c in type(sy).__mro__],
            'zeta_knots_mm': sy.zeta_knots_mm,
            'sy_knots': sy.sy_knots,
            'tck': [np.asarray(sy._spline._tck[0]),
                    np.asarray(sy._spline._tck[1]), sy._spline._tck[2]],
            'call_array': sy(probe_mm),
            'call_scalars': [sy(float(v)) for v in probe_mm[::10]],
            'integrals': [
                sy.integrate(float(a), float(b))
                for a, b in [(-350, -300), (-100, 20), (30, -40), (7, 7),
                             (150, 260), (-500, 500)]
            ],
        }
        if hasattr(sy, '__dict__'):
            out['dict_keys'] = sorted(sy.__dict__)
        return out

    def via_factory(parameters):
        outcome = _dc_harness.capture(
            lambda: probe(sy_mod.create_specific_yield_function(parameters))
        )
        # the factory pops "type" from its argument
        return (outcome, repr(parameters))

    rng = np.random.default_rng(7)
    x_rand = np.cumsum(rng.uniform(0.5, 40.0, size=12)) - 200.0
    y_rand = rng.uniform(0.05, 0.9, size=12)
    cases = {
        'sample_spline': dict(sample_spline),
        'sample_peatclsm': dict(sample_peatclsm),
        'random_knots_lists': {
            'type': 'spline',
            'zeta_knots_mm': x_rand.tolist(),
            'sy_knots': y_rand.tolist(),
        },
        'random_knots_arrays': {
            'type': 'spline', 'zeta_knots_mm': x_rand, 'sy_knots': y_rand,
        },
        'tuples_and_ints': {
            'type': 'spline',
            'zeta_knots_mm': (-30, -20, -10, 0, 10),
            'sy_knots': (1, 2, 4, 8, 16),
        },
        'exactly_four_knots': {
            'type': 'spline',
            'zeta_knots_mm': [0.0, 1.0, 2.0, 3.0],
            'sy_knots': [0.1, 0.2, 0.25, 0.4],
        },
        'unequal_lengths': {
            'type': 'spline',
            'zeta_knots_mm': [0.0, 1.0, 2.0, 3.0, 4.0, 5.0],
            'sy_knots': [0.1, 0.2, 0.25, 0.4, 0.5],
        },
        # -- bad input --
        'no_type': {'zeta_knots_mm': [0, 1], 'sy_knots': [1, 2]},
        'empty': {},
        'type_none': {'type': None, 'zeta_knots_mm': [0, 1]},
        'type_unknown': {'type': 'cubic', 'zeta_knots_mm': [0, 1]},
        'type_unhashable': {'type': ['spline'], 'zeta_knots_mm': [0, 1]},
        'too_few_knots': {
            'type': 'spline', 'zeta_knots_mm': [0.0, 1.0, 2.0],
            'sy_knots': [0.1, 0.2, 0.3],
        },
        'no_knots': {'type': 'spline', 'zeta_knots_mm': [], 'sy_knots': []},
        'not_increasing': {
            'type': 'spline', 'zeta_knots_mm': [0.0, 2.0, 1.0, 3.0, 4.0],
            'sy_knots': [0.1, 0.2, 0.3, 0.4, 0.5],
        },
        'nan_x': {
            'type': 'spline',
            'zeta_knots_mm': [0.0, float('nan'), 2.0, 3.0, 4.0],
            'sy_knots': [0.1, 0.2, 0.3, 0.4, 0.5],
        },
        'inf_y': {
            'type': 'spline', 'zeta_knots_mm': [0.0, 1.0, 2.0, 3.0, 4.0],
            'sy_knots': [0.1, 0.2, float('inf'), 0.4, 0.5],
        },
        'scalar_knots': {
            'type': 'spline', 'zeta_knots_mm': 3.0, 'sy_knots': 0.2,
        },
        'none_knots': {
            'type': 'spline', 'zeta_knots_mm': [0, 1, 2, 3], 'sy_knots': None,
        },
        'string_values': {
            'type': 'spline', 'zeta_knots_mm': ['a', 'b', 'c', 'd'],
            'sy_knots': [0.1, 0.2, 0.3, 0.4],
        },
        'missing_keyword': {'type': 'spline', 'zeta_knots_mm': [0, 1, 2, 3]},
        'extra_keyword': {
            'type': 'spline', 'zeta_knots_mm': [0, 1, 2, 3],
            'sy_knots': [1, 2, 3, 4], 'order': 1,
        },
        'peatclsm_extra_keyword': dict(sample_peatclsm, zeta_knots_mm=[1]),
    }
    for name, parameters in cases.items():
        results[name] = via_factory(parameters)

    # not a dict at all
    results['parameters_none'] = _dc_harness.capture(
        sy_mod.create_specific_yield_function, None
    )
    results['parameters_list'] = _dc_harness.capture(
        sy_mod.create_specific_yield_function, ['type']
    )

    # direct construction; one-shot iterators as knots
    results['direct'] = _dc_harness.capture(
        lambda: probe(sy_mod.SplineSpecificYield(x_rand.tolist(), y_rand))
    )
    results['direct_keywords'] = _dc_harness.capture(
        lambda: probe(
            sy_mod.SplineSpecificYield(
                sy_knots=[0.1, 0.3, 0.2, 0.5, 0.6],
                zeta_knots_mm=[-5.0, -1.0, 0.0, 2.5, 9.0],
            )
        )
    )

    def with_iterators():
        sy = sy_mod.SplineSpecificYield(iter(x_rand.tolist()), iter(y_rand))
        return {
            'tck': [np.asarray(sy._spline._tck[0]),
                    np.asarray(sy._spline._tck[1]), sy._spline._tck[2]],
            'call_array': sy(probe_mm),
            'left_x': list(sy.zeta_knots_mm),
            'left_y': list(sy.sy_knots),
        }

    results['direct_iterators'] = _dc_harness.capture(with_iterators)

    # A subclass that overrides nothing still works the same
    class Derived(sy_mod.SplineSpecificYield):
        pass

    results['derived'] = _dc_harness.capture(
        lambda: probe(Derived(x_rand.tolist(), y_rand.tolist()))
    )

    # Through simulate_rise on the sample data
    for sample in (1, 2):
        connection = _dc_harness.build_database(sample)
        for parameterization in ('spline', 'peatclsm'):
            for observations_only in (False, True):
                outfile = io.StringIO()
                with open(
                    conftest.get_parameter_file_path(parameterization), 'rt'
                ) as parameter_file:
                    outcome = _dc_harness.capture(
                        simulate_rise_mod.simulate_rise,
                        connection=connection,
                        parameters=parameter_file,
                        outfile=outfile,
                        observations_only=observations_only,
                    )
                results[
                    'simulate_rise_{}_{}_{}'.format(
                        sample, parameterization, observations_only
                    )
                ] = (outcome, outfile.getvalue())
        connection.close()
    return results


if __name__ == '__main__':
    _dc_harness.main(__file__, 'refactor2.diff', worker)
