"""Differential check for refactor2.diff (spowtd/specific_yield.py:
PeatclsmSpecificYield._construct_spline / get_Sy_soil, campbell_1d_az)"""

import sys

sys.path.insert(0, '/tmp/rf_D')
import diff_common  # noqa: E402

WORKER = r'''
import io
import itertools
import numpy as np
import yaml
import spowtd.specific_yield as sy_mod


def record(key, func, *args, **kwargs):
    assert key not in RESULTS, key
    RESULTS[key] = attempt(func, *args, **kwargs)


def exercise(tag, make):
    try:
        sy = make()
    except BaseException as exc:
        RESULTS[tag + '/construct'] = canon(exc)
        return
    record(tag + '/type', lambda: type(sy).__mro__[0].__name__)
    record(tag + '/knots', lambda: (sy.zeta_knots_mm, sy.sy_knots))
    record(tag + '/attrs', lambda: (sy.sd, sy.theta_s, sy.b, sy.psi_s))
    record(tag + '/tck', lambda: tuple(sy._spline._tck))
    levels = np.linspace(-1500, 1500, 301)
    record(tag + '/call_array', sy, levels)
    for i, level in enumerate([-2000.0, -1000.0, -333.3, -5.0, 0.0, 4.99, 5.0, 300, 1005.0, 5000.0]):
        record('{}/call/{}'.format(tag, i), sy, level)
    for i, (lo, hi) in enumerate([(-100.0, 50.0), (50.0, -100.0), (0.0, 0.0),
                                  (-3000.0, 3000.0), (990.0, 1200.0), (-1200, -990)]):
        record('{}/integrate/{}'.format(tag, i), sy.integrate, lo, hi)


# 1. Sample parameters, through the factory as the CLI does
with open(SAMPLE_DIR + '/peatclsm_parameters.yml') as f:
    sample = yaml.safe_load(f)['specific_yield']
exercise('sample', lambda: sy_mod.create_specific_yield_function(dict(sample)))

# 2. Other parameter sets, including degenerate ones
parameter_sets = {
    'wet': dict(sd=0.05, theta_s=0.95, b=3.0, psi_s=-0.01),
    'dry': dict(sd=0.5, theta_s=0.4, b=12.5, psi_s=-0.3),
    'int_b': dict(sd=0.162, theta_s=0.88, b=7, psi_s=-0.024),
    'np_scalars': dict(sd=np.float64(0.2), theta_s=np.float64(0.8),
                       b=np.float64(5.5), psi_s=np.float64(-0.05)),
    'float32': dict(sd=np.float32(0.2), theta_s=np.float32(0.8),
                    b=np.float32(5.5), psi_s=np.float32(-0.05)),
    'positive_psi_s': dict(sd=0.162, theta_s=0.88, b=7.4, psi_s=0.024),
    'zero_psi_s': dict(sd=0.162, theta_s=0.88, b=7.4, psi_s=0.0),
    'zero_b': dict(sd=0.162, theta_s=0.88, b=0, psi_s=-0.024),
    'zero_b_np': dict(sd=0.162, theta_s=0.88, b=np.float64(0), psi_s=-0.024),
    'negative_b': dict(sd=0.162, theta_s=0.88, b=-2.0, psi_s=-0.024),
    'zero_sd': dict(sd=0.0, theta_s=0.88, b=7.4, psi_s=-0.024),
    'negative_sd': dict(sd=-0.1, theta_s=0.88, b=7.4, psi_s=-0.024),
    'nan_theta': dict(sd=0.162, theta_s=float('nan'), b=7.4, psi_s=-0.024),
    'none_sd': dict(sd=None, theta_s=0.88, b=7.4, psi_s=-0.024),
    'str_b': dict(sd=0.162, theta_s=0.88, b='7.4', psi_s=-0.024),
    'missing': dict(sd=0.162, theta_s=0.88, b=7.4),
}
for name, pars in parameter_sets.items():
    exercise('set_' + name,
             lambda pars=pars: sy_mod.PeatclsmSpecificYield(**pars))
exercise('positional', lambda: sy_mod.PeatclsmSpecificYield(0.1, 0.9, 4.0, -0.02))

# 3. get_Sy_soil called directly on other grids (including mismatched lengths)
base = sy_mod.PeatclsmSpecificYield(sd=0.162, theta_s=0.88, b=7.4, psi_s=-0.024)
rng = np.random.default_rng(2024)


def run_get_Sy_soil(n_out, zl, zu, fill=np.nan):
    out = np.full(n_out, fill)
    try:
        ret = base.get_Sy_soil(out, zl, zu)
    except BaseException as exc:
        return ('raised', exc, out)
    return ('returned', ret, out)


grids = {
    'small': (7, np.linspace(-0.3, 0.3, 7), np.linspace(-0.25, 0.35, 7)),
    'irregular': (15, np.sort(rng.uniform(-1, 1, 15)), None),
    'one': (1, np.array([0.1]), np.array([0.2])),
    'empty': (0, np.array([]), np.array([])),
    'zero_thickness': (4, np.array([-0.2, 0.0, 0.1, 0.3]), np.array([-0.1, 0.0, 0.2, 0.4])),
    'inverted': (4, np.array([-0.1, 0.1, 0.2, 0.4]), np.array([-0.2, 0.0, 0.1, 0.3])),
    'int_grid': (3, np.array([-2, 0, 1]), np.array([-1, 1, 3])),
    'out_longer': (6, np.linspace(-0.3, 0.3, 4), np.linspace(-0.2, 0.4, 4)),
    'out_shorter': (3, np.linspace(-0.3, 0.3, 5), np.linspace(-0.2, 0.4, 5)),
    'out_empty': (0, np.linspace(-0.3, 0.3, 5), np.linspace(-0.2, 0.4, 5)),
    'zu_len1': (4, np.linspace(-0.3, 0.3, 4), np.array([0.5])),
    'zl_len1': (4, np.array([-0.5]), np.linspace(-0.3, 0.3, 4)),
    'zu_mismatch': (4, np.linspace(-0.3, 0.3, 4), np.linspace(-0.2, 0.4, 3)),
    'zu_scalar': (4, np.linspace(-0.3, 0.3, 4), 0.5),
    'zl_scalar': (4, -0.5, np.linspace(-0.3, 0.3, 4)),
    'both_0d': (1, np.array(0.1), np.array(0.2)),
    'lists': (3, [-0.1, 0.0, 0.1], [0.0, 0.1, 0.2]),
    'two_d': (2, np.array([[-0.2, 0.0], [0.1, 0.3]]), np.array([[-0.1, 0.1], [0.2, 0.4]])),
    'nan_level': (3, np.array([-0.1, np.nan, 0.1]), np.array([0.0, 0.1, 0.2])),
}
for name, (n_out, zl, zu) in grids.items():
    if zu is None:
        zu = zl + rng.uniform(0.001, 0.05, len(zl))
    record('get_Sy_soil/' + name, run_get_Sy_soil, n_out, zl, zu)
record('get_Sy_soil/int_out', lambda: run_get_Sy_soil(
    3, np.array([-0.1, 0.0, 0.1]), np.array([0.0, 0.1, 0.2]), fill=0).__getitem__(2))
record('get_Sy_soil/list_out', lambda: (lambda out: (base.get_Sy_soil(
    out, np.array([-0.1, 0.0, 0.1]), np.array([0.0, 0.1, 0.2])), out))([0.0, 0.0, 0.0]))

# 4. campbell_1d_az on a grid of scalar arguments reaching both branches
values = [-1.0, -0.24, -0.024, -0.0, 0.0, 0.01, 0.5, 2.0]
count = 0
for Fs, z_, zlu in itertools.product([0.0, 0.3, 1.0], values, values):
    for theta_s, psi_s, b in [(0.88, -0.024, 7.4), (0.5, -0.3, 2), (0.9, 0.1, 3.5),
                              (0.9, 0.0, 3.5), (0.9, -0.1, 0), (0.9, -0.1, -1.5)]:
        record('campbell/{}'.format(count), sy_mod.campbell_1d_az,
               Fs, z_, zlu, theta_s, psi_s, b, 0.162)
        count += 1
for i, args in enumerate([
        (np.float64(0.3), np.float64(0.1), np.float64(-0.2), 0.88, -0.024, 7.4, 0.162),
        (np.float64(0.3), np.float64(0.1), np.float64(0.2), 0.88, np.float64(0.0), 7.4, 0.162),
        (np.float64(0.3), np.float64(0.1), np.float64(-0.2), 0.88, -0.024, np.float64(0.0), 0.162),
        (np.array([0.1, 0.2]), np.array([0.0, 0.1]), 0.05, 0.88, -0.024, 7.4, 0.162),
        (np.array([0.1]), np.array([0.0]), 0.05, 0.88, -0.024, 7.4, 0.162),
        (0.3, 'a', 0.1, 0.88, -0.024, 7.4, 0.162),
        (None, 0.0, 0.1, 0.88, -0.024, 7.4, 0.162),
        (0.3, 0.0, 0.1, None, -0.024, 7.4, 0.162),
        (0.3, 0.0, 0.1, 0.88, None, 7.4, 0.162),
        (0.3, 0.0, -0.1, 0.88, -0.024, None, 0.162),
        (0.3, 0.0, 0.1, 0.88, -0.024, None, 0.162),
        (0.3, float('nan'), 0.1, 0.88, -0.024, 7.4, 0.162),
        (np.float32(0.3), np.float32(0.0), np.float32(-0.1), np.float32(0.88), np.float32(-0.024), np.float32(7.4), 0.162),
]):
    record('campbell/special/{}'.format(i), sy_mod.campbell_1d_az, *args)
record('campbell/keywords', sy_mod.campbell_1d_az,
       Fs=0.2, z_=0.0, zlu=-0.3, theta_s=0.9, psi_s=-0.02, b=4.0, sd=0.1)

# 5. The CLI step that reaches this code: dump specific yield
import spowtd.user_interface as ui
dump_path = os.path.join(WORKDIR, 'sy_dump.txt')
record('cli/dump/returncode', ui.main, [
    'plot', 'specific-yield', SAMPLE_DIR + '/peatclsm_parameters.yml',
    '-100', '20', '-n', '25', '--dump', dump_path])
import gc; gc.collect()
record('cli/dump/text', lambda: open(dump_path).read())
'''

if __name__ == '__main__':
    diff_common.compare(2, WORKER)
