"""Shared harness for the diff_check_K.py scripts.

For refactoring K it builds two package trees under /tmp/rf_D/_dc/K:
  old/  = `git archive HEAD spowtd`  (unmodified code)
  new/  = the same with refactorK.diff applied with patch(1)
then runs the same worker script in a fresh interpreter against each tree
(PYTHONPATH=<tree>), each worker pickles a canonical form of its results, and
the two pickles are compared for exact equality.
"""

import os
import pickle
import shutil
import subprocess
import sys

ROOT = '/tmp/rf_D'
PYTHON = '/venv/bin/python'


def canon(obj):
    """Canonical, exactly comparable form of a result (bit-exact floats)."""
    import numpy as np

    if isinstance(obj, BaseException):
        return ('exc', type(obj).__name__, str(obj))
    if isinstance(obj, np.ndarray):
        if obj.dtype == object:
            return ('ndobj', obj.shape, [canon(v) for v in obj.ravel()])
        return (
            'nd',
            obj.dtype.str,
            obj.shape,
            np.ascontiguousarray(obj).tobytes(),
        )
    if isinstance(obj, np.generic):
        return ('npscalar', obj.dtype.str, obj.tobytes())
    if isinstance(obj, bool) or obj is None:
        return ('py', repr(obj))
    if isinstance(obj, float):
        return ('float', obj.hex())
    if isinstance(obj, int):
        return ('int', obj)
    if isinstance(obj, (str, bytes)):
        return (type(obj).__name__, obj)
    if isinstance(obj, tuple):
        return ('tuple', [canon(v) for v in obj])
    if isinstance(obj, list):
        return ('list', [canon(v) for v in obj])
    if isinstance(obj, dict):
        return ('dict', [(canon(k), canon(v)) for k, v in obj.items()])
    return ('repr', type(obj).__name__, repr(obj))


def attempt(func, *args, **kwargs):
    """Call func; return its canonical result or the canonical exception."""
    import warnings

    with warnings.catch_warnings(record=True) as caught:
        warnings.simplefilter('always')
        try:
            result = canon(func(*args, **kwargs))
        except BaseException as exc:  # pylint: disable=broad-except
            result = canon(exc)
    if caught:
        # Warnings are part of the observable behaviour too
        return (
            'warned',
            result,
            [(w.category.__name__, str(w.message)) for w in caught],
        )
    return result


def build_trees(k):
    """Create old/ and new/ trees for refactoring k; return their paths"""
    base = os.path.join(ROOT, '_dc', str(k))
    shutil.rmtree(base, ignore_errors=True)
    trees = {}
    for name in ('old', 'new'):
        tree = os.path.join(base, name)
        os.makedirs(tree)
        archive = subprocess.run(
            ['git', '-C', ROOT, 'archive', 'HEAD', 'spowtd'],
            check=True,
            stdout=subprocess.PIPE,
        ).stdout
        subprocess.run(['tar', '-x', '-C', tree], input=archive, check=True)
        trees[name] = tree
    with open(os.path.join(ROOT, 'refactor{}.diff'.format(k)), 'rb') as diff:
        subprocess.run(
            ['patch', '-p1', '-s', '-d', trees['new']],
            stdin=diff,
            check=True,
        )
    return trees


def run_worker(k, worker_source, tree, label):
    """Run worker_source against tree; return the unpickled result"""
    base = os.path.join(ROOT, '_dc', str(k))
    script = os.path.join(base, 'worker.py')
    with open(script, 'wt') as script_file:
        script_file.write(worker_source)
    out_path = os.path.join(base, label + '.pickle')
    # The same paths are used for both runs so that messages that
    # mention file names compare equal
    workdir = os.path.join(base, 'work')
    shutil.rmtree(workdir, ignore_errors=True)
    os.makedirs(workdir)
    sample_dir = os.path.join(base, 'sample_data')
    if not os.path.isdir(sample_dir):
        shutil.copytree(
            os.path.join(tree, 'spowtd', 'test', 'sample_data'), sample_dir
        )
    env = dict(os.environ)
    env['PYTHONPATH'] = tree
    env['PYTHONDONTWRITEBYTECODE'] = '1'
    env['PYTHONHASHSEED'] = '0'
    env['MPLBACKEND'] = 'Agg'
    env['COLUMNS'] = '80'
    subprocess.run(
        [PYTHON, script, tree, out_path, workdir], check=True, env=env, cwd=base
    )
    with open(out_path, 'rb') as out_file:
        return pickle.load(out_file)


WORKER_PROLOGUE = '''
import os, sys, pickle
TREE, OUT_PATH, WORKDIR = sys.argv[1:4]
sys.path.append({root!r})
import spowtd
assert os.path.dirname(os.path.dirname(os.path.abspath(spowtd.__file__))) == TREE, spowtd.__file__
from diff_common import canon, attempt
SAMPLE_DIR = os.path.join(os.path.dirname(WORKDIR), 'sample_data')
RESULTS = {{}}
'''.format(
    root=ROOT
)

WORKER_EPILOGUE = '''
with open(OUT_PATH, 'wb') as out_file:
    pickle.dump(RESULTS, out_file)
'''


def compare(k, worker_body):
    """Build trees, run worker against both, compare; exit non-zero on diff"""
    trees = build_trees(k)
    source = WORKER_PROLOGUE + worker_body + WORKER_EPILOGUE
    old = run_worker(k, source, trees['old'], 'old')
    new = run_worker(k, source, trees['new'], 'new')
    assert list(old) == list(new), 'different result keys'
    assert old, 'no results'
    bad = [key for key in old if old[key] != new[key]]
    for key in bad:
        print('DIFFERENCE in', key)
        print('  old:', str(old[key])[:400])
        print('  new:', str(new[key])[:400])
    n_exc = sum(
        1
        for value in old.values()
        if isinstance(value, tuple)
        and value
        and (
            value[0] == 'exc'
            or (value[0] == 'warned' and value[1][:1] == ('exc',))
        )
    )
    print(
        'refactor{}: {} results compared ({} of them exceptions), '
        '{} differences'.format(k, len(old), n_exc, len(bad))
    )
    if bad:
        sys.exit(1)
    print('OK')
