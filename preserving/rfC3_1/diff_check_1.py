"""Differential check for refactor1.diff (spowtd/rise.py)

Runs find_rise_offsets / compute_rise_offsets on both sample data sets
and on synthetic variants (row subsets, rescaled water levels, other
thresholds and grid steps), with reference_zeta_mm None / on the grid /
off the grid / on the grid but never crossed / zeta grid missing, and
compares the resulting tables (values and storage classes), view
contents and exceptions between the original and the refactored module.

"""

import dc_common as dc


def collect():
    import numpy as np

    import spowtd.rise as rise_mod
    import spowtd.zeta_grid as zeta_grid_mod

    results = {}
    for label, classified in dc.classified_sources():
        median_zeta_mm = float(
            np.median(
                [
                    row[0]
                    for row in classified.execute(
                        'SELECT zeta_mm FROM water_level'
                    )
                ]
            )
        )
        # Zeta grid missing
        connection = dc.clone(classified)
        outcome = dc.attempt(rise_mod.find_rise_offsets, connection)
        results[(label, 'no-grid')] = dc.canon(
            (
                outcome,
                dc.dump_tables(
                    connection, ['rising_interval', 'rising_interval_zeta']
                ),
            )
        )
        connection.close()
        for grid_mm in (1.0, 2.5):
            gridded = dc.clone(classified)
            zeta_grid_mod.populate_zeta_grid(gridded, grid_mm)
            gridded.commit()
            on_grid = grid_mm * round(median_zeta_mm / grid_mm)
            references = [
                ('none', None),
                ('on-grid', on_grid),
                ('on-grid-int', int(grid_mm * 4) if grid_mm == 1.0 else -5),
                ('on-grid-npfloat', np.float64(on_grid)),
                ('off-grid', on_grid + 0.3 * grid_mm),
                ('never-crossed', grid_mm * 100000),
                ('nan', float('nan')),
            ]
            for ref_label, reference in references:
                connection = dc.clone(gridded)
                # Through the public entry point
                outcome = dc.attempt(
                    rise_mod.find_rise_offsets, connection, reference
                )
                tables = dc.dump_tables(
                    connection, ['rising_interval', 'rising_interval_zeta']
                )
                views = dc.dump_views(
                    connection, ['average_rising_depth']
                )
                results[(label, grid_mm, ref_label)] = dc.canon(
                    (outcome, tables, views)
                )
                connection.close()
            # Directly, on a cursor (the function closes the cursor)
            connection = dc.clone(gridded)
            cursor = connection.cursor()
            outcome = dc.attempt(rise_mod.compute_rise_offsets, cursor, None)
            closed = dc.attempt(cursor.execute, 'SELECT 1')
            results[(label, grid_mm, 'direct')] = dc.canon(
                (
                    outcome,
                    closed,
                    dc.dump_tables(
                        connection,
                        ['rising_interval', 'rising_interval_zeta'],
                    ),
                )
            )
            connection.close()
            gridded.close()
        classified.close()
    return results


if __name__ == '__main__':
    dc.main(1, __file__, collect)
