"""Shared harness for the diff_check_K.py scripts.

Each diff_check_K.py defines ``collect()`` returning a picklable, canonical
structure.  ``run(K, __file__)`` exports the unmodified package (git HEAD)
into two temporary directories, applies refactorK.diff to one of them, runs
``collect()`` in a fresh interpreter against each copy and asserts that the
two results are exactly equal.

"""

import io
import os
import pickle
import sqlite3
import subprocess
import sys
import tempfile

HERE = os.path.dirname(os.path.abspath(__file__))
PYTHON = '/venv/bin/python'


# ---------------------------------------------------------------- canonical


def canon(obj):
    """Return a canonical structure that compares exactly (bit-level floats)"""
    import numpy as np

    if isinstance(obj, np.ndarray):
        return ('ndarray', str(obj.dtype), obj.shape, obj.tobytes())
    if isinstance(obj, np.generic):
        return ('npscalar', str(obj.dtype), obj.tobytes())
    if isinstance(obj, bool) or obj is None:
        return obj
    if isinstance(obj, float):
        return ('float', obj.hex())
    if isinstance(obj, (int, str, bytes)):
        return (type(obj).__name__, obj)
    if isinstance(obj, (list, tuple)):
        return (type(obj).__name__, [canon(o) for o in obj])
    if isinstance(obj, dict):
        return ('dict', [(canon(k), canon(v)) for k, v in obj.items()])
    if isinstance(obj, BaseException):
        return ('exception', type(obj).__name__, str(obj))
    raise TypeError(type(obj))


def attempt(func, *args, **kwargs):
    """Call func; return ('ok', result) or ('raised', exception)"""
    try:
        return ('ok', func(*args, **kwargs))
    except BaseException as exc:  # pylint: disable=broad-except
        return ('raised', exc)


def dump_tables(connection, tables):
    """Dump tables (rowid order) with the storage class of every value"""
    out = {}
    for table in tables:
        cursor = connection.cursor()
        cursor.execute('SELECT * FROM {} ORDER BY rowid'.format(table))
        names = [d[0] for d in cursor.description]
        rows = cursor.fetchall()
        cursor.execute(
            'SELECT {} FROM {} ORDER BY rowid'.format(
                ', '.join('typeof({})'.format(n) for n in names), table
            )
        )
        out[table] = (names, rows, cursor.fetchall())
        cursor.close()
    return out


def dump_views(connection, views):
    """Dump views in their natural order"""
    out = {}
    for view in views:
        out[view] = connection.execute(
            'SELECT * FROM {}'.format(view)
        ).fetchall()
    return out


# ------------------------------------------------------------- data sources


def sample_text(kind, sample):
    """Return the text of a sample data file"""
    import spowtd.test.conftest as conftest

    with open(
        conftest.get_sample_file_path(kind, sample),
        'rt',
        encoding='utf-8-sig',
    ) as handle:
        return handle.read()


def transform_water_level(text, scale=1.0, shift=0.0, first=None, last=None):
    """Return water-level text with rows [first:last] and scaled levels"""
    lines = text.splitlines()
    header, body = lines[0], lines[1:]
    body = body[first:last]
    out = [header]
    for line in body:
        stamp, value = line.split(',')
        out.append('{},{!r}'.format(stamp, float(value) * scale + shift))
    return '\n'.join(out) + '\n'


def load_connection(precip_text, et_text, zeta_text):
    """Load data into a fresh in-memory database"""
    import spowtd.load as load_mod

    connection = sqlite3.connect(':memory:')
    load_mod.load_data(
        connection=connection,
        precipitation_data_file=io.StringIO(precip_text),
        evapotranspiration_data_file=io.StringIO(et_text),
        water_level_data_file=io.StringIO(zeta_text),
        time_zone_name='Africa/Lagos',
    )
    return connection


def clone(connection):
    """Return an independent in-memory copy of a database"""
    copy = sqlite3.connect(':memory:')
    connection.backup(copy)
    copy.execute('PRAGMA foreign_keys = 1')
    return copy


def classified_sources():
    """Yield (label, classified connection without zeta grid)

    Two sample data sets plus synthetic variants (subset of the rows,
    rescaled and shifted water levels, other classification thresholds).

    """
    import spowtd.classify as classify_mod

    variants = [
        ('sample1', 1, {}, 8.0, 5.0),
        ('sample2', 2, {}, 8.0, 5.0),
        (
            'synthetic1-scaled-subset',
            1,
            dict(scale=0.5, shift=12.25, first=2000, last=16000),
            6.0,
            4.0,
        ),
        (
            'synthetic2-stretched-subset',
            2,
            dict(scale=1.75, shift=-40.5, first=5000, last=24000),
            10.0,
            3.0,
        ),
    ]
    for label, sample, transform, storm_threshold, jump_threshold in variants:
        zeta_text = sample_text('water_level', sample)
        if transform:
            zeta_text = transform_water_level(zeta_text, **transform)
        connection = load_connection(
            sample_text('precipitation', sample),
            sample_text('evapotranspiration', sample),
            zeta_text,
        )
        classify_mod.classify_intervals(
            connection,
            storm_rain_threshold_mm_h=storm_threshold,
            rising_jump_threshold_mm_h=jump_threshold,
        )
        yield label, connection


# ------------------------------------------------------------------ harness


def _export(target, patch=None):
    archive = subprocess.run(
        ['git', '-C', HERE, 'archive', 'HEAD', 'spowtd'],
        check=True,
        stdout=subprocess.PIPE,
    ).stdout
    subprocess.run(['tar', '-x', '-C', target], input=archive, check=True)
    if patch is not None:
        with open(patch, 'rb') as handle:
            subprocess.run(
                ['patch', '-p1', '-s', '-d', target],
                stdin=handle,
                check=True,
            )


def run(number, script):
    """Compare collect() of `script` on the original and the refactored code"""
    patch = os.path.join(HERE, 'refactor{}.diff'.format(number))
    assert os.path.getsize(patch) > 0, patch
    with tempfile.TemporaryDirectory(dir=HERE, prefix='_dc_') as tmp:
        results = []
        for name, use_patch in (('orig', None), ('new', patch)):
            root = os.path.join(tmp, name)
            os.mkdir(root)
            _export(root, use_patch)
            out = os.path.join(tmp, name + '.pkl')
            env = dict(os.environ)
            env['PYTHONPATH'] = root + os.pathsep + HERE
            env['PYTHONDONTWRITEBYTECODE'] = '1'
            subprocess.run(
                [PYTHON, os.path.abspath(script), '--collect', out, root],
                check=True,
                env=env,
                cwd=root,
            )
            with open(out, 'rb') as handle:
                results.append(pickle.load(handle))
        # The two trees must really differ in the module under test
        differs = subprocess.run(
            [
                'diff',
                '-rq',
                os.path.join(tmp, 'orig', 'spowtd'),
                os.path.join(tmp, 'new', 'spowtd'),
            ],
            stdout=subprocess.PIPE,
            check=False,
        )
        assert differs.returncode == 1, 'patch did not change anything'
    orig, new = results
    assert orig.keys() == new.keys(), (sorted(orig), sorted(new))
    for key in orig:
        assert orig[key] == new[key], 'MISMATCH in case {!r}'.format(key)
    print(
        'diff_check_{}: {} cases identical: OK'.format(number, len(orig))
    )


def main(number, script, collect):
    """Entry point used by the diff_check_K.py scripts"""
    if len(sys.argv) >= 4 and sys.argv[1] == '--collect':
        root = os.path.realpath(sys.argv[3])
        # The script directory (the worktree) comes first on sys.path;
        # make sure the exported copy of the package wins.
        sys.path.insert(0, root)
        import spowtd

        assert os.path.realpath(spowtd.__file__).startswith(root), (
            spowtd.__file__,
            root,
        )
        result = collect()
        with open(sys.argv[2], 'wb') as handle:
            pickle.dump(result, handle)
    else:
        run(number, script)
