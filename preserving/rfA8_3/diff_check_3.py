"""Differential check for refactor3.diff (get_mystery_jump_mask: vectorised state scan)

Run: cd /tmp/rf_A && PYTHONPATH=/tmp/rf_A /venv/bin/python diff_check_3.py
"""

import itertools
import random

import numpy as np

from dc_common import (
    FakeCursor,
    dump,
    load_variants,
    loaded_sample_db,
    outcome,
    same,
)

orig, new = load_variants(3)


def both(is_jump, is_raining, what):
    def copy(x):
        return x.copy() if isinstance(x, np.ndarray) else list(x)

    jump_a, rain_a = copy(is_jump), copy(is_raining)
    jump_b, rain_b = copy(is_jump), copy(is_raining)
    a = outcome(orig.get_mystery_jump_mask, jump_a, rain_a)
    b = outcome(new.get_mystery_jump_mask, jump_b, rain_b)
    same(a, b, what)
    # inputs are caller-owned: neither variant may modify them
    same((jump_a, rain_a), (is_jump, is_raining), what + " (inputs, orig)")
    same((jump_b, rain_b), (is_jump, is_raining), what + " (inputs, new)")
    return a


# --- exhaustive: every pair of boolean vectors of length 0..7
n_exhaustive = 0
for n in range(8):
    for jump in itertools.product((False, True), repeat=n):
        for rain in itertools.product((False, True), repeat=n):
            result = both(
                np.array(jump, dtype=bool), np.array(rain, dtype=bool), "exhaustive"
            )
            assert result[0] == "ok"
            n_exhaustive += 1

# --- random, longer; different densities so that long carried-forward runs occur
rng = np.random.default_rng(3)
n_random = 0
for trial in range(4000):
    n = int(rng.choice([1, 2, 9, 10, 31, 64, 257, 1000]))
    p_jump = rng.choice([0.0, 0.01, 0.2, 0.9, 1.0])
    p_rain = rng.choice([0.0, 0.01, 0.2, 0.9, 1.0])
    jump = rng.random(n) < p_jump
    rain = rng.random(n) < p_rain
    both(jump, rain, "random bool")
    n_random += 1
    kind = trial % 5
    if kind == 0:  # integer dtype flags, as np.array() makes from SQLite 0/1
        both(jump.astype(np.int64), rain.astype(np.int64), "int64 flags")
    elif kind == 1:  # mixed
        both(jump, rain.astype(np.int64), "bool jump, int rain")
        both(jump.astype(np.int8), rain, "int8 jump, bool rain")
    elif kind == 2:  # values other than 0/1; floats with NaN (truthy)
        both(jump * 2, rain * 3, "0/2 and 0/3 flags")
        both(
            np.where(jump, np.nan, 0.0),
            rain,
            "float jump flags with NaN",
        )
    elif kind == 3:  # object arrays with None (falsy)
        both(
            np.array([True if j else None for j in jump], dtype=object),
            np.array([1 if r else None for r in rain], dtype=object),
            "object flags",
        )
    elif kind == 4 and n < 100:  # plain lists: both fail the same way in the checks
        both(jump.tolist(), rain.tolist(), "lists")
        both(jump.tolist(), rain, "list jump, array rain")
        both(jump, rain.tolist(), "array jump, list rain")

# --- lengths that differ; empty inputs of several kinds
pyrng = random.Random(3)
for _ in range(200):
    n, m = pyrng.randrange(6), pyrng.randrange(6)
    both(np.zeros(n, bool), np.ones(m, bool), "length {} vs {}".format(n, m))
both(np.zeros(0, bool), np.zeros(0, bool), "empty bool")
both(np.zeros(0), np.zeros(0), "empty float")
both([], [], "empty lists")
both(np.zeros(0, np.int64), np.zeros(0, bool), "empty int/bool")

# --- result is a fresh boolean array in both variants
for module in (orig, new):
    jump = np.array([False, True, False, False, True])
    rain = np.array([False, False, False, True, True])
    mask = module.get_mystery_jump_mask(jump, rain)
    assert mask.dtype == bool and mask.flags.owndata and mask.flags.writeable
    assert mask.tolist() == [True, True, True, False, False]

# --- through classify_interstorms / classify_intervals
n_db = 0
for sample in (1, 2):
    results = []
    for module in (orig, new):
        connection = loaded_sample_db(sample)
        result = outcome(module.classify_intervals, connection, 8.0, 5.0)
        results.append((result, dump(connection)))
        connection.close()
    assert results[0][0][0] == "ok"
    same(results[0], results[1], "classify sample {}".format(sample))
    n_db += 1
for trial in range(500):
    n = pyrng.choice([2, 3, 4, 7, 20, 60])
    level = 0.0
    rows = []
    for i in range(n):
        level += pyrng.choice([-0.3, 0.0, 0.1, 2.0, 4.0, 9.7])
        rows.append((1800 * i, level, pyrng.choice([0, 0, 0, 1, None])))
    runs = []
    for module in (orig, new):
        cursor = FakeCursor(rows)
        runs.append((outcome(module.classify_interstorms, cursor, 0, 5.0), cursor.calls))
    same(runs[0], runs[1], "fake cursor {}".format(trial))

print(
    "diff_check_3 OK: {} exhaustive pairs, {} random cases (+dtype variants), "
    "{} sample databases".format(n_exhaustive, n_random, n_db)
)
