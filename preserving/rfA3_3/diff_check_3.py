"""Differential check for refactor3.diff (find_stable_matching)

Loads spowtd/classify.py twice -- the committed version and the committed
version with refactor3.diff applied -- and asserts exactly equal results.
"""

import importlib.util
import os
import sqlite3
import subprocess
import sys
import tempfile
import types

import numpy as np

ROOT = os.path.dirname(os.path.abspath(__file__))
PATCH = os.path.join(ROOT, "refactor3.diff")
sys.path.insert(0, ROOT)


def load_variants():
    """Return (original module, refactored module)"""
    tmp = tempfile.mkdtemp(prefix="rfA_dc_")
    source = subprocess.check_output(
        ["git", "-C", ROOT, "show", "HEAD:spowtd/classify.py"]
    )
    mods = []
    for name in ("orig", "new"):
        pkg = os.path.join(tmp, name, "spowtd")
        os.makedirs(pkg)
        path = os.path.join(pkg, "classify.py")
        with open(path, "wb") as f:
            f.write(source)
        if name == "new":
            subprocess.check_call(["git", "apply", PATCH], cwd=os.path.join(tmp, name))
            with open(path, "rb") as f:
                assert f.read() != source, "patch changed nothing"
        spec = importlib.util.spec_from_file_location("classify_" + name, path)
        mod = importlib.util.module_from_spec(spec)
        spec.loader.exec_module(mod)
        mods.append(mod)
    return mods


def canon(value):
    """Type-strict canonical form"""
    if isinstance(value, np.ndarray):
        return ("ndarray", str(value.dtype), value.shape, value.tobytes())
    if isinstance(value, (list, tuple)):
        return (type(value).__name__, [canon(v) for v in value])
    if isinstance(value, dict):
        return ("dict", [(canon(k), canon(v)) for k, v in value.items()])
    if isinstance(value, types.GeneratorType):
        return ("generator", [canon(v) for v in value])
    return (type(value).__name__, repr(value))


def run(func, *args):
    """Result or exception of func(*args), canonical"""
    try:
        return ("ok", canon(func(*args)))
    except BaseException as exc:  # pylint: disable=broad-except
        return ("raise", type(exc).__name__, str(exc))


def dump_db(connection):
    """All rows (with storage classes) of the tables classify writes"""
    out = {}
    for table in (
        "thresholds",
        "grid_time_flags",
        "zeta_interval",
        "storm",
        "zeta_interval_storm",
    ):
        cursor = connection.execute(f"SELECT * FROM {table} ORDER BY rowid")
        cols = [d[0] for d in cursor.description]
        rows = cursor.fetchall()
        types_ = connection.execute(
            "SELECT {} FROM {} ORDER BY rowid".format(
                ", ".join(f"typeof({c})" for c in cols), table
            )
        ).fetchall()
        out[table] = (cols, rows, types_)
    return out


def classify_sample(mod, sample, storm_thr, jump_thr):
    """Load sample data and classify with mod; return DB dump or exception"""
    import spowtd.load as load_mod

    data_dir = os.path.join(ROOT, "spowtd", "test", "sample_data")
    connection = sqlite3.connect(":memory:")
    files = [
        open(os.path.join(data_dir, f"{kind}_{sample}.txt"), "rt", encoding="utf-8-sig")
        for kind in ("precipitation", "evapotranspiration", "water_level")
    ]
    try:
        load_mod.load_data(
            connection=connection,
            precipitation_data_file=files[0],
            evapotranspiration_data_file=files[1],
            water_level_data_file=files[2],
            time_zone_name="Africa/Lagos",
        )
    finally:
        for f in files:
            f.close()
    try:
        mod.classify_intervals(connection, storm_thr, jump_thr)
        return ("ok", dump_db(connection))
    except BaseException as exc:  # pylint: disable=broad-except
        return ("raise", type(exc).__name__, str(exc), dump_db(connection))


import copy


def random_problem(rng, n_storms, n_jumps, density, numpy_keys, ties):
    """Random many-to-many candidate relation, as built by disambiguate_matching"""
    make = np.int64 if numpy_keys else int
    storms = [make(v) for v in sorted(rng.choice(1000, n_storms, replace=False))]
    jumps = [make(v) for v in sorted(rng.choice(1000, n_jumps, replace=False))]
    storm_candidates = {}
    jump_preferences = {}
    for storm in storms:
        candidates = [j for j in jumps if rng.random() < density]
        rng.shuffle(candidates)
        storm_candidates[storm] = candidates
        for jump in candidates:
            quality = -abs(jump - storm)
            if ties:
                quality = make(int(quality) // 200)
            jump_preferences.setdefault(jump, {})[storm] = quality
    return storm_candidates, jump_preferences


def main():
    orig, new = load_variants()
    n_cases = 0
    n_contested = 0
    rng = np.random.default_rng(20240929)

    def compare(storm_candidates, jump_preferences):
        nonlocal n_cases
        args_o = copy.deepcopy((storm_candidates, jump_preferences))
        args_n = copy.deepcopy((storm_candidates, jump_preferences))
        res_o = run(orig.find_stable_matching, *args_o)
        res_n = run(new.find_stable_matching, *args_n)
        assert res_o == res_n, (storm_candidates, jump_preferences, res_o, res_n)
        # the candidate lists are consumed identically
        assert canon(args_o) == canon(args_n)
        n_cases += 1
        return res_o

    for trial in range(3000):
        n_storms = int(rng.integers(0, 12))
        n_jumps = int(rng.integers(1, 12))
        problem = random_problem(
            rng, n_storms, n_jumps, rng.choice([0.15, 0.4, 0.8, 1.0]),
            numpy_keys=bool(trial % 2), ties=bool(trial % 3 == 0),
        )
        res = compare(*problem)
        assert res[0] == "ok", res
        n_matches = len(res[1][1])
        n_contested += n_matches < sum(1 for c in problem[0].values() if c)
        # bad input: preferences missing for one jump / one storm
        if problem[1]:
            broken = copy.deepcopy(problem[1])
            del broken[list(broken)[0]]
            compare(problem[0], broken)
            broken = copy.deepcopy(problem[1])
            first = list(broken)[0]
            del broken[first][list(broken[first])[0]]
            compare(problem[0], broken)
            compare(problem[0], {})
        # tuples cannot be popped
        compare({k: tuple(v) for k, v in problem[0].items()}, problem[1])
    assert n_contested > 500, n_contested
    compare({}, {})
    compare({1: []}, {})
    compare({1: [5], 2: [5], 3: [5]}, {5: {1: -1, 2: -1, 3: -1}})
    compare({1: [5, 6], 2: [6, 5]}, {5: {1: 0, 2: 1}, 6: {1: 1, 2: 0}})
    compare({(1, 2): [5]}, {5: {(1, 2): 0}})

    # Callers: disambiguate_matching and match_storms with ambiguous matches
    for _ in range(500):
        n = int(rng.integers(1, 15))
        rain_starts = rng.integers(0, 30, n)
        jump_starts = rng.integers(0, 30, n)
        rain_stop_of = {s: s + int(rng.integers(1, 8)) for s in set(rain_starts.tolist())}
        jump_stop_of = {s: s + int(rng.integers(2, 8)) for s in set(jump_starts.tolist())}
        rain_intervals = [(np.int64(s), np.int64(rain_stop_of[int(s)])) for s in rain_starts]
        jump_intervals = [(np.int64(s), np.int64(jump_stop_of[int(s)])) for s in jump_starts]
        res_o = run(orig.disambiguate_matching, list(rain_intervals), list(jump_intervals))
        res_n = run(new.disambiguate_matching, list(rain_intervals), list(jump_intervals))
        assert res_o == res_n and res_o[0] == "ok", (rain_intervals, jump_intervals, res_o, res_n)
        n_cases += 1
    n_ambiguous = 0
    for _ in range(400):
        n = int(rng.integers(2, 80))
        # on/off rain with long, interrupted rises gives many-to-many overlaps
        rain = np.where(rng.random(n) < 0.6, 5.0 + rng.random(n) * 10, 0.0)
        head = np.cumsum(np.where(rng.random(n) < 0.8, 4.0, -1.0) + rng.normal(0, 0.2, n))
        res_o = run(orig.match_storms, rain.copy(), head.copy(), 4.0, 3.0)
        res_n = run(new.match_storms, rain.copy(), head.copy(), 4.0, 3.0)
        assert res_o == res_n and res_o[0] == "ok", (rain, head, res_o, res_n)
        n_cases += 1
    for sample in (1, 2):
        for thresholds in ((8.0, 5.0), (4.0, 8.0), (2.0, 2.0), (0.5, 0.5)):
            res_o = classify_sample(orig, sample, *thresholds)
            res_n = classify_sample(new, sample, *thresholds)
            assert res_o == res_n, (sample, thresholds)
            print(
                "sample", sample, thresholds, res_o[0],
                {k: len(v[1]) for k, v in res_o[-1].items()},
            )
            n_cases += 1
    print(
        f"diff_check_3: OK ({n_cases} cases identical; "
        f"{n_contested} random problems with contested jumps)"
    )


if __name__ == "__main__":
    main()
