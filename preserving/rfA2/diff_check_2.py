"""Differential check for refactor2.diff (match_storms)"""
import numpy as np

from diff_common import (
    call, check_classify, freeze, load_variants, loaded_sample_db, same,
    synthetic_series,
)

orig, new = load_variants(2)


def compare(label, *args):
    a = freeze(call(orig.match_storms, *args))
    b = freeze(call(new.match_storms, *args))
    same(label, a, b)
    return a


# 1. sample data, per data interval, at two threshold pairs
n_matches = 0
for sample in (1, 2):
    conn = loaded_sample_db(sample)
    for (interval,) in conn.execute(
        "SELECT DISTINCT data_interval FROM grid_time "
        "WHERE data_interval IS NOT NULL ORDER BY data_interval"
    ).fetchall():
        rows = conn.execute(
            """SELECT zeta_mm, rainfall_intensity_mm_h
               FROM grid_time JOIN rainfall_intensity
                 ON from_epoch = grid_time.epoch AND data_interval = ?
               JOIN water_level ON from_epoch = water_level.epoch
               ORDER BY from_epoch""", (interval,)).fetchall()
        head = np.array([r[0] for r in rows])
        rain = np.array([r[1] for r in rows])
        for rain_thr, jump_thr in ((8.0, 2.5), (4.0, 4.0), (0.0, 0.0), (1.0, 0.5)):
            res = compare("sample{}/{}".format(sample, interval),
                          rain, head, rain_thr, jump_thr)
            assert res[1][0][1] == "ok"
            n_matches += len(res[1][1][1][0][1])
print("sample data: identical, {} matches in total".format(n_matches))

# 2. synthetic series, many-to-many overlaps included
rng = np.random.default_rng(2)
n_ok = n_exc = n_matches = 0
for trial in range(1500):
    n = int(rng.integers(1, 150))
    rain, head = synthetic_series(rng, n, p_rain=rng.random() * 0.5,
                                  p_jump=rng.random())
    if trial % 3 == 0:
        # alternate rain on/off under one long rise and vice versa
        rain = np.where(rng.random(n) < 0.5, 10.0, 0.0)
        head = np.cumsum(np.where(rng.random(n) < 0.7, 10.0, -1.0))
    res = compare("synthetic{}".format(trial), rain, head, 4.0, 4.0)
    if res[1][0][1] == "ok":
        n_ok += 1
        n_matches += len(res[1][1][1][0][1])
    else:
        n_exc += 1
print("synthetic: {} ok / {} raising, {} matches, all identical".format(
    n_ok, n_exc, n_matches))

# 3. degenerate and bad inputs
compare("empty", np.array([]), np.array([]), 4.0, 4.0)
compare("single", np.array([9.0]), np.array([1.0]), 4.0, 4.0)
compare("rain shorter", np.array([9.0, 9.0]), np.array([1.0, 9.0, 20.0]), 4.0, 4.0)
compare("rain longer", np.array([9.0] * 5), np.array([1.0, 9.0, 20.0]), 4.0, 4.0)
compare("lists", [9.0, 0.0], [1.0, 9.0], 4.0, 4.0)
compare("int arrays", np.array([9, 0, 9, 9]), np.array([1, 9, 9, 30]), 4, 4)
compare("rain in last step only", np.array([0.0, 0.0, 9.0]),
        np.array([1.0, 9.0, 20.0]), 4.0, 4.0)
compare("nan", np.array([9.0, np.nan, 9.0]), np.array([1.0, np.nan, 20.0]), 4.0, 4.0)
print("degenerate inputs identical")

check_classify(orig, new)
print("diff_check_2 OK")
