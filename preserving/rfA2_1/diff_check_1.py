"""Differential check for refactor1.diff (classify_intervals / get_data_intervals /
populate_zeta_interval)"""
import sqlite3

import diff_common as dc

orig, new = dc.load_variants(1)
print("end-to-end classify_intervals:")
dc.standard_db_checks(orig, new)

# The extracted query on its own: DISTINCT vs GROUP BY, same rows, same order
print("data interval query:")
for seed, gap in ((5, True), (6, False), (7, True)):
    base = dc.synthetic_db(seed, gap=gap)
    expected = [
        row[0]
        for row in base.execute(
            """
    SELECT DISTINCT data_interval
    FROM grid_time
    WHERE data_interval IS NOT NULL
    ORDER BY data_interval"""
        )
    ]
    got = new.get_data_intervals(base.cursor())
    assert dc.canon(got) == dc.canon(expected), (got, expected)
    print("  seed", seed, got)
# Shuffled / many labels, inserted out of order
connection = sqlite3.connect(":memory:")
connection.execute("CREATE TABLE grid_time (epoch integer PRIMARY KEY, data_interval integer NULL)")
connection.executemany(
    "INSERT INTO grid_time VALUES (?, ?)",
    [(i, (None, 7, 3, 3, 11, 1, None, 7)[i % 8]) for i in range(200)],
)
assert new.get_data_intervals(connection.cursor()) == [1, 3, 7, 11]

# populate_zeta_interval directly, positional call as before
print("populate_zeta_interval:")
for seed in (8, 9):
    base = dc.synthetic_db(seed)
    dumps = []
    for module in (orig, new):
        connection = dc.clone(base)
        cursor = connection.cursor()
        outcomes = [
            dc.run(module.populate_zeta_interval, cursor, interval, 8.0, 5.0)
            for interval in (1, 2, 3)  # 3 does not exist
        ]
        dumps.append((outcomes, dc.dump(connection)))
    assert dumps[0] == dumps[1]
    print("  seed", seed, [o[0][0] for o in dumps[0][0]])
dc.cleanup()
print("diff_check_1 OK")
