"""Shared helpers for the differential checks diff_check_K.py (group A)

Loads two copies of spowtd/classify.py -- the one at git HEAD and HEAD with
refactorK.diff applied -- as independent modules, and provides database
builders (sample data, synthetic data) and an exact database dump.
"""

import importlib.util
import io
import logging
import os
import random
import shutil
import sqlite3
import subprocess
import sys
import tempfile

import numpy as np

ROOT = "/tmp/rf_A"
sys.path.insert(0, ROOT)

import spowtd.load as load_mod  # noqa: E402  pylint: disable=wrong-import-position

SAMPLE_DIR = os.path.join(ROOT, "spowtd", "test", "sample_data")
# A full copy of the HEAD package, so that schema.sql and load.py are the
# original ones regardless of the state of the worktree.
_TMP = tempfile.mkdtemp(prefix="rfA_check_")


def _import(path, name):
    spec = importlib.util.spec_from_file_location(name, path)
    module = importlib.util.module_from_spec(spec)
    spec.loader.exec_module(module)
    return module


def load_variants(k):
    """Return (original classify module, refactored classify module)"""
    orig_src = subprocess.check_output(
        ["git", "-C", ROOT, "show", "HEAD:spowtd/classify.py"]
    )
    paths = {}
    for variant in ("orig", "new"):
        directory = os.path.join(_TMP, f"{variant}{k}", "spowtd")
        os.makedirs(directory)
        paths[variant] = os.path.join(directory, "classify.py")
        with open(paths[variant], "wb") as f:
            f.write(orig_src)
    subprocess.check_call(
        ["patch", "-s", "-p1", "-i", os.path.join(ROOT, f"refactor{k}.diff")],
        cwd=os.path.join(_TMP, f"new{k}"),
    )
    with open(paths["new"], "rb") as f:
        assert f.read() != orig_src, "patch did not change classify.py"
    return (
        _import(paths["orig"], f"classify_orig_{k}"),
        _import(paths["new"], f"classify_new_{k}"),
    )


def cleanup():
    shutil.rmtree(_TMP, ignore_errors=True)


# ---------------------------------------------------------------- databases


def sample_db(sample):
    """In-memory database with sample data set `sample` loaded"""
    connection = sqlite3.connect(":memory:")
    files = [
        open(
            os.path.join(SAMPLE_DIR, f"{kind}_{sample}.txt"),
            "rt",
            encoding="utf-8-sig",
        )
        for kind in ("precipitation", "evapotranspiration", "water_level")
    ]
    try:
        load_mod.load_data(connection, files[0], files[1], files[2], "Africa/Lagos")
    finally:
        for f in files:
            f.close()
    return connection


def _fmt(epoch_s):
    import datetime

    return (
        datetime.datetime(2013, 1, 1) + datetime.timedelta(seconds=epoch_s)
    ).strftime("%Y-%m-%d %H:%M:%S")


def synthetic_series(seed, n_steps=400, gap=True):
    """Random rain / water-level series on a 30-minute grid

    Contains heavy-rain storms with matching rises, split storms (one rise
    overlapping two storms), split rises (one storm overlapping two rises),
    rises without rain ("mystery jumps") and, optionally, a gap in the water
    level record so that two data intervals exist.  Returns
    (rain, head, head_times_s, step_s).
    """
    rng = random.Random(seed)
    step = 1800
    rain = [0.0] * n_steps
    head = [0.0] * (n_steps + 1)
    level = -200.0
    i = 0
    increments = [0.0] * n_steps
    while i < n_steps:
        kind = rng.choice(
            ["dry"] * 6 + ["storm", "storm", "split_storm", "split_rise", "mystery", "drizzle"]
        )
        length = rng.randint(1, 5)
        if kind == "dry":
            for j in range(i, min(n_steps, i + length * 3)):
                increments[j] = -rng.random() * 0.4
            i += length * 3
        elif kind == "drizzle":
            for j in range(i, min(n_steps, i + length)):
                rain[j] = rng.random() * 3.0
                increments[j] = rng.random() * 1.0
            i += length
        elif kind == "storm":
            shift = rng.choice([0, 0, 1, -1])
            for j in range(i, min(n_steps, i + length)):
                rain[j] = 10.0 + rng.random() * 30.0
                jj = j + shift
                if 0 <= jj < n_steps:
                    increments[jj] = 5.0 + rng.random() * 20.0
            i += length + 1
        elif kind == "split_storm":
            # rain, one step below threshold, rain; head rises throughout
            for j in range(i, min(n_steps, i + 2 * length + 1)):
                rain[j] = 10.0 + rng.random() * 30.0
                increments[j] = 5.0 + rng.random() * 20.0
            if i + length < n_steps:
                rain[i + length] = 1.0 + rng.random() * 3.0
            i += 2 * length + 2
        elif kind == "split_rise":
            # rain throughout; rise, one step flat, rise
            for j in range(i, min(n_steps, i + 2 * length + 1)):
                rain[j] = 10.0 + rng.random() * 30.0
                increments[j] = 5.0 + rng.random() * 20.0
            if i + length < n_steps:
                increments[i + length] = rng.random() * 0.5
            i += 2 * length + 2
        else:  # mystery
            for j in range(i, min(n_steps, i + length)):
                increments[j] = 5.0 + rng.random() * 20.0
            i += length + 1
    head[0] = level
    for j in range(n_steps):
        level += increments[j]
        head[j + 1] = level
    times = [j * step for j in range(n_steps + 1)]
    if gap:
        lo = n_steps // 2
        hi = lo + rng.randint(5, 30)
        keep = [j for j in range(n_steps + 1) if not lo < j < hi]
        head = [head[j] for j in keep]
        times = [times[j] for j in keep]
    return rain, head, times, step


def synthetic_db(seed, n_steps=400, gap=True):
    """In-memory database loaded from synthetic_series(seed)"""
    rain, head, times, step = synthetic_series(seed, n_steps, gap)
    precip = io.StringIO(
        "datetime,precipitation rate (mm/h)\n"
        + "".join(f"{_fmt(j * step)},{value!r}\n" for j, value in enumerate(rain))
        + f"{_fmt(len(rain) * step)},0.0\n"
    )
    et = io.StringIO(
        "datetime,evapotranspiration (mm/h)\n"
        + "".join(f"{_fmt(j * step)},0.01\n" for j in range(len(rain) + 2))
    )
    zeta = io.StringIO(
        "datetime,wtd (mm)\n"
        + "".join(f"{_fmt(t)},{value!r}\n" for t, value in zip(times, head))
    )
    connection = sqlite3.connect(":memory:")
    load_mod.load_data(connection, precip, et, zeta, "UTC")
    return connection


def clone(connection):
    """Independent in-memory copy of a database"""
    connection.commit()
    copy = sqlite3.connect(":memory:")
    connection.backup(copy)
    copy.execute("PRAGMA foreign_keys = 1")
    return copy


def dump(connection):
    """Exact textual dump of all tables, in insertion (rowid) order"""
    cursor = connection.cursor()
    tables = [
        row[0]
        for row in cursor.execute(
            "SELECT name FROM sqlite_master WHERE type = 'table' ORDER BY name"
        )
    ]
    return {
        table: [
            repr(row)
            for row in cursor.execute(f"SELECT rowid, * FROM {table} ORDER BY rowid")
        ]
        for table in tables
    }


# ------------------------------------------------------------------ running


class _Capture(logging.Handler):
    def __init__(self):
        super().__init__(level=logging.DEBUG)
        self.records = []

    def emit(self, record):
        self.records.append((record.name, record.levelname, record.getMessage()))


def canon(value):
    """Canonical, type-revealing representation of a result"""
    if isinstance(value, np.ndarray):
        return ("ndarray", str(value.dtype), value.shape, value.tobytes())
    if isinstance(value, (list, tuple)):
        return (type(value).__name__, [canon(v) for v in value])
    if isinstance(value, dict):
        return ("dict", [(canon(k), canon(v)) for k, v in value.items()])
    if isinstance(value, (set, frozenset)):
        return (type(value).__name__, sorted(repr(canon(v)) for v in value))
    return (type(value).__name__, repr(value))


def run(function, *args, **kwargs):
    """Run function; return (outcome, log records)

    outcome is ('ok', canonical result) or ('raise', type name, message).
    """
    logger = logging.getLogger("spowtd.classify")
    handler = _Capture()
    old_level = logger.level
    logger.setLevel(logging.DEBUG)
    logger.addHandler(handler)
    try:
        try:
            result = function(*args, **kwargs)
            if hasattr(result, "__next__"):
                result = list(result)
            outcome = ("ok", canon(result))
        except Exception as exc:  # pylint: disable=broad-except
            outcome = ("raise", type(exc).__name__, str(exc))
    finally:
        logger.removeHandler(handler)
        logger.setLevel(old_level)
    return outcome, handler.records


def classify_both(orig, new, base, label, **thresholds):
    """classify_intervals with both variants on copies of base; compare all"""
    results = []
    for module in (orig, new):
        connection = clone(base)
        outcome, logs = run(module.classify_intervals, connection, **thresholds)
        results.append((outcome, logs, dump(connection)))
        connection.close()
    assert results[0][0] == results[1][0], (label, results[0][0], results[1][0])
    assert results[0][1] == results[1][1], (label, "log records differ")
    for table in results[0][2]:
        assert results[0][2][table] == results[1][2][table], (label, table)
    assert results[0][2].keys() == results[1][2].keys()
    summary = {t: len(r) for t, r in results[0][2].items() if t in (
        "storm", "zeta_interval", "zeta_interval_storm", "grid_time_flags")}
    print(f"  {label}: {results[0][0][0]} {results[0][0][1:] if results[0][0][0] == 'raise' else ''} {summary}")
    return results[0]


def standard_db_checks(orig, new, seeds=range(12)):
    """End-to-end classify_intervals comparison on sample and synthetic data"""
    for sample in (1, 2):
        base = sample_db(sample)
        classify_both(
            orig, new, base, f"sample {sample} (8, 5)",
            storm_rain_threshold_mm_h=8.0, rising_jump_threshold_mm_h=5.0,
        )
        classify_both(orig, new, base, f"sample {sample} (defaults)")
        base.close()
    for seed in seeds:
        base = synthetic_db(seed, gap=seed % 3 != 0)
        classify_both(
            orig, new, base, f"synthetic {seed} (8, 5)",
            storm_rain_threshold_mm_h=8.0, rising_jump_threshold_mm_h=5.0,
        )
        classify_both(
            orig, new, base, f"synthetic {seed} (4, 2)",
            storm_rain_threshold_mm_h=4.0, rising_jump_threshold_mm_h=2.0,
        )
        base.close()
    # Bad input: database with no valid data interval
    base = synthetic_db(0, n_steps=60, gap=False)
    base.execute("PRAGMA foreign_keys = 0")
    base.execute("UPDATE grid_time SET data_interval = NULL")
    base.commit()
    outcome = classify_both(orig, new, base, "no data intervals")[0]
    assert outcome[0] == "raise", outcome
    # Bad input: classify twice (thresholds singleton violated)
    base = synthetic_db(1, n_steps=60, gap=False)
    orig.classify_intervals(base)
    outcome = classify_both(orig, new, base, "classified twice")[0]
    assert outcome[0] == "raise", outcome
    # Bad input: non-uniform time steps within a data interval
    base = synthetic_db(2, n_steps=60, gap=False)
    base.execute("PRAGMA foreign_keys = 0")
    (epoch,) = base.execute(
        "SELECT epoch FROM water_level ORDER BY epoch LIMIT 1 OFFSET 20"
    ).fetchone()
    base.execute("DELETE FROM water_level WHERE epoch = ?", (epoch,))
    base.commit()
    outcome = classify_both(orig, new, base, "non-uniform steps")[0]
    assert outcome[0] == "raise", outcome
    # Bad input: a data interval without any water level
    base = synthetic_db(3, n_steps=60, gap=False)
    base.execute("PRAGMA foreign_keys = 0")
    base.execute("DELETE FROM water_level")
    base.commit()
    outcome = classify_both(orig, new, base, "no water level")[0]
    assert outcome[0] == "raise", outcome
    # Bad input: non-finite water level
    base = synthetic_db(4, n_steps=60, gap=False)
    base.execute(
        "UPDATE water_level SET zeta_mm = 9e999 WHERE epoch = "
        "(SELECT min(epoch) + 3600 FROM water_level)"
    )
    base.commit()
    outcome = classify_both(orig, new, base, "infinite water level")[0]
    assert outcome[0] == "raise", outcome


def compare_calls(orig, new, name, cases):
    """Call orig.name(*args) and new.name(*args) for each case; compare"""
    n_raise = 0
    for make_args in cases:
        a = run(getattr(orig, name), *make_args())
        b = run(getattr(new, name), *make_args())
        assert a == b, (name, a, b)
        n_raise += a[0][0] == "raise"
    print(f"  {name}: {len(cases)} cases identical ({n_raise} raising)")
