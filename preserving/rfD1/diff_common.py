"""Shared harness for the differential checks of group D.

Builds two pristine copies of the package in a temporary directory
(``git archive HEAD`` of this worktree): one untouched, one with the
given patch applied.  Runs the same probe script once against each copy
(separate interpreter, PYTHONPATH pointing at the copy) and compares the
canonicalised results for exact equality.

A probe script defines ``probe()`` returning a dict of label -> result;
results are canonicalised with ``canon`` below (floats as hex, arrays as
raw bytes, exceptions as (type, message)).
"""

import json
import os
import re
import subprocess
import sys
import tempfile

HERE = os.path.dirname(os.path.abspath(__file__))
PYTHON = '/venv/bin/python'

CANON_SOURCE = r'''
import json, sys
import numpy as np


def canon(obj):
    """Canonical, JSON-serialisable, bit-exact representation"""
    if isinstance(obj, BaseException):
        return ['EXC', type(obj).__name__, str(obj)]
    if isinstance(obj, np.ndarray):
        return ['ND', str(obj.dtype), list(obj.shape),
                np.ascontiguousarray(obj).tobytes().hex()]
    if isinstance(obj, np.generic):
        return ['NPS', str(obj.dtype), obj.tobytes().hex()]
    if isinstance(obj, bool) or obj is None or isinstance(obj, (int, str)):
        return ['PY', type(obj).__name__, obj]
    if isinstance(obj, float):
        return ['F', obj.hex()]
    if isinstance(obj, bytes):
        return ['B', obj.hex()]
    if isinstance(obj, (list, tuple)):
        return [type(obj).__name__, [canon(v) for v in obj]]
    if isinstance(obj, dict):
        return ['dict', [[canon(k), canon(v)] for k, v in obj.items()]]
    return ['REPR', type(obj).__name__, repr(obj)]


def attempt(func, *args, **kwargs):
    """Call func; return its result or the exception it raised"""
    try:
        return func(*args, **kwargs)
    except BaseException as exc:  # pylint: disable=broad-except
        return exc
'''


def build_trees(patch_path, workdir):
    """Create orig/ and new/ package trees under workdir"""
    trees = {}
    for name in ('orig', 'new'):
        tree = os.path.join(workdir, name)
        os.makedirs(tree)
        archive = subprocess.run(
            ['git', '-C', HERE, 'archive', 'HEAD', 'spowtd'],
            check=True,
            stdout=subprocess.PIPE,
        ).stdout
        subprocess.run(['tar', '-x', '-C', tree], input=archive, check=True)
        trees[name] = tree
    with open(patch_path, 'rb') as patch_file:
        subprocess.run(
            ['patch', '-p1', '-s', '-d', trees['new']],
            stdin=patch_file,
            check=True,
        )
    return trees


def run_probe(tree, probe_source, workdir, label):
    """Run probe_source against the package in tree; return parsed JSON"""
    script = os.path.join(workdir, 'probe_{}.py'.format(label))
    out_path = os.path.join(workdir, 'result_{}.json'.format(label))
    with open(script, 'wt') as script_file:
        script_file.write(CANON_SOURCE)
        script_file.write(probe_source)
        script_file.write(
            '\n\nif __name__ == "__main__":\n'
            '    import spowtd, os\n'
            '    assert os.path.realpath(spowtd.__file__).startswith(\n'
            '        os.path.realpath(sys.argv[2])), spowtd.__file__\n'
            '    with open(sys.argv[1], "wt") as f:\n'
            '        json.dump(canon(probe()), f)\n'
        )
    env = dict(os.environ)
    env['PYTHONPATH'] = tree
    env['PYTHONDONTWRITEBYTECODE'] = '1'
    env['MPLBACKEND'] = 'Agg'
    tmpdir = os.path.join(workdir, 'tmp_{}'.format(label))
    os.makedirs(tmpdir)
    env['TMPDIR'] = tmpdir
    subprocess.run(
        [PYTHON, script, out_path, tree], check=True, env=env, cwd=workdir
    )
    with open(out_path, 'rt') as out_file:
        text = out_file.read()
    # The only legitimate differences between the two runs are the
    # location of the package copy and of the scratch directory.
    text = re.sub(re.escape(tmpdir) + r'/tmp\w+', 'SCRATCH', text)
    text = text.replace(tree, 'TREE')
    return json.loads(text)


def compare(patch_name, probe_source):
    """Run the probe on both trees and assert exact equality"""
    patch_path = os.path.join(HERE, patch_name)
    with tempfile.TemporaryDirectory(prefix='rfD_') as workdir:
        trees = build_trees(patch_path, workdir)
        # The patched tree must really differ from the original
        differs = subprocess.run(
            ['diff', '-rq', trees['orig'], trees['new']],
            stdout=subprocess.PIPE,
            check=False,
        )
        assert differs.returncode == 1, 'patch did not change the tree'
        orig = run_probe(trees['orig'], probe_source, workdir, 'orig')
        new = run_probe(trees['new'], probe_source, workdir, 'new')
        if os.environ.get('DIFF_KEEP'):
            with open(os.environ['DIFF_KEEP'], 'wt') as keep_file:
                json.dump(orig, keep_file)
    assert orig[0] == 'dict' and new[0] == 'dict'
    orig_items = orig[1]
    new_items = new[1]
    assert [k for k, _ in orig_items] == [k for k, _ in new_items]
    n_bad = 0
    for (key, orig_value), (_, new_value) in zip(orig_items, new_items):
        if orig_value != new_value:
            n_bad += 1
            sys.stdout.write(
                'MISMATCH {}\n  orig {}\n  new  {}\n'.format(
                    key, str(orig_value)[:300], str(new_value)[:300]
                )
            )
    n_exc = sum(1 for _, v in orig_items if v and v[0] == 'EXC')
    sys.stdout.write(
        '{}: {} probes compared ({} of them exceptions), {} mismatches\n'.format(
            patch_name, len(orig_items), n_exc, n_bad
        )
    )
    assert n_bad == 0
    assert orig == new
    sys.stdout.write('OK\n')


# Probe-side helpers for checks that drive the command-line interface.
CLI_SOURCE = r'''
import contextlib
import io
import os
import sqlite3
import tempfile

import spowtd.user_interface as cli_mod
from spowtd.test import conftest

SAMPLES = conftest.SAMPLE_DATA_DIR


def run_cli(argv):
    """Run the CLI; return [result-or-exception, stdout, stderr]

    SystemExit is reported as its exit code.
    """
    stdout = io.StringIO()
    stderr = io.StringIO()
    with contextlib.redirect_stdout(stdout), contextlib.redirect_stderr(
        stderr
    ):
        try:
            result = cli_mod.main(argv)
        except SystemExit as exc:
            result = ['SystemExit', exc.code]
        except BaseException as exc:  # pylint: disable=broad-except
            result = exc
    return [result, stdout.getvalue(), stderr.getvalue()]


def dump_db(path):
    """Full contents of a database: schema and every row of every table"""
    connection = sqlite3.connect(path)
    cursor = connection.cursor()
    cursor.execute(
        "SELECT type, name, sql FROM sqlite_master ORDER BY type, name")
    schema = cursor.fetchall()
    tables = {}
    for kind, name, _ in schema:
        if kind in ('table', 'view'):
            cursor.execute('SELECT * FROM "{}" ORDER BY 1, 2'.format(name)
                           if len(cursor.execute(
                               'PRAGMA table_info("{}")'.format(name)
                           ).fetchall()) > 1
                           else 'SELECT * FROM "{}" ORDER BY 1'.format(name))
            tables[name] = cursor.fetchall()
    cursor.close()
    connection.close()
    return [schema, tables]


def build_pipeline(sample, workdir, out):
    """Run load .. set-curvature through the CLI; record outcomes in out"""
    db = os.path.join(workdir, 'sample_{}.sqlite3'.format(sample))
    steps = [
        ['load', db,
         '-p', os.path.join(SAMPLES, 'precipitation_{}.txt'.format(sample)),
         '-e', os.path.join(SAMPLES,
                            'evapotranspiration_{}.txt'.format(sample)),
         '-z', os.path.join(SAMPLES, 'water_level_{}.txt'.format(sample)),
         '--timezone', 'Africa/Lagos'],
        ['classify', db, '-s', '8.0', '-j', '5.0'],
        ['set-zeta-grid', db, '-d', '1.0'],
        ['recession', db],
        ['rise', db, '-vv'],
        ['set-curvature', db, '2.36'],
    ]
    for step in steps:
        result = run_cli(step)
        # Paths differ between runs: record only the path-free parts
        out['s{}_{}'.format(sample, step[0])] = [
            result[0], result[1], result[2].replace(workdir, 'WORKDIR')]
    out['s{}_db'.format(sample)] = dump_db(db)
    return db


def read_file(path):
    if not os.path.exists(path):
        return None
    with open(path, 'rt') as f:
        return f.read()
'''


# Full command-line probe shared by the user_interface checks: parser
# structure, parse results, help texts, error exits, and the complete
# load .. pestfiles pipeline on both sample data sets with database dumps.
CLI_PROBE = CLI_SOURCE + r'''
import argparse
import logging
import warnings

sys.argv[0] = 'spowtd'


def walk_parsers(parser, path, found):
    """Collect every (sub)parser with its path"""
    found.append((path, parser))
    for action in parser._actions:  # pylint: disable=protected-access
        if isinstance(action, argparse._SubParsersAction):
            for name, sub in action.choices.items():
                walk_parsers(sub, path + [name], found)


def describe_action(action):
    """Every attribute of an argparse action that influences parsing"""
    kind = action.type
    if isinstance(kind, argparse.FileType):
        kind = repr(kind)
    elif kind is not None:
        kind = kind.__name__
    default = action.default
    if default is sys.stdout:
        default = 'STDOUT'
    elif default is sys.stderr:
        default = 'STDERR'
    choices = action.choices
    if isinstance(choices, dict):
        choices = list(choices)
    return [type(action).__name__, list(action.option_strings), action.dest,
            action.nargs, repr(action.const), repr(default), kind,
            repr(choices), action.required, action.help, repr(action.metavar)]


def namespace_items(namespace):
    items = []
    for key, value in sorted(vars(namespace).items()):
        if value is sys.stdout:
            value = 'STDOUT'
        elif value is sys.stderr:
            value = 'STDERR'
        elif hasattr(value, 'read') or hasattr(value, 'write'):
            value = ['FILE', os.path.basename(value.name), value.mode,
                     value.encoding]
        items.append([key, value])
    return items


def parse_only(argv, workdir):
    """Parse argv with a fresh parser; no task is run"""
    stdout = io.StringIO()
    stderr = io.StringIO()
    with contextlib.redirect_stdout(stdout), contextlib.redirect_stderr(
        stderr
    ):
        parsers = cli_mod.create_parsers()
        try:
            result = namespace_items(parsers[0].parse_args(argv))
        except SystemExit as exc:
            result = ['SystemExit', exc.code]
    return [result, stdout.getvalue(),
            stderr.getvalue().replace(workdir, 'WORKDIR')]


def probe():
    warnings.simplefilter('ignore')
    out = {}
    # --- parser structure ------------------------------------------------
    parsers = cli_mod.create_parsers()
    out['n_parsers_returned'] = len(parsers)
    for k, parser in enumerate(parsers):
        out['returned_parser_{}_prog'.format(k)] = parser.prog
    found = []
    walk_parsers(parsers[0], [], found)
    out['parser_paths'] = [path for path, _ in found]
    for path, parser in found:
        label = '/'.join(path) or 'top'
        out['help_' + label] = parser.format_help()
        out['usage_' + label] = parser.format_usage()
        out['prog_' + label] = parser.prog
        out['description_' + label] = parser.description
        out['actions_' + label] = [
            describe_action(action) for action in parser._actions]
    # the returned sub-parsers must be the registered ones
    by_path = {'/'.join(path): parser for path, parser in found}
    out['returned_identity'] = [parsers[1] is by_path['plot'],
                                parsers[2] is by_path['simulate'],
                                parsers[3] is by_path['pestfiles']]

    with tempfile.TemporaryDirectory() as workdir:
        yml = os.path.join(SAMPLES, 'spline_parameters.yml')
        peat_yml = os.path.join(SAMPLES, 'peatclsm_parameters.yml')
        txt = {name: os.path.join(SAMPLES, name + '_1.txt')
               for name in ('precipitation', 'evapotranspiration',
                            'water_level')}
        scratch = os.path.join(workdir, 'scratch_out')
        missing = os.path.join(workdir, 'does_not_exist.yml')
        # --- parsing only: valid and invalid command lines ---------------
        argvs = [
            [], ['--version'], ['-h'], ['bogus'], ['--bogus'],
            ['load'], ['load', 'DB'], ['load', '-h'],
            ['load', 'DB', '-p', txt['precipitation'], '-e',
             txt['evapotranspiration'], '-z', txt['water_level'],
             '--timezone', 'UTC'],
            ['load', 'DB', '--precipitation', txt['precipitation'],
             '--evapotranspiration', txt['evapotranspiration'],
             '--water-level', txt['water_level'], '--timezone', 'UTC',
             '-vvv', '--logfile', scratch],
            ['load', 'DB', '-p', missing, '-e', txt['evapotranspiration'],
             '-z', txt['water_level'], '--timezone', 'UTC'],
            ['load', 'DB', '-p', txt['precipitation'], '-e',
             txt['evapotranspiration'], '-z', txt['water_level']],
            ['classify'], ['classify', 'DB'], ['classify', '-h'],
            ['classify', 'DB', '-s', '8', '-j', '5'],
            ['classify', 'DB', '--storm-rain-threshold-mm-h', '8.5',
             '--rising-jump-threshold-mm-h', '1e1', '-v'],
            ['classify', 'DB', '-s', 'x', '-j', '5'],
            ['set-zeta-grid'], ['set-zeta-grid', 'DB'],
            ['set-zeta-grid', '-h'],
            ['set-zeta-grid', 'DB', '-d', '2.5'],
            ['set-zeta-grid', 'DB', '--water-level-step-mm', '0.5', '-vv'],
            ['set-zeta-grid', 'DB', '-d', 'abc'],
            ['recession'], ['recession', 'DB'], ['recession', '-h'],
            ['recession', 'DB', '-r', '-10.5'],
            ['recession', 'DB', '--reference-zeta-mm', '3'],
            ['rise'], ['rise', 'DB'], ['rise', '-h'],
            ['rise', 'DB', '-r', '7'], ['rise', 'DB', 'extra'],
            ['plot'], ['plot', '-h'], ['plot', '-v'], ['plot', 'bogus'],
            ['plot', 'specific-yield'], ['plot', 'specific-yield', '-h'],
            ['plot', 'specific-yield', yml, '-50', '10'],
            ['plot', 'specific-yield', yml, '--', '-50', '10'],
            ['plot', 'specific-yield', yml, '0', '10', '-n', '7', '-d',
             scratch],
            ['plot', 'conductivity', yml, '0', '10', '--n-points', '7'],
            ['plot', 'conductivity', '-h'],
            ['plot', 'transmissivity', yml, '0', '10', '--dump', scratch],
            ['plot', 'transmissivity', '-h'],
            ['plot', 'transmissivity', missing, '0', '10'],
            ['plot', 'transmissivity', yml, 'a', '10'],
            ['plot', 'time-series'], ['plot', 'time-series', '-h'],
            ['plot', 'time-series', 'DB'],
            ['plot', 'time-series', 'DB', '-e', '-f', '-w', '2',
             '--timezone', 'UTC'],
            ['plot', 'time-series', 'DB', '--plot-evapotranspiration',
             '--flags', '--highlight-weight', '1.5'],
            ['plot', 'recession'], ['plot', 'recession', '-h'],
            ['plot', 'recession', 'DB'],
            ['plot', 'recession', 'DB', '-p', yml],
            ['plot', 'rise', '-h'], ['plot', 'rise', 'DB'],
            ['plot', 'rise', 'DB', '--parameters', yml],
            ['-v', 'plot', 'rise', 'DB'],
            ['plot', 'rise', 'DB', '-v'],
            ['set-curvature'], ['set-curvature', '-h'],
            ['set-curvature', 'DB'], ['set-curvature', 'DB', '2.36'],
            ['set-curvature', 'DB', 'x'],
            ['set-curvature', 'DB', '1', '-vvvvvv'],
            ['simulate'], ['simulate', '-h'], ['simulate', 'bogus'],
            ['simulate', '-vv'], ['simulate', 'rise'],
            ['simulate', 'rise', '-h'], ['simulate', 'rise', 'DB'],
            ['simulate', 'rise', 'DB', yml],
            ['simulate', 'rise', 'DB', yml, '-o', scratch,
             '--observations'],
            ['simulate', 'rise', 'DB', yml, '--output', scratch],
            ['simulate', 'recession', '-h'], ['simulate', 'recession', 'DB'],
            ['simulate', 'recession', 'DB', yml],
            ['simulate', 'recession', 'DB', yml, '-o', scratch,
             '--observations'],
            ['simulate', 'recession', 'DB', missing],
            ['pestfiles'], ['pestfiles', '-h'], ['pestfiles', 'bogus'],
            ['pestfiles', 'rise'], ['pestfiles', 'rise', '-h'],
            ['pestfiles', 'rise', 'DB', yml, 'tpl'],
            ['pestfiles', 'rise', 'DB', yml, 'xyz'],
            ['pestfiles', 'rise', 'DB', yml, 'pst', '-c', yml, '-o',
             scratch],
            ['pestfiles', 'rise', 'DB', yml, 'ins', '--configuration', yml,
             '--output', scratch],
            ['pestfiles', 'curves'], ['pestfiles', 'curves', '-h'],
            ['pestfiles', 'curves', 'DB', yml, 'ins'],
            ['pestfiles', 'curves', 'DB', yml, 'bad'],
            ['pestfiles', 'curves', 'DB', yml, 'pst', '-c', yml, '-o',
             scratch],
            ['pestfiles', 'curves', 'DB', yml, 'tpl', '-v', '--logfile',
             scratch],
        ]
        for k, argv in enumerate(argvs):
            out['parse_{}_{}'.format(k, ' '.join(argv[:3]))] = parse_only(
                argv, workdir)
        # --- main() on command lines that exit before doing work ---------
        for k, argv in enumerate(argvs):
            if (not argv or '-h' in argv or argv == ['--version']
                    or argv[-1] in ('plot', 'simulate', 'pestfiles',
                                    'bogus', '-vv')
                    or argv == ['plot', '-v']):
                result = run_cli(argv)
                out['main_exit_{}_{}'.format(k, ' '.join(argv[:3]))] = [
                    result[0], result[1],
                    result[2].replace(workdir, 'WORKDIR')]
        # --- the full pipeline on both samples ---------------------------
        for sample in (1, 2):
            db = build_pipeline(sample, workdir, out)

            def run(label, argv, path=None):
                result = run_cli(argv)
                out['s{}_{}'.format(sample, label)] = [
                    result[0], result[1],
                    result[2].replace(workdir, 'WORKDIR'),
                    None if path is None else read_file(path)]
                if path is not None and os.path.exists(path):
                    os.remove(path)

            out_path = os.path.join(workdir, 'out.txt')
            for name, params in (('spline', yml), ('peatclsm', peat_yml)):
                for kind in ('rise', 'recession'):
                    run('simulate_{}_{}'.format(kind, name),
                        ['simulate', kind, db, params, '-o', out_path],
                        out_path)
                    run('simulate_{}_{}_obs'.format(kind, name),
                        ['simulate', kind, db, params, '--observations',
                         '--output', out_path], out_path)
                    run('simulate_{}_{}_stdout'.format(kind, name),
                        ['simulate', kind, db, params])
                for kind in ('rise', 'curves'):
                    for file_type in ('tpl', 'ins', 'pst'):
                        run('pestfiles_{}_{}_{}'.format(
                            kind, name, file_type),
                            ['pestfiles', kind, db, params, file_type,
                             '-o', out_path], out_path)
                    run('pestfiles_{}_{}_stdout'.format(kind, name),
                        ['pestfiles', kind, db, params, 'tpl'])
                run('plot_sy_dump_' + name,
                    ['plot', 'specific-yield', params, '-60', '0.5', '-n',
                     '25', '-d', out_path], out_path)
                run('plot_T_dump_' + name,
                    ['plot', 'transmissivity', params, '-60', '0.5', '-n',
                     '25', '--dump', out_path], out_path)
                run('plot_K_' + name,
                    ['plot', 'conductivity', params, '-60', '0.5'])
                run('plot_sy_show_' + name,
                    ['plot', 'specific-yield', params, '-60', '0.5', '-n',
                     '9'])
                run('plot_T_show_' + name,
                    ['plot', 'transmissivity', params, '-60', '0.5', '-n',
                     '9'])
                run('plot_recession_' + name,
                    ['plot', 'recession', db, '-p', params])
                run('plot_rise_' + name, ['plot', 'rise', db, '-p', params])
            run('plot_recession', ['plot', 'recession', db])
            run('plot_rise', ['plot', 'rise', db])
            run('plot_time_series', ['plot', 'time-series', db])
            run('plot_time_series_flags',
                ['plot', 'time-series', db, '-e', '-f', '-w', '2',
                 '--timezone', 'Africa/Lagos'])
            # verbosity and log file handling
            log_path = os.path.join(workdir, 'log.txt')
            run('verbose_clipped',
                ['set-curvature', db, '1.5', '-vvvvvv', '--logfile',
                 log_path], log_path)
            run('verbose_stderr', ['set-zeta-grid', db, '-d', '2', '-vvvv'])
            run('rise_reference', ['rise', db, '-r', '0.0', '-v'])
            run('recession_reference', ['recession', db, '-r', '-5'])
            # errors raised while the connection is open
            run('classify_again', ['classify', db, '-s', '8', '-j', '5'])
            run('load_again',
                ['load', db, '-p', txt['precipitation'], '-e',
                 txt['evapotranspiration'], '-z', txt['water_level'],
                 '--timezone', 'Africa/Lagos'])
            run('bad_timezone',
                ['load', os.path.join(workdir, 'tz.sqlite3'), '-p',
                 txt['precipitation'], '-e', txt['evapotranspiration'],
                 '-z', txt['water_level'], '--timezone', 'Nowhere/Land'])
            run('empty_db_classify',
                ['classify', os.path.join(workdir, 'empty.sqlite3'), '-s',
                 '8', '-j', '5'])
            run('bad_db_path',
                ['rise', os.path.join(workdir, 'no', 'such', 'dir', 'x.db')])
            out['s{}_db_final'.format(sample)] = dump_db(db)
            for extra in ('tz.sqlite3', 'empty.sqlite3'):
                path = os.path.join(workdir, extra)
                out['s{}_db_{}'.format(sample, extra)] = (
                    dump_db(path) if os.path.exists(path) else None)
                if os.path.exists(path):
                    os.remove(path)
        # --- helpers that main() relies on -------------------------------
        for level in range(-5, 8):
            out['verbosity_{}'.format(level)] = attempt(
                cli_mod.get_verbosity, level)
        out['version'] = cli_mod.get_version()

        # --- main() with a task the parser would never produce -----------
        class FakeParser:
            def parse_args(self, argv):
                return argparse.Namespace(
                    version=False, task=argv[0], logfile=sys.stderr,
                    verbosity=0, subtask=None, db=':memory:')

            def print_help(self):
                print('HELP')

            def exit(self):
                raise SystemExit(0)

        original = cli_mod.create_parsers
        cli_mod.create_parsers = lambda: (
            FakeParser(), FakeParser(), FakeParser(), FakeParser())
        try:
            for task in ('frobnicate', '', 'Plot', 'plot', 'simulate',
                         'pestfiles'):
                out['fake_task_' + task] = run_cli([task])
        finally:
            cli_mod.create_parsers = original
    return out
'''
