"""Differential check for refactor1.diff (spowtd/spline.py)"""

import diff_common

PROBE = r'''
import itertools
import yaml
import spowtd.spline as spline_mod
import spowtd.specific_yield as sy_mod
import spowtd.test.conftest as conftest
import os


def probe():
    out = {}
    rng = np.random.default_rng(12345)
    splines = {}
    # Sample-data splines (specific yield of both parameter files)
    for name in ('spline', 'peatclsm'):
        with open(os.path.join(conftest.SAMPLE_DATA_DIR,
                               name + '_parameters.yml')) as f:
            params = yaml.safe_load(f)['specific_yield']
        sy = sy_mod.create_specific_yield_function(params)
        splines['sample_' + name] = sy._spline
        out['sy_knots_' + name] = np.asarray(sy.sy_knots, dtype='float64')
    # Synthetic splines, linear and cubic, smoothed and not
    xs = np.cumsum(rng.uniform(0.1, 3.0, size=12)) - 10.0
    ys = rng.normal(size=12)
    for order in (1, 2, 3):
        for s in (0, 0.5):
            splines['synth_k{}_s{}'.format(order, s)] = (
                spline_mod.Spline.from_points(zip(xs, ys), s=s, order=order))
    splines['two_int'] = spline_mod.Spline.from_points(
        [(0, 1), (1, 3), (2, 2), (5, 7)], order=1)
    for name, spline in splines.items():
        xmin, xmax = spline.domain()
        out[name + '_domain'] = spline.domain()
        span = float(xmax - xmin)
        ends = [float(xmin) - 2 * span, float(xmin) - 1e-9, float(xmin),
                float(xmin) + 0.25 * span, float(xmin) + 0.5 * span,
                float(xmax) - 1e-9, float(xmax), float(xmax) + 1e-9,
                float(xmax) + 3 * span, xmin, xmax, 0, -0.0,
                float('inf'), float('-inf'), float('nan')]
        ends += list(rng.uniform(float(xmin) - span, float(xmax) + span, 12))
        for i, (a, b) in enumerate(itertools.product(ends, ends)):
            out['{}_int_{}'.format(name, i)] = attempt(spline.integrate, a, b)
        grid = np.linspace(float(xmin) - span, float(xmax) + span, 101)
        for der in (0, 1):
            out['{}_call_der{}'.format(name, der)] = attempt(
                spline, grid, der)
            out['{}_call_kw_der{}'.format(name, der)] = attempt(
                spline, grid, der=der)
        for j, x in enumerate([xmin, xmax, 0, 1.5, float('nan'),
                               float('inf'), [xmin, xmax], (), 'abc', None]):
            out['{}_call_scalar_{}'.format(name, j)] = attempt(spline, x)
        for j, (a, b) in enumerate([(None, None), (None, 1.0), ('a', 'a'),
                                    ('a', 'b'), ('b', 'a'),
                                    (np.array([0.0, 1.0]), 2.0),
                                    (np.array([1.0]), np.array([0.5])),
                                    (np.float32(0.1), np.float64(7.0)),
                                    (1, 0), (True, False)]):
            out['{}_int_bad_{}'.format(name, j)] = attempt(
                spline.integrate, a, b)
    # from_points error paths are untouched but cheap to cover
    for j, pts in enumerate([[(0, 1), (0, 2), (1, 1), (2, 2)],
                             [(0, 1), (float('nan'), 2), (1, 1), (2, 2)],
                             [(0, 1), (1, float('inf')), (2, 1), (3, 2)]]):
        out['from_points_bad_{}'.format(j)] = attempt(
            spline_mod.Spline.from_points, pts)
    return out
'''

if __name__ == '__main__':
    diff_common.compare('refactor1.diff', PROBE)
