"""Shared helpers for the diff_check_K.py scripts (group A, round 8).

Loads spowtd/classify.py twice: once as committed (git HEAD) and once with
refactorK.diff applied to a scratch copy, under two module names, so that both
variants can be run side by side in one process.
"""

import importlib.util
import os
import shutil
import sqlite3
import subprocess
import sys
import tempfile

import numpy as np

ROOT = "/tmp/rf_A"
sys.path.insert(0, ROOT)

import spowtd.load as load_mod  # noqa: E402  (unchanged by every patch)

SAMPLE_DIR = os.path.join(ROOT, "spowtd", "test", "sample_data")
SCHEMA_PATH = os.path.join(ROOT, "spowtd", "schema.sql")


def _load(path, name):
    spec = importlib.util.spec_from_file_location(name, path)
    module = importlib.util.module_from_spec(spec)
    spec.loader.exec_module(module)
    return module


def load_variants(k):
    """Return (original classify module, refactored classify module)"""
    scratch = tempfile.mkdtemp(prefix="rfA_dc{}_".format(k))
    for variant in ("orig", "new"):
        os.makedirs(os.path.join(scratch, variant, "spowtd"))
        source = subprocess.check_output(
            ["git", "-C", ROOT, "show", "HEAD:spowtd/classify.py"]
        )
        with open(
            os.path.join(scratch, variant, "spowtd", "classify.py"), "wb"
        ) as out:
            out.write(source)
    subprocess.check_call(
        ["patch", "-p1", "-s", "-i", os.path.join(ROOT, "refactor{}.diff".format(k))],
        cwd=os.path.join(scratch, "new"),
    )
    orig = _load(os.path.join(scratch, "orig", "spowtd", "classify.py"), "classify_orig")
    new = _load(os.path.join(scratch, "new", "spowtd", "classify.py"), "classify_new")
    with open(os.path.join(scratch, "orig", "spowtd", "classify.py")) as f_orig, open(
        os.path.join(scratch, "new", "spowtd", "classify.py")
    ) as f_new:
        assert f_orig.read() != f_new.read(), "patch did not change anything"
    shutil.rmtree(scratch)
    return orig, new


def loaded_sample_db(sample):
    """In-memory database with sample data set loaded (as in conftest.py)"""
    connection = sqlite3.connect(":memory:")

    def path(kind):
        return os.path.join(SAMPLE_DIR, "{}_{}.txt".format(kind, sample))

    with open(path("precipitation"), "rt", encoding="utf-8-sig") as precip_f, open(
        path("evapotranspiration"), "rt", encoding="utf-8-sig"
    ) as et_f, open(path("water_level"), "rt", encoding="utf-8-sig") as zeta_f:
        load_mod.load_data(
            connection=connection,
            precipitation_data_file=precip_f,
            evapotranspiration_data_file=et_f,
            water_level_data_file=zeta_f,
            time_zone_name="Africa/Lagos",
        )
    return connection


def synthetic_db(intervals, time_step_s=1800, foreign_keys=True, extra_grid_time=True):
    """In-memory database with hand-made gridded data

    intervals: list of (start_epoch, rain list, zeta list), one per data
    interval; rain and zeta have the same length.

    """
    connection = sqlite3.connect(":memory:")
    cursor = connection.cursor()
    with open(SCHEMA_PATH, "rt") as schema_file:
        cursor.executescript(schema_file.read())
    # the data are put in without enforcement, see the end of the function
    connection.execute("PRAGMA foreign_keys = 0")
    cursor.execute(
        "INSERT INTO time_grid (time_step_s, source_time_zone) VALUES (?, 'UTC')",
        (time_step_s,),
    )
    for number, (start, rain, zeta) in enumerate(intervals):
        assert len(rain) == len(zeta)
        for i, (r, z) in enumerate(zip(rain, zeta)):
            t = start + i * time_step_s
            cursor.execute("INSERT INTO grid_time VALUES (?, ?)", (t, number))
        # one extra grid time so that the last thru_epoch exists
        if extra_grid_time:
            cursor.execute(
                "INSERT INTO grid_time VALUES (?, NULL)",
                (start + len(rain) * time_step_s,),
            )
        for i, (r, z) in enumerate(zip(rain, zeta)):
            t = start + i * time_step_s
            cursor.execute(
                "INSERT INTO rainfall_intensity VALUES (?, ?, ?)",
                (t, t + time_step_s, r),
            )
            cursor.execute("INSERT INTO water_level VALUES (?, ?)", (t, z))
    cursor.close()
    connection.commit()
    connection.execute("PRAGMA foreign_keys = {}".format(1 if foreign_keys else 0))
    return connection


def dump(connection):
    """Complete, ordered, typed contents of the database"""
    cursor = connection.cursor()
    tables = [
        row[0]
        for row in cursor.execute(
            "SELECT name FROM sqlite_master WHERE type = 'table' ORDER BY name"
        )
    ]
    result = {}
    for table in tables:
        rows = cursor.execute(
            "SELECT rowid, * FROM {}".format(table)
        ).fetchall()
        result[table] = [tuple((type(v).__name__, v) for v in row) for row in rows]
    cursor.close()
    return result


def outcome(function, *args, **kwargs):
    """('ok', value) or ('raised', type name, message)"""
    try:
        return ("ok", function(*args, **kwargs))
    except BaseException as exc:  # pylint: disable=broad-except
        return ("raised", type(exc).__name__, str(exc))


def canonical(value):
    """Recursively turn a result into something comparable with ==, types included"""
    if isinstance(value, np.ndarray):
        return ("ndarray", str(value.dtype), value.shape, value.tobytes())
    if isinstance(value, (list, tuple)):
        return (type(value).__name__, [canonical(v) for v in value])
    if isinstance(value, dict):
        return ("dict", [(canonical(k), canonical(v)) for k, v in value.items()])
    if isinstance(value, (set, frozenset)):
        return ("set", [canonical(v) for v in value])  # iteration order included
    if isinstance(value, float) and value != value:
        return ("float", "nan")
    return (type(value).__name__, value)


def same(a, b, what=""):
    ca, cb = canonical(a), canonical(b)
    assert ca == cb, "MISMATCH {}:\n  orig: {!r}\n  new:  {!r}".format(what, a, b)


class FakeCursor:
    """Cursor stand-in: answers the data SELECT from canned rows, records all writes"""

    def __init__(self, rows, time_step_h=0.5, existing_storms=()):
        self.rows = rows
        self.time_step_h = time_step_h
        self.storms = set(existing_storms)
        self.calls = []
        self._result = None

    def execute(self, sql, params=None):
        text = " ".join(sql.split())
        if text.startswith("SELECT water_level.epoch"):
            self.calls.append(("select-data", text, params))
            return iter(list(self.rows))
        if text.startswith("SELECT CAST(time_step_s"):
            self._result = (self.time_step_h,)
            return self
        if text.startswith("SELECT EXISTS"):
            self.calls.append(("exists", text, canonical(params)))
            key = (params["start_epoch"], params["thru_epoch"])
            self._result = (1 if key in self.storms else 0,)
            return self
        self.calls.append(("execute", text, canonical(params)))
        if text.startswith("INSERT INTO storm"):
            self.storms.add((params["start_epoch"], params["thru_epoch"]))
        return self

    def executemany(self, sql, seq):
        text = " ".join(sql.split())
        rows = [r for r in seq]
        self.calls.append(("executemany", text, canonical(rows)))
        return self

    def fetchone(self):
        return self._result


import logging  # noqa: E402


class LogCapture(logging.Handler):
    """Collects formatted messages of the spowtd.classify logger"""

    def __init__(self):
        super().__init__(level=logging.DEBUG)
        self.messages = []
        logger = logging.getLogger("spowtd.classify")
        logger.setLevel(logging.DEBUG)
        logger.addHandler(self)

    def emit(self, record):
        self.messages.append((record.levelname, record.getMessage()))

    def take(self):
        messages, self.messages = self.messages, []
        return messages
