"""Differential check for refactor1.diff (match_storms: per-rise storm search)

Run: cd /tmp/rf_A && PYTHONPATH=/tmp/rf_A /venv/bin/python diff_check_1.py
"""

import random

import numpy as np

from dc_common import (
    dump,
    load_variants,
    loaded_sample_db,
    outcome,
    same,
    synthetic_db,
)

orig, new = load_variants(1)


def both(name, *args):
    f_orig, f_new = getattr(orig, name), getattr(new, name)
    a = outcome(f_orig, *[x.copy() if isinstance(x, np.ndarray) else x for x in args])
    b = outcome(f_new, *[x.copy() if isinstance(x, np.ndarray) else x for x in args])
    same(a, b, "{}{!r}".format(name, args))
    return a


# --- sample data, whole classify step and match_storms on the sample series
n_cases = 0
for sample in (1, 2):
    for thresholds in ((8.0, 5.0), (4.0, 8.0), (0.5, 1.0), (2.0, 0.2)):
        dumps = []
        for module in (orig, new):
            connection = loaded_sample_db(sample)
            result = outcome(
                module.classify_intervals,
                connection,
                storm_rain_threshold_mm_h=thresholds[0],
                rising_jump_threshold_mm_h=thresholds[1],
            )
            dumps.append((result, dump(connection)))
            connection.close()
        same(dumps[0], dumps[1], "classify sample {} {}".format(sample, thresholds))
        n_cases += 1
    connection = loaded_sample_db(sample)
    rows = connection.execute(
        """
        SELECT zeta_mm, rainfall_intensity_mm_h
        FROM rainfall_intensity JOIN water_level ON from_epoch = epoch
        ORDER BY from_epoch"""
    ).fetchall()
    zeta = np.array([r[0] for r in rows])
    rain = np.array([r[1] for r in rows])
    for rain_thr in (0.0, 0.5, 2.0, 4.0, 8.0):
        for jump_thr in (0.0, 0.05, 0.5, 1.0, 2.5, 4.0):
            res = both("match_storms", rain, zeta, rain_thr, jump_thr)
            assert res[0] == "ok"
            n_cases += 1
    connection.close()


# --- synthetic series
def random_series(rng, n, many_storms):
    rain = np.zeros(n)
    head = np.zeros(n)
    level = 0.0
    i = 0
    raining = False
    rising = False
    for i in range(n):
        if rng.random() < (0.45 if many_storms else 0.2):
            raining = not raining
        if rng.random() < (0.15 if many_storms else 0.25):
            rising = not rising
        rain[i] = rng.choice([5.0, 9.0, 20.0]) if raining else rng.choice([0.0, 1.0])
        level += rng.choice([3.0, 4.0, 10.0]) if rising else rng.choice([-1.0, 0.0, 0.5])
        head[i] = level
    return rain, head


rng = random.Random(20260927)
n_ok = n_raised = 0
for trial in range(1500):
    n = rng.choice([0, 1, 2, 3, 5, 8, 13, 40, 120, 300])
    rain, head = random_series(rng, n, many_storms=trial % 2 == 0)
    kind = trial % 6
    if kind == 1:  # integer dtype
        rain = rain.astype(np.int64)
        head = head.astype(np.int64)
    elif kind == 2 and n:  # NaN heads (assertions in the rise interval can fire)
        for _ in range(rng.randint(1, 3)):
            head[rng.randrange(n)] = np.nan
    elif kind == 3 and n:  # NaN rain
        rain[rng.randrange(n)] = np.nan
    elif kind == 4 and n > 2:  # length mismatch
        if rng.random() < 0.5:
            rain = rain[: rng.randrange(n)]
        else:
            head = head[: rng.randrange(n)]
    res = both("match_storms", rain, head, rng.choice([2.0, 4.0, 8.0]), rng.choice([0.0, 2.0, 3.5]))
    if res[0] == "ok":
        n_ok += 1
    else:
        n_raised += 1

# One long rise spanning many short storms: storm ids >= 8 under one rise, so
# that the iteration order of the candidate set is not simply ascending
for n_storms in (2, 3, 9, 17, 40):
    for offset in (0, 1, 7, 8, 30):
        rain = np.zeros(2 * (n_storms + offset) + 3)
        rain[1 : 2 * offset : 2] = 10.0  # storms before the rise
        first = 2 * offset + 1
        rain[first::2] = 10.0
        head = np.zeros(len(rain))
        head[first:] = np.arange(len(rain) - first) * 5.0
        res = both("match_storms", rain, head, 4.0, 2.0)
        assert res[0] == "ok"
        res = both("match_storms", rain, head[::-1].copy(), 4.0, 2.0)
        n_ok += 1

# --- the helper kept for callers: get_candidate_match_intervals
for trial in range(300):
    n = rng.choice([3, 5, 8, 13, 40])
    rain, head = random_series(rng, n, many_storms=True)
    if trial % 3 == 0:
        head[rng.randrange(n)] = np.nan
    is_raining = rain > 4.0
    rain_masks = list(orig.get_true_interval_masks(is_raining))
    jump_masks = list(orig.get_true_interval_masks(np.diff(head) > 2.0))
    for jump_mask in jump_masks:
        for storm_index in range(len(rain_masks)):
            both(
                "get_candidate_match_intervals",
                head,
                2.0,
                is_raining,
                rain_masks,
                jump_mask,
                storm_index,
            )

# --- whole step on synthetic databases (two data intervals, several storms under a rise)
for trial in range(40):
    intervals = []
    start = 1_000_000_800
    for _ in range(rng.choice([1, 2, 3])):
        n = rng.choice([2, 3, 6, 30, 80])
        rain, head = random_series(rng, n, many_storms=trial % 2 == 0)
        intervals.append((start, rain.tolist(), head.tolist()))
        start += (n + 5) * 1800
    dumps = []
    for module in (orig, new):
        connection = synthetic_db(intervals)
        result = outcome(module.classify_intervals, connection, 4.0, 5.0)
        dumps.append((result, dump(connection)))
        connection.close()
    same(dumps[0], dumps[1], "synthetic db {}".format(trial))

print(
    "diff_check_1 OK: {} sample cases, {} synthetic ok, {} synthetic raising "
    "(identically)".format(n_cases, n_ok, n_raised)
)
