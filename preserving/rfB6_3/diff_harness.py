"""Shared harness for the diff_check_K.py scripts.

Builds two copies of the package in a temporary directory -- the original
(`git archive HEAD`) and the refactored one (original + refactorK.diff) --
runs the same worker script in a fresh interpreter against each copy, and
compares the pickled results for exact equality.
"""

import os
import pickle
import subprocess
import sys
import tempfile

import numpy as np

HERE = os.path.dirname(os.path.abspath(__file__))
PYTHON = '/venv/bin/python'


def build_copies(patch_name, tmpdir):
    """Return (orig_root, new_root) each containing a spowtd package"""
    roots = []
    for label in ('orig', 'new'):
        root = os.path.join(tmpdir, label)
        os.makedirs(root)
        archive = subprocess.run(
            ['git', '-C', HERE, 'archive', 'HEAD', 'spowtd'],
            check=True,
            stdout=subprocess.PIPE,
        ).stdout
        subprocess.run(['tar', '-x', '-C', root], input=archive, check=True)
        roots.append(root)
    subprocess.run(
        ['git', 'apply', os.path.join(HERE, patch_name)],
        cwd=roots[1],
        check=True,
    )
    # The patch must actually change something
    changed = subprocess.run(
        ['diff', '-rq', roots[0], roots[1]], stdout=subprocess.PIPE
    ).stdout
    assert changed, 'patch did not change anything'
    return tuple(roots)


def run_worker(root, worker_path, out_path):
    """Run worker with root first on the path; returns unpickled result"""
    env = dict(os.environ)
    env['PYTHONPATH'] = root
    env['PYTHONHASHSEED'] = '0'
    subprocess.run(
        [PYTHON, worker_path, out_path], check=True, env=env, cwd=root
    )
    with open(out_path, 'rb') as out_file:
        return pickle.load(out_file)


def exactly_equal(a, b, path='result'):
    """Recursively assert exact (type- and bit-level) equality"""
    assert type(a) is type(b), (path, type(a), type(b))
    if isinstance(a, dict):
        # key *order* matters too
        assert list(a.keys()) == list(b.keys()), (path, 'keys')
        for key in a:
            exactly_equal(a[key], b[key], '{}[{!r}]'.format(path, key))
    elif isinstance(a, (list, tuple)):
        assert len(a) == len(b), (path, len(a), len(b))
        for i, (item_a, item_b) in enumerate(zip(a, b)):
            exactly_equal(item_a, item_b, '{}[{}]'.format(path, i))
    elif isinstance(a, np.ndarray):
        assert a.dtype == b.dtype, (path, a.dtype, b.dtype)
        assert a.shape == b.shape, (path, a.shape, b.shape)
        assert a.tobytes() == b.tobytes(), (path, 'array bytes differ')
    elif isinstance(a, (float, np.floating)):
        assert np.float64(a).tobytes() == np.float64(b).tobytes(), (
            path,
            a,
            b,
        )
    else:
        assert a == b, (path, a, b)


def main(patch_name, worker_source):
    """Run worker_source against both copies and compare"""
    with tempfile.TemporaryDirectory(prefix='rfB_check_') as tmpdir:
        orig_root, new_root = build_copies(patch_name, tmpdir)
        worker_path = os.path.join(tmpdir, 'worker.py')
        with open(worker_path, 'wt') as worker_file:
            worker_file.write(WORKER_PRELUDE + worker_source)
        orig = run_worker(
            orig_root, worker_path, os.path.join(tmpdir, 'orig.pkl')
        )
        new = run_worker(
            new_root, worker_path, os.path.join(tmpdir, 'new.pkl')
        )
        assert orig['root'] == orig_root and new['root'] == new_root
        exactly_equal(orig['results'], new['results'])
        n_cases = len(orig['results'])
        assert n_cases > 0
        print(
            '{}: OK, {} recorded cases identical'.format(patch_name, n_cases)
        )
    return 0


WORKER_PRELUDE = r'''
import io
import os
import pickle
import sqlite3
import sys

import numpy as np

import spowtd

ROOT = os.path.dirname(os.path.dirname(os.path.abspath(spowtd.__file__)))
SAMPLE_DIR = os.path.join(ROOT, 'spowtd', 'test', 'sample_data')
RESULTS = []


def record(label, function, *args, **kwargs):
    """Record the outcome (value or exception) of a call"""
    try:
        value = function(*args, **kwargs)
    except BaseException as exc:  # pylint: disable=broad-except
        RESULTS.append((label, 'raised', type(exc).__name__, str(exc)))
        return None
    RESULTS.append((label, 'returned', value))
    return value


def dump_database(connection):
    """Full textual dump plus row-ordered contents of every table"""
    dump = list(connection.iterdump())
    cursor = connection.cursor()
    tables = [
        name
        for name, in cursor.execute(
            "SELECT name FROM sqlite_master WHERE type='table' ORDER BY name"
        )
    ]
    contents = {}
    for name in tables:
        contents[name] = cursor.execute(
            'SELECT * FROM {}'.format(name)
        ).fetchall()
    return (dump, contents)


def sample_file(kind, sample):
    return open(
        os.path.join(SAMPLE_DIR, '{}_{}.txt'.format(kind, sample)),
        'rt',
        encoding='utf-8-sig',
    )


def load_sample(sample):
    import spowtd.load as load_mod

    connection = sqlite3.connect(':memory:')
    with sample_file('precipitation', sample) as precip_f, sample_file(
        'evapotranspiration', sample
    ) as et_f, sample_file('water_level', sample) as zeta_f:
        load_mod.load_data(
            connection=connection,
            precipitation_data_file=precip_f,
            evapotranspiration_data_file=et_f,
            water_level_data_file=zeta_f,
            time_zone_name='Africa/Lagos',
        )
    return connection


def classify_sample(sample):
    import spowtd.classify as classify_mod
    import spowtd.zeta_grid as zeta_grid_mod

    connection = load_sample(sample)
    classify_mod.classify_intervals(
        connection,
        storm_rain_threshold_mm_h=8.0,
        rising_jump_threshold_mm_h=5.0,
    )
    zeta_grid_mod.populate_zeta_grid(connection, grid_interval_mm=1.0)
    return connection


def finish():
    with open(sys.argv[1], 'wb') as out_file:
        pickle.dump({'root': ROOT, 'results': RESULTS}, out_file)

'''
