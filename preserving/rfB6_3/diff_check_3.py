"""Differential check for refactor3.diff (load.populate_grid_time)"""

import sys

import diff_harness

WORKER = r'''
import warnings

import spowtd.load as load_mod

# 1. Sample data through load_data, recording the inner call
_inner = load_mod.populate_grid_time


def _recording(cursor, time_zone_name):
    result = _inner(cursor, time_zone_name)
    RESULTS.append(('pipeline call', time_zone_name, result,
                    [type(v).__name__ for v in result[0][:3]],
                    type(result[1]).__name__))
    return result


load_mod.populate_grid_time = _recording
for sample in (1, 2):
    connection = load_sample(sample)
    RESULTS.append(('database', sample, dump_database(connection)))
load_mod.populate_grid_time = _inner


# 2. populate_grid_time on synthetic staging tables
def staged(rain_epochs, zeta_epochs):
    connection = sqlite3.connect(':memory:')
    with open(load_mod.SCHEMA_PATH, 'rt') as schema_file:
        connection.executescript(schema_file.read())
    connection.executemany(
        'INSERT INTO rainfall_intensity_staging VALUES (?, ?)',
        [(epoch, 0.25 * (i % 5)) for i, epoch in enumerate(rain_epochs)])
    connection.executemany(
        'INSERT INTO water_level_staging VALUES (?, ?)',
        [(epoch, -10.0 + i) for i, epoch in enumerate(zeta_epochs)])
    return connection


def case(label, rain_epochs, zeta_epochs, calls=1):
    connection = staged(rain_epochs, zeta_epochs)
    cursor = connection.cursor()
    with warnings.catch_warnings(record=True) as caught:
        warnings.simplefilter('always')
        for call in range(calls):
            value = record((label, call), _inner, cursor, 'Etc/UTC')
            if value is not None:
                RESULTS.append((label, 'types',
                                [type(v).__name__ for v in value[0]],
                                type(value[1]).__name__))
    RESULTS.append((label, 'warnings',
                    [(w.category.__name__, str(w.message)) for w in caught]))
    RESULTS.append((label, 'database', dump_database(connection)))


hour = 3600
case('uniform', range(0, 48 * hour, hour), range(5 * hour, 30 * hour, 900))
case('uniform twice', range(0, 12 * hour, hour), [2 * hour, 9 * hour],
     calls=2)
case('uniform off-grid water level', range(0, 48 * hour, hour),
     [5 * hour + 7, 30 * hour - 11])
case('two rain rows', [0, 1800, 3600, 5400], [1800, 3600])
case('step of one second', range(100, 110), [101, 108])
case('negative epochs', range(-10 * hour, 10 * hour, hour),
     [-7 * hour, 3 * hour])
case('one rain row in range', range(0, 48 * hour, hour),
     [5 * hour, 5 * hour + 10])
case('no rain row in range', range(0, 48 * hour, hour),
     [5 * hour + 1, 5 * hour + 10])
case('no water level', range(0, 48 * hour, hour), [])
case('no rain', [], [0, 10])
case('nothing', [], [])
case('one gap', [0, hour, 2 * hour, 4 * hour, 5 * hour], [0, 5 * hour])
case('gap outside range', [0, hour, 2 * hour, 4 * hour, 5 * hour],
     [0, 2 * hour])
case('gap first', [0, 2 * hour, 3 * hour, 4 * hour], [0, 5 * hour])
case('gap last', [0, hour, 2 * hour, 3 * hour, 7 * hour], [0, 9 * hour])
case('many steps', [0, 50, 60, 90, 100, 110, 200, 1000, 1010, 1011],
     [0, 2000])
case('two alternating', [0, 10, 30, 40, 60, 70, 90], [0, 2000])
case('large epochs', [2 ** 62, 2 ** 62 + 60, 2 ** 62 + 120], [0, 2 ** 63 - 1])
case('overflowing differences',
     [-2 ** 63, 0, 2 ** 63 - 1], [-2 ** 63, 2 ** 63 - 1])
case('overflowing uniform differences',
     [-2 ** 63 + 2, -2 ** 62, 2 ** 62 - 2, 2 ** 63 - 4 - 2 ** 62 + 2 ** 62],
     [-2 ** 63, 2 ** 63 - 1])

rng = np.random.default_rng(3)
for trial in range(150):
    n = int(rng.integers(0, 30))
    step = int(rng.choice([60, 900, 3600]))
    start = int(rng.integers(-10 ** 6, 10 ** 9))
    epochs = [start + i * step for i in range(n)]
    if n > 2 and trial % 2:
        # knock out or shift some rows
        for _ in range(int(rng.integers(1, 3))):
            k = int(rng.integers(0, len(epochs)))
            if rng.random() < 0.5:
                del epochs[k]
            else:
                epochs[k] += int(rng.integers(1, step))
        epochs = sorted(set(epochs))
    lo = start + int(rng.integers(-2 * step, 5 * step))
    hi = lo + int(rng.integers(0, 40 * step))
    case(('random', trial), epochs, sorted({lo, hi}))


# 3. End to end: load_data with non-uniform rainfall files
def text_rows(header, rows):
    return io.StringIO(
        header + '\n' + ''.join('{},{}\n'.format(*row) for row in rows))


def stamp(minutes):
    return '2020-01-{:02d} {:02d}:{:02d}:00'.format(
        1 + minutes // 1440, (minutes // 60) % 24, minutes % 60)


def load_case(label, rain_minutes, et_minutes, zeta_minutes):
    connection = sqlite3.connect(':memory:')
    record(label, load_mod.load_data, connection,
           text_rows('Datetime,P', [(stamp(m), 1.5) for m in rain_minutes]),
           text_rows('Datetime,ET', [(stamp(m), 0.1) for m in et_minutes]),
           text_rows('Datetime,zeta', [(stamp(m), -m / 7.0)
                                       for m in zeta_minutes]),
           'Asia/Jakarta')
    RESULTS.append((label, 'database', dump_database(connection)))


grid = list(range(0, 600, 30))
load_case('load uniform', grid, grid + [600], range(45, 500, 15))
load_case('load gap', grid[:7] + grid[9:], grid + [600], range(45, 500, 15))
load_case('load jitter', grid[:7] + [215] + grid[8:], grid + [600],
          range(45, 500, 15))
load_case('load short', grid, grid + [600], [45, 50])
load_case('load disjoint', grid, grid + [600], [700, 800])

finish()
'''

if __name__ == '__main__':
    sys.exit(diff_harness.main('refactor3.diff', WORKER))
