"""Shared harness for the diff_check_K.py scripts.

Each diff_check_K.py defines ``scenarios()`` (a function returning a picklable
structure of results) and calls ``main(K, scenarios)``.  ``main`` exports the
unmodified package (git HEAD) into two scratch directories, applies
refactorK.diff to the second one, runs the scenarios in a subprocess under each
copy, and asserts that the canonicalised results are identical.
"""

import os
import pickle
import shutil
import sqlite3
import subprocess
import sys
import tempfile
import traceback

import numpy as np

ROOT = '/tmp/rf_B'
PYTHON = '/venv/bin/python'
SAMPLE_DIR_REL = os.path.join('spowtd', 'test', 'sample_data')


def canon(obj):
    """Canonical, exactly comparable representation of a result"""
    if isinstance(obj, np.ndarray):
        return (
            'ndarray',
            str(obj.dtype),
            obj.shape,
            np.ascontiguousarray(obj).tobytes()
            if obj.dtype != object
            else tuple(canon(v) for v in obj.ravel().tolist()),
        )
    if isinstance(obj, (bool, np.bool_)):
        return ('bool', bool(obj))
    if isinstance(obj, np.generic):
        return ('npscalar', str(obj.dtype), obj.tobytes())
    if isinstance(obj, float):
        return ('float', obj.hex())
    if isinstance(obj, int):
        return ('int', obj)
    if isinstance(obj, (str, bytes, type(None))):
        return (type(obj).__name__, obj)
    if isinstance(obj, (list, tuple)):
        return (type(obj).__name__, tuple(canon(v) for v in obj))
    if isinstance(obj, dict):
        # Insertion order is part of the observable behaviour
        return ('dict', tuple((canon(k), canon(v)) for k, v in obj.items()))
    if isinstance(obj, (set, frozenset)):
        return ('set', tuple(sorted((canon(v) for v in obj), key=repr)))
    raise TypeError('cannot canonicalise {!r}'.format(type(obj)))


def capture(function, *args, **kwargs):
    """Call function; return ('ok', canon(result)) or ('exc', type, text)"""
    try:
        result = function(*args, **kwargs)
    except BaseException as exc:  # pylint: disable=broad-except
        frames = traceback.extract_tb(exc.__traceback__)
        return ('exc', type(exc).__name__, str(exc), len(frames) > 0)
    return ('ok', canon(result))


def dump_database(connection):
    """All rows of all tables and views, in rowid / view order"""
    cursor = connection.cursor()
    names = cursor.execute(
        "SELECT type, name FROM sqlite_master "
        "WHERE type IN ('table', 'view') ORDER BY type, name"
    ).fetchall()
    dump = []
    for kind, name in names:
        order = ' ORDER BY rowid' if kind == 'table' else ''
        try:
            rows = cursor.execute(
                'SELECT * FROM "{}"{}'.format(name, order)
            ).fetchall()
        except sqlite3.Error as exc:
            rows = [('error', str(exc))]
        dump.append((kind, name, rows))
    cursor.close()
    return dump


def sample_path(kind, sample):
    """Path of a sample data file in the package being imported"""
    import spowtd  # pylint: disable=import-outside-toplevel

    return os.path.join(
        os.path.dirname(spowtd.__file__),
        'test',
        'sample_data',
        '{}_{}.txt'.format(kind, sample),
    )


def _export(target):
    os.makedirs(target)
    archive = subprocess.run(
        ['git', '-C', ROOT, 'archive', 'HEAD', 'spowtd'],
        check=True,
        stdout=subprocess.PIPE,
    ).stdout
    subprocess.run(['tar', '-x', '-C', target], input=archive, check=True)


def _count_exceptions(obj):
    if isinstance(obj, tuple) and len(obj) == 4 and obj[0] == 'exc':
        return 1
    if isinstance(obj, (tuple, list)):
        return sum(_count_exceptions(v) for v in obj)
    return 0


def _summary(obj):
    if isinstance(obj, tuple) and len(obj) == 4 and obj[0] == 'exc':
        return '{}: {}'.format(obj[1], obj[2][:150])
    if isinstance(obj, tuple) and len(obj) == 2 and obj[0] == 'ok':
        return 'ok ' + repr(obj[1])[:100]
    if isinstance(obj, (tuple, list)):
        for value in obj:
            if isinstance(value, tuple) and value and value[0] in ('ok', 'exc'):
                return _summary(value)
        return '<{} items>'.format(len(obj))
    return repr(obj)[:60]


def main(number, scenarios):
    """Entry point of a diff_check script"""
    if len(sys.argv) == 3 and sys.argv[1] == '--worker':
        # The script directory (the worktree) precedes PYTHONPATH; make
        # sure the exported tree under test wins
        sys.path.insert(0, os.environ['DC_TREE'])
        with open(sys.argv[2], 'wb') as out:
            pickle.dump(scenarios(), out)
        return
    script = os.path.abspath(sys.argv[0])
    patch = os.path.join(ROOT, 'refactor{}.diff'.format(number))
    os.makedirs(os.path.join(ROOT, '_scratch'), exist_ok=True)
    scratch = tempfile.mkdtemp(
        prefix='dc{}_'.format(number), dir=os.path.join(ROOT, '_scratch')
    )
    try:
        results = {}
        for name in ('orig', 'new'):
            tree = os.path.join(scratch, name)
            _export(tree)
            if name == 'new':
                with open(patch, 'rb') as patch_file:
                    subprocess.run(
                        ['patch', '-p1', '-s', '-d', tree],
                        stdin=patch_file,
                        check=True,
                    )
            out_path = os.path.join(scratch, name + '.pkl')
            env = dict(os.environ)
            env['PYTHONPATH'] = tree + os.pathsep + ROOT
            env['PYTHONDONTWRITEBYTECODE'] = '1'
            env['DC_TREE'] = tree
            subprocess.run(
                [PYTHON, script, '--worker', out_path],
                check=True,
                env=env,
                cwd=scratch,
            )
            with open(out_path, 'rb') as in_file:
                results[name] = pickle.load(in_file)
        orig, new = results['orig'], results['new']
        assert list(orig) == list(new), (list(orig), list(new))
        n_exc = 0
        for key in orig:
            assert orig[key] == new[key], 'MISMATCH in scenario {!r}:\n{!r}\n{!r}'.format(
                key, orig[key], new[key]
            )
            n_exc += _count_exceptions(orig[key])
            if os.environ.get('DC_VERBOSE'):
                print(key, '->', _summary(orig[key]))
        # Sanity: the two trees really differ
        differ = subprocess.run(
            ['diff', '-rq', os.path.join(scratch, 'orig'),
             os.path.join(scratch, 'new')],
            stdout=subprocess.PIPE, check=False,
        ).stdout.decode()
        assert differ.strip(), 'patch did not change anything'
        print(
            'diff_check_{}: OK - {} scenarios identical ({} raise the same '
            'exception); files changed: {}'.format(
                number, len(orig), n_exc,
                [line.split()[1].split('/spowtd/')[-1]
                 for line in differ.strip().splitlines()],
            )
        )
    finally:
        shutil.rmtree(scratch, ignore_errors=True)


def assert_tree(module):
    """Check that module was imported from the tree under test"""
    tree = os.environ['DC_TREE']
    assert os.path.abspath(module.__file__).startswith(tree), module.__file__
