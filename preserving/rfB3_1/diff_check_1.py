"""Differential check for refactor1.diff (load.populate_grid_time)"""

import sqlite3

import dc_harness as H


def _staged(rain_epochs, zeta_epochs):
    import spowtd.load as load_mod

    connection = sqlite3.connect(':memory:')
    cursor = connection.cursor()
    with open(load_mod.SCHEMA_PATH, 'rt') as schema_file:
        cursor.executescript(schema_file.read())
    cursor.executemany(
        'INSERT INTO rainfall_intensity_staging VALUES (?, ?)',
        [(epoch, 0.25 * i) for i, epoch in enumerate(rain_epochs)],
    )
    cursor.executemany(
        'INSERT INTO water_level_staging VALUES (?, ?)',
        [(epoch, -100.0 + i) for i, epoch in enumerate(zeta_epochs)],
    )
    return connection, cursor


def _grid_case(rain_epochs, zeta_epochs, tz_name='Africa/Lagos', twice=False):
    import spowtd.load as load_mod

    connection, cursor = _staged(rain_epochs, zeta_epochs)

    def call():
        result = load_mod.populate_grid_time(cursor, tz_name)
        if twice:
            result = (result, load_mod.populate_grid_time(cursor, tz_name))
        return result

    outcome = H.capture(call)
    return (outcome, H.canon(H.dump_database(connection)))


def _load_sample(sample, tz_name='Africa/Lagos'):
    import spowtd.load as load_mod

    connection = sqlite3.connect(':memory:')
    with open(
        H.sample_path('precipitation', sample), 'rt', encoding='utf-8-sig'
    ) as precip_f, open(
        H.sample_path('evapotranspiration', sample), 'rt', encoding='utf-8-sig'
    ) as et_f, open(
        H.sample_path('water_level', sample), 'rt', encoding='utf-8-sig'
    ) as zeta_f:
        outcome = H.capture(
            load_mod.load_data,
            connection=connection,
            precipitation_data_file=precip_f,
            evapotranspiration_data_file=et_f,
            water_level_data_file=zeta_f,
            time_zone_name=tz_name,
        )
    return (outcome, H.canon(H.dump_database(connection)))


def scenarios():
    import spowtd.load as load_mod

    H.assert_tree(load_mod)
    out = {}
    for sample in (1, 2):
        out['load sample {}'.format(sample)] = _load_sample(sample)
    out['load sample 1 UTC'] = _load_sample(1, 'UTC')
    hour = 3600
    uniform = list(range(0, 40 * hour, hour))
    out['uniform, zeta inside'] = _grid_case(
        uniform, [5 * hour + 600 * i for i in range(60)]
    )
    out['uniform, zeta boundaries on rain epochs'] = _grid_case(
        uniform, [3 * hour, 4 * hour, 7 * hour, 20 * hour]
    )
    out['zeta covers everything'] = _grid_case(
        uniform, [-hour, 100 * hour]
    )
    out['unordered insertion'] = _grid_case(
        list(reversed(uniform)), [30 * hour, 2 * hour, 11 * hour]
    )
    out['nonuniform'] = _grid_case(
        [0, hour, 2 * hour, 4 * hour, 5 * hour, 5 * hour + 1800],
        [0, 6 * hour],
    )
    out['nonuniform outside zeta span only'] = _grid_case(
        [0, 1800, hour, 2 * hour, 3 * hour, 4 * hour, 6 * hour],
        [hour, 4 * hour],
    )
    out['no water level'] = _grid_case(uniform, [])
    out['no rainfall'] = _grid_case([], [0, hour])
    out['no overlap'] = _grid_case(uniform, [100 * hour, 101 * hour])
    out['single overlapping epoch'] = _grid_case(
        uniform, [5 * hour + 1, 5 * hour + 3000, 6 * hour + 1]
    )
    out['two overlapping epochs'] = _grid_case(uniform, [5 * hour, 6 * hour])
    out['single zeta sample on grid'] = _grid_case(uniform, [5 * hour])
    out['time zone None'] = _grid_case(uniform, [0, 9 * hour], tz_name=None)
    out['time zone int'] = _grid_case(uniform, [0, 9 * hour], tz_name=17)
    out['called twice'] = _grid_case(uniform, [0, 9 * hour], twice=True)
    out['negative epochs'] = _grid_case(
        list(range(-10 * hour, 10 * hour, 1800)), [-3 * hour, 2 * hour]
    )
    return out


if __name__ == '__main__':
    H.main(1, scenarios)
