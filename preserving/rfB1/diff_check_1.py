"""Differential check for refactor1.diff (spowtd/load.py: load_staging_table
helper in load_data; grid-time query with scalar sub-queries instead of CTE
join).

Usage: cd /tmp/rf_B && /venv/bin/python diff_check_1.py
"""

import io
import os
import sqlite3

import dc_common

SAMPLE_DIR = os.path.join(dc_common.ROOT, 'spowtd', 'test', 'sample_data')


def dump(connection):
    """Full logical contents of the database, including uncommitted rows"""
    return list(connection.iterdump())


def series(start_hour, values, step_min=60, header='Datetime,value', day=1):
    """CSV text with one row per step starting at 2020-01-<day> start_hour"""
    import datetime

    t = datetime.datetime(2020, 1, day, start_hour, 0, 0)
    lines = [header]
    for value in values:
        lines.append('{},{}'.format(t.strftime('%Y-%m-%d %H:%M:%S'), value))
        t += datetime.timedelta(minutes=step_min)
    return '\n'.join(lines) + '\n'


def run_load(precip, et, zeta, tz='Africa/Lagos', preexisting=False):
    import spowtd.load as load_mod

    connection = sqlite3.connect(':memory:')
    if preexisting:
        connection.execute('CREATE TABLE junk (a integer)')
    result = dc_common.outcome(
        load_mod.load_data,
        connection=connection,
        precipitation_data_file=io.StringIO(precip),
        evapotranspiration_data_file=io.StringIO(et),
        water_level_data_file=io.StringIO(zeta),
        time_zone_name=tz,
    )
    return (result, dump(connection))


def run_grid_time(rain_epochs, zeta_epochs):
    """Call populate_grid_time directly on hand-filled staging tables"""
    import spowtd.load as load_mod

    connection = sqlite3.connect(':memory:')
    cursor = connection.cursor()
    with open(load_mod.SCHEMA_PATH, 'rt') as schema_file:
        cursor.executescript(schema_file.read())
    cursor.executemany(
        'INSERT INTO rainfall_intensity_staging VALUES (?, ?)',
        [(epoch, 0.5 * i) for i, epoch in enumerate(rain_epochs)],
    )
    cursor.executemany(
        'INSERT INTO water_level_staging VALUES (?, ?)',
        [(epoch, 1.5 * i) for i, epoch in enumerate(zeta_epochs)],
    )
    result = dc_common.outcome(
        load_mod.populate_grid_time, cursor, 'Africa/Lagos'
    )
    return (result, dump(connection))


def worker():
    results = {}
    # Sample data, as in the test fixtures
    for sample in (1, 2):
        texts = []
        for kind in ('precipitation', 'evapotranspiration', 'water_level'):
            path = os.path.join(SAMPLE_DIR, '{}_{}.txt'.format(kind, sample))
            with open(path, 'rt', encoding='utf-8-sig') as in_file:
                texts.append(in_file.read())
        for tz in ('Africa/Lagos', 'UTC', 'Asia/Jakarta'):
            results['sample{}-{}'.format(sample, tz)] = run_load(
                *texts, tz=tz
            )

    rain = series(0, [0, 1, 2.5, 0, 0, 9, 0, 0, 1, 0, 0, 0])
    et = series(0, [0.1] * 13)
    zeta = series(2, [10, 11, 12.5, 12, 11.5, 11, 10.5])
    # water level with a gap, sub-step sampling, not aligned with rain grid
    zeta_gap = (
        series(1, [5, 6, 7, 8], step_min=30)
        + series(6, [9, 8.5, 8.25, 8, 7, 6.5], step_min=30).split('\n', 1)[1]
    )
    results['synthetic-ok'] = run_load(rain, et, zeta)
    results['synthetic-gap'] = run_load(rain, et, zeta_gap)
    results['synthetic-ok-utc'] = run_load(rain, et, zeta, tz='UTC')
    results['extra-column-header'] = run_load(
        rain.replace('Datetime,value', 'DateTime (local),mm/h'), et, zeta
    )
    # Error paths
    results['populated-db'] = run_load(rain, et, zeta, preexisting=True)
    results['bad-header-rain'] = run_load(
        rain.replace('Datetime', 'Time'), et, zeta
    )
    results['bad-header-et'] = run_load(
        rain, et.replace('Datetime', 'Time'), zeta
    )
    results['bad-header-zeta'] = run_load(
        rain, et, zeta.replace('Datetime', 'Time')
    )
    results['empty-rain-file'] = run_load('', et, zeta)
    results['empty-et-file'] = run_load(rain, '', zeta)
    results['empty-zeta-file'] = run_load(rain, et, '')
    results['blank-header-zeta'] = run_load(rain, et, '\n' + zeta)
    results['header-only-zeta'] = run_load(rain, et, 'Datetime,zeta\n')
    results['header-only-rain'] = run_load('Datetime,p\n', et, zeta)
    results['header-only-et'] = run_load(rain, 'Datetime,et\n', zeta)
    results['nonuniform-rain'] = run_load(
        rain + '2020-01-01 12:30:00,3\n', et, zeta
    )
    results['nonuniform-rain-inside'] = run_load(
        rain + '2020-01-01 04:30:00,3\n', et, zeta
    )
    results['duplicate-rain'] = run_load(
        rain + '2020-01-01 03:00:00,3\n', et, zeta
    )
    results['duplicate-zeta'] = run_load(
        rain, et, zeta + '2020-01-01 03:00:00,3\n'
    )
    results['bad-datetime-et'] = run_load(
        rain, et + '2020-01-01T13:00:00,3\n', zeta
    )
    results['fractional-seconds'] = run_load(
        rain, et, zeta + '2020-01-01 09:00:00.5,3\n'
    )
    results['three-columns-rain'] = run_load(
        rain + '2020-01-01 12:00:00,3,4\n', et, zeta
    )
    results['one-column-zeta'] = run_load(
        rain, et, zeta + '2020-01-01 09:00:00\n'
    )
    results['empty-row-et'] = run_load(rain, et + '\n', zeta)
    results['null-value-rain'] = run_load(
        rain + '2020-01-01 12:00:00,\n', et, zeta
    )
    results['text-value-zeta'] = run_load(
        rain, et, zeta + '2020-01-01 09:00:00,abc\n'
    )
    results['missing-et'] = run_load(rain, series(0, [0.1] * 5), zeta)
    results['no-overlap'] = run_load(
        rain, et, series(2, [1, 2, 3], day=3)
    )
    results['single-overlap'] = run_load(
        rain, et, series(2, [1], step_min=60)
    )
    results['zeta-between-rain-times'] = run_load(
        rain, et, series(2, [1, 2], step_min=10)
    )
    results['bad-time-zone'] = run_load(rain, et, zeta, tz='Mars/Olympus')

    # populate_grid_time directly
    hour = 3600
    base = 1577836800
    grid = [base + hour * i for i in range(10)]
    results['grid-inside'] = run_grid_time(grid, [grid[2] + 7, grid[7] - 7])
    results['grid-exact-ends'] = run_grid_time(grid, [grid[2], grid[7]])
    results['grid-covers-all'] = run_grid_time(
        grid, [grid[0] - 5, grid[3], grid[-1] + 5]
    )
    results['grid-unsorted-insert'] = run_grid_time(
        grid[::-1], [grid[5], grid[1], grid[8]]
    )
    results['grid-empty-zeta'] = run_grid_time(grid, [])
    results['grid-empty-rain'] = run_grid_time([], [grid[1], grid[2]])
    results['grid-one-point'] = run_grid_time(grid, [grid[4]])
    results['grid-nonuniform'] = run_grid_time(
        grid + [grid[-1] + 5], [grid[0], grid[-1] + 9]
    )
    results['grid-negative-epochs'] = run_grid_time(
        [-7200, -3600, 0, 3600], [-4000, 10]
    )
    return results


if __name__ == '__main__':
    dc_common.main(1, worker, __file__)
