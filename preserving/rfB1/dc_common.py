"""Shared harness for the diff_check_K.py scripts.

Builds two copies of the package under /tmp/rf_B/_work/rK/{orig,new} (orig =
`git archive HEAD`, new = orig + refactorK.diff), runs the calling script's
`worker()` in a fresh interpreter against each copy, pickles the results and
compares them strictly (types, dtypes, bit patterns of floats).
"""

import math
import os
import pickle
import shutil
import subprocess
import sys

import numpy as np

ROOT = os.path.dirname(os.path.abspath(__file__))
PYTHON = '/venv/bin/python'


def prepare(k):
    work = os.path.join(ROOT, '_work', 'r{}'.format(k))
    shutil.rmtree(work, ignore_errors=True)
    dirs = {}
    for name in ('orig', 'new'):
        path = os.path.join(work, name)
        os.makedirs(path)
        archive = subprocess.run(
            ['git', '-C', ROOT, 'archive', 'HEAD', 'spowtd'],
            check=True,
            stdout=subprocess.PIPE,
        ).stdout
        subprocess.run(['tar', '-x', '-C', path], input=archive, check=True)
        dirs[name] = path
    patch = os.path.join(ROOT, 'refactor{}.diff'.format(k))
    with open(patch, 'rb') as patch_file:
        subprocess.run(
            ['patch', '-p1', '-s', '-d', dirs['new']],
            stdin=patch_file,
            check=True,
        )
    return dirs


def strict_equal(a, b, path='result'):
    """Raise AssertionError unless a and b are identical in type and value"""
    assert type(a) is type(b), '{}: type {} != {}'.format(
        path, type(a), type(b)
    )
    if isinstance(a, np.ndarray):
        assert a.dtype == b.dtype, '{}: dtype'.format(path)
        assert a.shape == b.shape, '{}: shape'.format(path)
        if a.dtype == object:
            for i, (u, v) in enumerate(zip(a.ravel(), b.ravel())):
                strict_equal(u, v, '{}[{}]'.format(path, i))
        else:
            assert a.tobytes() == b.tobytes(), '{}: array bytes'.format(path)
    elif isinstance(a, np.generic):
        assert a.tobytes() == b.tobytes(), '{}: {!r} != {!r}'.format(
            path, a, b
        )
    elif isinstance(a, float):
        assert (math.isnan(a) and math.isnan(b)) or (
            a == b and math.copysign(1, a) == math.copysign(1, b)
        ), '{}: {!r} != {!r}'.format(path, a, b)
    elif isinstance(a, (list, tuple)):
        assert len(a) == len(b), '{}: len {} != {}'.format(
            path, len(a), len(b)
        )
        for i, (u, v) in enumerate(zip(a, b)):
            strict_equal(u, v, '{}[{}]'.format(path, i))
    elif isinstance(a, dict):
        # Key order matters too (dicts are iterated by callers)
        strict_equal(list(a.keys()), list(b.keys()), path + '.keys')
        for key in a:
            strict_equal(a[key], b[key], '{}[{!r}]'.format(path, key))
    elif isinstance(a, (set, frozenset)):
        assert a == b, '{}: {!r} != {!r}'.format(path, a, b)
    else:
        assert a == b, '{}: {!r} != {!r}'.format(path, a, b)


def outcome(func, *args, **kwargs):
    """Call func, returning ('ok', value) or ('exc', type name, str)"""
    try:
        return ('ok', func(*args, **kwargs))
    except BaseException as exc:  # pylint: disable=broad-except
        return ('exc', type(exc).__name__, str(exc))


def main(k, worker, script):
    """Entry point for diff_check_K.py"""
    if len(sys.argv) == 3 and sys.argv[1] == '--worker':
        # The script directory (the worktree) is sys.path[0]; make sure the
        # package copy under test wins.  worker() must import spowtd lazily.
        assert 'spowtd' not in sys.modules
        sys.path.insert(0, os.environ['SPOWTD_COPY'])
        import spowtd  # pylint: disable=import-outside-toplevel

        result = worker()
        assert '__package_dir__' not in result
        result['__package_dir__'] = os.path.dirname(
            os.path.abspath(spowtd.__file__)
        )
        with open(sys.argv[2], 'wb') as out:
            pickle.dump(result, out, protocol=4)
        return
    dirs = prepare(k)
    results = {}
    for name, path in dirs.items():
        out_path = os.path.join(path, 'result.pickle')
        env = dict(os.environ)
        env['PYTHONPATH'] = path
        env['SPOWTD_COPY'] = path
        env['PYTHONDONTWRITEBYTECODE'] = '1'
        subprocess.run(
            [PYTHON, os.path.abspath(script), '--worker', out_path],
            check=True,
            env=env,
            cwd=path,
        )
        with open(out_path, 'rb') as in_file:
            results[name] = pickle.load(in_file)
    assert results['orig']['__package_dir__'] != results['new'][
        '__package_dir__'
    ], 'both runs imported the same package copy'
    for name in ('orig', 'new'):
        assert results[name]['__package_dir__'].startswith(
            dirs[name]
        ), results[name]['__package_dir__']
        del results[name]['__package_dir__']
    strict_equal(results['orig'], results['new'])
    n_cases = len(results['orig'])
    n_exc = sum(
        1 for value in results['orig'].values() if "('exc'," in repr(value)[:9]
    )
    print(
        'diff_check_{}: OK, {} cases identical ({} of them exceptions)'.format(
            k, n_cases, n_exc
        )
    )


# ---- helpers shared by the regrid / fit_offsets checks (3, 4, 5) ----

SAMPLE_DIR = os.path.join(ROOT, 'spowtd', 'test', 'sample_data')


def classified_connection(sample, grid_interval_mm=1.0):
    """In-memory database loaded and classified as in the test fixtures"""
    import sqlite3

    import spowtd.classify as classify_mod
    import spowtd.load as load_mod
    import spowtd.zeta_grid as zeta_grid_mod

    connection = sqlite3.connect(':memory:')
    files = [
        open(
            os.path.join(SAMPLE_DIR, '{}_{}.txt'.format(kind, sample)),
            'rt',
            encoding='utf-8-sig',
        )
        for kind in ('precipitation', 'evapotranspiration', 'water_level')
    ]
    try:
        load_mod.load_data(
            connection=connection,
            precipitation_data_file=files[0],
            evapotranspiration_data_file=files[1],
            water_level_data_file=files[2],
            time_zone_name='Africa/Lagos',
        )
    finally:
        for data_file in files:
            data_file.close()
    classify_mod.classify_intervals(
        connection,
        storm_rain_threshold_mm_h=8.0,
        rising_jump_threshold_mm_h=5.0,
    )
    zeta_grid_mod.populate_zeta_grid(
        connection, grid_interval_mm=grid_interval_mm
    )
    return connection


def dump_tables(connection, prefixes):
    """Dump of the tables whose names start with one of the prefixes"""
    return [
        line
        for line in connection.iterdump()
        if any(
            line.startswith('INSERT INTO "{}'.format(prefix))
            for prefix in prefixes
        )
    ]


def rise_and_recession(sample, grid_interval_mm=1.0, reference_zeta_mm=None):
    """Run the rise and recession steps; return outcomes and table dumps"""
    import spowtd.recession as recession_mod
    import spowtd.rise as rise_mod

    connection = classified_connection(sample, grid_interval_mm)
    rise = outcome(
        rise_mod.find_rise_offsets,
        connection,
        reference_zeta_mm=reference_zeta_mm,
    )
    recession = outcome(
        recession_mod.find_recession_offsets,
        connection,
        reference_zeta_mm=reference_zeta_mm,
    )
    return (
        rise,
        recession,
        dump_tables(connection, ('rising', 'rise', 'recession')),
    )


def interstorm_series(sample):
    """(time, zeta) series of the interstorm intervals of a sample"""
    connection = classified_connection(sample)
    cursor = connection.cursor()
    epoch, zeta_mm = [
        np.array(v, dtype='float64')
        for v in zip(
            *cursor.execute(
                'SELECT epoch, zeta_mm FROM water_level ORDER BY epoch'
            )
        )
    ]
    series = []
    for start, thru in cursor.execute(
        """
    SELECT start_epoch, thru_epoch FROM zeta_interval
    WHERE interval_type = 'interstorm' ORDER BY start_epoch"""
    ).fetchall():
        mask = (epoch >= start) & (epoch <= thru)
        series.append((epoch[mask], zeta_mm[mask]))
    return series
