"""Differential check for refactor3.diff (missing-ET anti-join in
load.populate_evapotranspiration)"""

import sys

import pytz

sys.path.insert(0, '/tmp/rf_B')
import dc_common as dc  # noqa: E402

tmp, orig_pkg, new_pkg = dc.build(3)
orig = dc.load_module(orig_pkg, 'load', 'orig_load')
new = dc.load_module(new_pkg, 'load', 'new_load')
assert 'LEFT OUTER JOIN' in open(new.__file__).read()
assert 'LEFT OUTER JOIN' not in open(orig.__file__).read()
failures = []

print('load_data paths')
dc.check_load_data_paths(orig, new, failures)


def direct(load_mod, grid, staged, tz_name='Africa/Lagos', time_grid=None,
           time_step=600, foreign_keys=True, drop=None):
    connection, tracer = dc.new_db(load_mod, foreign_keys=foreign_keys)
    connection.executemany(
        'INSERT INTO grid_time (epoch, data_interval) VALUES (?, ?)',
        [(e, (i % 3) or None) for i, e in enumerate(grid)],
    )
    dc.stage(connection, et=staged)
    if drop:
        connection.execute(drop)
    cursor = connection.cursor()
    outcome = dc.attempt(
        load_mod.populate_evapotranspiration,
        cursor,
        grid if time_grid is None else time_grid,
        time_step,
        tz=pytz.timezone(tz_name),
    )
    observation = dc.observe(connection, tracer, outcome)
    connection.close()
    return observation


grid = [1000 + 600 * i for i in range(12)]
full = [(e, 0.125 * i) for i, e in enumerate(grid)]


def without(*indices):
    return [row for i, row in enumerate(full) if i not in indices]


cases = {
    'none_missing': dict(grid=grid, staged=full),
    'none_missing_extra_rows': dict(
        grid=grid, staged=[(1, 1.0), (1300, 2.0)] + full + [(99999, 3.0)]
    ),
    'first_missing': dict(grid=grid, staged=without(0)),
    'last_missing': dict(grid=grid, staged=without(11)),
    'two_missing': dict(grid=grid, staged=without(3, 7)),
    'three_missing': dict(grid=grid, staged=without(2, 3, 9)),
    'many_missing': dict(grid=grid, staged=without(1, 4, 5, 8, 10, 11)),
    'many_missing_reversed_insert': dict(
        grid=list(reversed(grid)),
        staged=list(reversed(without(1, 4, 5, 8, 10, 11))),
    ),
    'all_missing_empty_staging': dict(grid=grid, staged=[]),
    'all_missing_disjoint': dict(
        grid=grid, staged=[(e + 1, 1.0) for e in grid]
    ),
    'empty_grid': dict(grid=[], staged=full, time_grid=grid),
    'both_empty': dict(grid=[], staged=[], time_grid=grid),
    'negative_epochs_missing': dict(
        grid=[-1200, -600, 0, 600], staged=[(-600, 1.0), (600, 2.0)]
    ),
    'missing_utc': dict(grid=grid, staged=without(0, 6, 7, 8), tz_name='UTC'),
    'missing_dst_zone': dict(
        grid=[1583650800 + 1800 * i for i in range(6)],
        staged=[(1583650800 + 1800 * i, 1.0) for i in (0, 5)],
        tz_name='America/New_York',
    ),
    'missing_out_of_range_epoch': dict(
        grid=[10**17, 10**17 + 600], staged=[(10**17 + 600, 1.0)]
    ),
    'staging_text_values': dict(
        grid=grid[:4],
        staged=[(1000, 'abc'), (1600, ''), (2200, b'x'), (2800, 1)],
    ),
    'staging_table_absent': dict(
        grid=grid, staged=full,
        drop='DROP TABLE evapotranspiration_staging',
    ),
    'grid_table_absent': dict(
        grid=grid, staged=full, foreign_keys=False, drop='DROP TABLE grid_time',
    ),
}
print('direct populate_evapotranspiration')
for name, kwargs in sorted(cases.items()):
    a = direct(orig, **kwargs)
    b = direct(new, **kwargs)
    dc.compare('direct_' + name, a, b, failures)
    print('  ', name, '->', dc.summarize(a[0]))

# The check query itself, taken from the two sources, on the same databases:
# identical rows in identical order (also without relying on the Python
# around it)
import re  # noqa: E402


def check_query(load_mod):
    source = open(load_mod.__file__).read()
    body = source[source.index('def populate_evapotranspiration'):]
    return re.search(r'"""\n(\s+SELECT.*?)"""', body, re.S).group(1)


queries = [check_query(orig), check_query(new)]
assert queries[0] != queries[1]
for name, kwargs in sorted(cases.items()):
    if 'drop' in kwargs:
        continue
    connection, _ = dc.new_db(orig)
    connection.executemany(
        'INSERT INTO grid_time (epoch) VALUES (?)',
        [(e,) for e in kwargs['grid']],
    )
    dc.stage(connection, et=kwargs['staged'])
    results = [connection.execute(q).fetchall() for q in queries]
    if results[0] != results[1]:
        failures.append('query_' + name)
    connection.close()

dc.cleanup(tmp)
if failures:
    print('FAILED:', failures)
    sys.exit(1)
print('diff_check_3: all comparisons identical')
