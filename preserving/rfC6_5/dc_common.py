"""Shared helpers for the diff_check_K.py scripts (group C, round 6)

Each diff_check_K.py is both a driver and a child:

  driver:  materialises two copies of the package under a scratch
           directory inside /tmp/rf_C (HEAD, and HEAD + refactorK.diff),
           runs itself as a child once per copy with PYTHONPATH
           pointing to that copy, and compares the pickled results
           for exact equality (floats compared by their hex
           representation, arrays by dtype / shape / raw bytes).
  child:   runs the scenarios with whichever spowtd is on PYTHONPATH.

"""

import io
import os
import pickle
import shutil
import sqlite3
import subprocess
import sys
import tempfile
import traceback

ROOT = '/tmp/rf_C'
PYTHON = '/venv/bin/python'


# ---------------------------------------------------------------- driver


def build_trees(patch_path):
    """Return (scratch, orig_dir, new_dir)"""
    scratch = tempfile.mkdtemp(prefix='dc_scratch_', dir=ROOT)
    trees = []
    for name in ('orig', 'new'):
        tree = os.path.join(scratch, name)
        os.mkdir(tree)
        subprocess.run(
            'git -C {} archive HEAD spowtd | tar -x -C {}'.format(ROOT, tree),
            shell=True,
            check=True,
        )
        trees.append(tree)
    env = dict(os.environ, GIT_CEILING_DIRECTORIES=ROOT)
    subprocess.run(
        ['git', 'apply', patch_path], cwd=trees[1], check=True, env=env
    )
    return scratch, trees[0], trees[1]


def run_driver(script, patch_name, changed_file):
    """Run script as a child against both trees and compare"""
    scratch, orig, new = build_trees(os.path.join(ROOT, patch_name))
    try:
        a = open(os.path.join(orig, changed_file)).read()
        b = open(os.path.join(new, changed_file)).read()
        assert a != b, 'patch did not change {}'.format(changed_file)
        results = []
        for tree in (orig, new):
            out = os.path.join(scratch, os.path.basename(tree) + '.pickle')
            env = dict(os.environ, PYTHONPATH=tree)
            env.pop('PYTHONSTARTUP', None)
            subprocess.run(
                [PYTHON, script, '--child', out, tree],
                check=True,
                env=env,
                cwd=tree,
            )
            with open(out, 'rb') as f:
                results.append(pickle.load(f))
        (res_orig, res_new) = results
        assert list(res_orig) == list(res_new), 'scenario names differ'
        n_diff = 0
        for key in res_orig:
            if res_orig[key] != res_new[key]:
                n_diff += 1
                print('DIFFERENCE in scenario', key)
                print('  orig:', repr(res_orig[key])[:2000])
                print('  new: ', repr(res_new[key])[:2000])
        kinds = {}
        for key, value in res_orig.items():
            # A scenario result is either an outcome or a tuple
            # starting with one
            first = value if isinstance(value[0], str) else value[0]
            kind = first[0]
            if kind == 'raised':
                kind = 'raised ' + first[1]
            kinds[kind] = kinds.get(kind, 0) + 1
        if os.environ.get('DC_VERBOSE'):
            for key, value in res_orig.items():
                print(key, brief(value))
        print(
            '{}: {} scenarios compared ({}), {} differences'.format(
                os.path.basename(script), len(res_orig), kinds, n_diff
            )
        )
        assert n_diff == 0
        print('OK')
    finally:
        shutil.rmtree(scratch)


def brief(value):
    """Short description of a normalised result (for DC_VERBOSE=1)"""
    if isinstance(value, tuple) and len(value) == 2 and value[0] in (
        'list',
        'tuple',
    ):
        items = value[1]
        if len(items) > 6:
            return '<{} of {}>'.format(value[0], len(items))
        return [brief(item) for item in items]
    if isinstance(value, tuple) and len(value) == 2 and value[0] in (
        'int',
        'str',
        'float',
    ):
        return value[1]
    if isinstance(value, (tuple, list)):
        return type(value)(brief(item) for item in value)
    if isinstance(value, bytes):
        return '<{} bytes>'.format(len(value))
    return value


# ----------------------------------------------------------------- child


def norm(obj):
    """Normalise a result into something exactly comparable with =="""
    import numpy as np

    if isinstance(obj, np.ndarray):
        return (
            'ndarray',
            obj.dtype.str,
            obj.shape,
            np.ascontiguousarray(obj).tobytes(),
        )
    if isinstance(obj, np.generic):
        return ('npscalar', type(obj).__name__, norm(obj.item()))
    if isinstance(obj, bool) or obj is None:
        return obj
    if isinstance(obj, float):
        return ('float', obj.hex())
    if isinstance(obj, (int, str, bytes)):
        return (type(obj).__name__, obj)
    if isinstance(obj, (list, tuple)):
        return (type(obj).__name__, [norm(item) for item in obj])
    if isinstance(obj, dict):
        return ('dict', [(norm(k), norm(v)) for k, v in obj.items()])
    raise TypeError(type(obj))


def outcome(func, *args, **kwargs):
    """Run func; return ('returned', value) or ('raised', type, message)"""
    try:
        value = func(*args, **kwargs)
    except BaseException as exc:  # pylint: disable=broad-except
        return ('raised', type(exc).__name__, str(exc))
    return ('returned', norm(value))


def dump_tables(connection, tables):
    """All rows (with rowid and storage class) of the given tables"""
    result = []
    for table in tables:
        cursor = connection.cursor()
        cursor.execute('SELECT * FROM {} LIMIT 0'.format(table))
        columns = [d[0] for d in cursor.description]
        select = ', '.join(
            '{0}, typeof({0})'.format(column) for column in columns
        )
        rows = cursor.execute(
            'SELECT rowid, {} FROM {} ORDER BY rowid'.format(select, table)
        ).fetchall()
        cursor.close()
        result.append((table, norm(rows)))
    return result


def sample_file(tree, file_type, sample):
    return os.path.join(
        tree,
        'spowtd',
        'test',
        'sample_data',
        '{}_{}.txt'.format(file_type, sample),
    )


_CACHE = {}


def loaded_bytes(tree, sample):
    """Serialised database with sample data loaded (not classified)"""
    key = ('loaded', sample)
    if key not in _CACHE:
        import spowtd.load as load_mod

        connection = sqlite3.connect(':memory:')
        with open(
            sample_file(tree, 'precipitation', sample),
            'rt',
            encoding='utf-8-sig',
        ) as precip_f, open(
            sample_file(tree, 'evapotranspiration', sample),
            'rt',
            encoding='utf-8-sig',
        ) as et_f, open(
            sample_file(tree, 'water_level', sample),
            'rt',
            encoding='utf-8-sig',
        ) as zeta_f:
            load_mod.load_data(
                connection=connection,
                precipitation_data_file=precip_f,
                evapotranspiration_data_file=et_f,
                water_level_data_file=zeta_f,
                time_zone_name='Africa/Lagos',
            )
        _CACHE[key] = connection.serialize()
        connection.close()
    return _CACHE[key]


def classified_bytes(tree, sample, storm=8.0, jump=5.0):
    """Serialised database, classified but without zeta grid"""
    key = ('classified', sample, storm, jump)
    if key not in _CACHE:
        import spowtd.classify as classify_mod

        connection = open_db(loaded_bytes(tree, sample))
        classify_mod.classify_intervals(
            connection,
            storm_rain_threshold_mm_h=storm,
            rising_jump_threshold_mm_h=jump,
        )
        _CACHE[key] = connection.serialize()
        connection.close()
    return _CACHE[key]


def open_db(data):
    """In-memory database from serialised bytes, foreign keys on"""
    connection = sqlite3.connect(':memory:')
    connection.deserialize(data)
    connection.execute('PRAGMA foreign_keys = 1')
    return connection


def gridded(tree, sample, grid_interval_mm=1.0, **kwargs):
    """Connection like the classified_connection test fixture"""
    import spowtd.zeta_grid as zeta_grid_mod

    connection = open_db(classified_bytes(tree, sample, **kwargs))
    zeta_grid_mod.populate_zeta_grid(
        connection, grid_interval_mm=grid_interval_mm
    )
    connection.commit()
    return connection


def gridded_subset(tree, sample, grid_interval_mm=1.0, keep=60, offset=0):
    """Like gridded, but with only some of the interstorm intervals

    Keeps the run time of the recession step down.

    """
    connection = gridded(tree, sample, grid_interval_mm)
    connection.execute('PRAGMA foreign_keys = 0')
    connection.execute(
        """
    DELETE FROM zeta_interval
    WHERE interval_type = 'interstorm'
      AND start_epoch NOT IN (
        SELECT start_epoch FROM zeta_interval
        WHERE interval_type = 'interstorm'
        ORDER BY start_epoch LIMIT ? OFFSET ?)""",
        (keep, offset),
    )
    connection.commit()
    connection.execute('PRAGMA foreign_keys = 1')
    return connection


def empty_schema_db(tree):
    """In-memory database with just the schema"""
    connection = sqlite3.connect(':memory:')
    with open(os.path.join(tree, 'spowtd', 'schema.sql'), 'rt') as f:
        connection.executescript(f.read())
    connection.execute('PRAGMA foreign_keys = 1')
    return connection


def child_main(scenarios_func):
    """Entry point of the child: pickle the dict returned by scenarios"""
    out_path, tree = sys.argv[2], sys.argv[3]
    # The script directory is the unmodified worktree, which also
    # holds a spowtd package: make sure it is not the one imported
    sys.path[:] = [
        entry
        for entry in sys.path
        if os.path.abspath(entry or os.getcwd()) != ROOT
    ]
    import spowtd

    assert os.path.dirname(os.path.dirname(spowtd.__file__)) == tree, (
        spowtd.__file__,
        tree,
    )
    results = scenarios_func(tree)
    with open(out_path, 'wb') as f:
        pickle.dump(results, f)
